"""C04 — every column keeps exactly its own unit, whatever is done to the frame.

Correspondence: random (and bounded-exhaustive) operation histories on real `Table`s — facade edits, in-place
dataframe edits, pandas operations returning new frames — replayed step by step on the Lean model of the column
register (`Model/Meta.lean`, driver op "meta_hist").  The model never computes anything pandas does: every step
carries the *observed* frame (column names, dtype identity tokens, dtype kinds, emptiness) and, for derived frames,
the observed source registers of the `__finalize__` call.  Compared after every step: result / exception class,
the raw register (names, units, display units, display formats, in order) and whether a validated state is remembered.
Tables a history derives from (copies, selections, re-wraps) stay alive as siblings, each with its own info in the
model; after every operation on the current table all recent siblings are consulted too (model and oracles).
Function level: `unit_from_dtype`, `check_dtype`, `_update_columns`, the column part of `_combine_tables`.

Oracle (no model involved): the C04 statement evaluated on the real table after every step — one unit per dataframe
column, positional list == per-column lookup in dataframe column order, iteration order, every column still carries
the unit that was explicitly given for it (at construction by position, through add_column, a setter or a re-wrap) as
long as it stays in the frame, and the CSV text (written in both orientations), JsonData and Excel-sheet layout pair
every name with that column's own unit; in the CSV text the numbers of every column are rendered with that column's own
display format (Python's format() of the stored values, str() for columns without one; CSV only: the Excel and JSON
writers ignore display formats).  Excel goes through the public `write_excel` (stream or path) and is read back.
A writer that raises on a readable table is a failure unless the oracle-side classification (`writer_reasons`, judged
from the data, units and formats) says the table is outside what that writer handles.

This module is also the engine of C15 (`harness/props/c15.py` re-uses it with its own oracle and weights).
"""
import io
import itertools
import json
import re
import logging
import types
import warnings

from harness import common
from harness.common import Outcome, make_rng

logging.disable(logging.CRITICAL)

EXTRA = {
    "assumptions": [
        "everything pandas does (result columns, dtypes, emptiness, which frames __finalize__ is called on and with "
        "which sources) is observed per step and fed to the model; the theorems quantify over all such observations",
        "dtype equality implies equal dtype.kind (numpy/pandas law; checked on every pair of dtypes observed in a history)",
        "column names are strings (histories that produce other labels, e.g. transpose, are cut at that point)",
        "tables with zero rows are outside the statement: new columns of a frame without rows are not registered "
        "(modelled and compared, not claimed); a frame with rows that has lost all its columns is inside (zero units)",
        "building a facade on an existing table frame without keyword arguments (`Table(tdf)`, proxy.py) performs no "
        "consultation; the harness builds such facades for every access, the first checked access is the consultation",
        "a 'text' column holding pd.NA (possible only through the dataframe API: text cells of tables that are read are "
        "strings) makes write_csv / write_excel raise TypeError; such tables are out of the writers' domain and are "
        "counted as not judged for those writers",
        "a consultation may refuse the table (ColumnUnitException, InvalidNamingError for duplicate names, ValueError "
        "for a dtype kind without a StarTable unit): no unit list is reported then, which the statement allows",
    ],
    "explanation": "reachable_inv / units_positional / make_own_units / own_unit_kept / writers_pair / json_pairs "
                   "(Props/C04.lean) hold for every finite history with arbitrary frame effects and do not depend on the "
                   "values of the translated unit tables; the model is tied to the code by differential execution of "
                   "histories (and of _update_columns, check_dtype, unit_from_dtype, _combine_tables at function level).",
    "trusted_base": [
        "harness-side observation of pandas objects (df.columns, df.dtypes, df.empty) and the in-process wrappers around "
        "pdtable.frame._combine_tables / TableDataFrame.__finalize__ used to observe derived frames",
    ],
}

# column names and units include characters str.splitlines() breaks at (U+2028, U+0085, \x0b, \x1c), a BOM inside a
# value and astral characters: a name or unit is one cell whatever it contains
NAMES = ["a", "b", "c", "d", "e", "x y", "é", "A", "p\u2028q", "r\x85", "\ufeffh", "\U0001F600k", "v\x0bw", "\x1cz"]
PHYS = ["m", "kg", "-", "mm", "s", "datetime", "N/m", "m\u2029s", "k\x85g", "\U0001D538", "u\x1d"]
SPECIAL = ["text", "onoff"]
KINDS = ["f", "f", "i", "b", "s", "s", "o", "M", "c", "I", "B", "f4", "fn", "sn", "m", "C", "Mz", "Mz", "F8", "P"]
REFUSALS = ("ColumnUnitException", "InvalidNamingError", "ValueError")


def fresh(u):
    """an equal but distinct string object (built at run time, as units read from files are): literals and
    one-character strings are shared objects in CPython, which hides identity comparisons"""
    return u if u is None else "".join(list(u))


class RecRng:
    """the history's random source, recording every drawn value: a failing history is replayed from the drawn
    values themselves (`ReplayRng`), so a replay file keeps meaning the same history when pools, weights or the
    position of the case in a stream change"""

    def __init__(self, base):
        self.base, self.log = base, []

    def _rec(self, v):
        self.log.append(v)
        return v

    def random(self):
        return self._rec(self.base.random())

    def chance(self, p):
        """a yes/no decision with probability p: the *decision* is recorded, so a replay does not depend on p"""
        return self._rec(bool(self.base.random() < p))

    def uniform(self, a, b):
        return self._rec(self.base.uniform(a, b))

    def randint(self, a, b):
        return self._rec(self.base.randint(a, b))

    def choice(self, seq):
        return self._rec(self.base.choice(list(seq)))

    def sample(self, seq, k):
        return self._rec(self.base.sample(list(seq), k))

    def choices(self, seq, weights=None):
        return self._rec(self.base.choices(seq, weights))


class ReplayRng:
    """hands back the recorded draws in order; when they run out the history is cut (the failure it was recorded
    for has happened by then)"""

    def __init__(self, log):
        self.log, self.pos = list(log), 0

    def _next(self):
        if self.pos >= len(self.log):
            raise Abort("replay log exhausted")
        v = self.log[self.pos]
        self.pos += 1
        return v

    def random(self):
        v = self._next()
        if isinstance(v, bool) or not isinstance(v, (int, float)):
            raise Abort("replay log does not match the generator any more")
        return v

    def chance(self, p):
        v = self._next()
        if isinstance(v, bool):
            return v
        if isinstance(v, (int, float)):
            return v < p            # logs recorded before decisions were recorded as such
        raise Abort("replay log does not match the generator any more")

    def uniform(self, a, b):
        return self.random()

    def randint(self, a, b):
        v = self._next()
        if isinstance(v, bool) or not isinstance(v, int):
            raise Abort("replay log does not match the generator any more")
        return v

    def choice(self, seq):
        v = self._next()
        return tuple(v) if isinstance(v, list) and seq and isinstance(list(seq)[0], tuple) else v

    def sample(self, seq, k):
        return self._next()

    def choices(self, seq, weights=None):
        return self._next()


class Abort(Exception):
    """history left the modelled domain (non-string labels, metadata lost)"""


# --------------------------------------------------------------------------- values

def make_values(rng, kind, n):
    import numpy as np
    import pandas as pd
    if kind == "f":
        return [round(rng.uniform(-5, 5), 2) for _ in range(n)]
    if kind == "fn":
        return [float("nan") if rng.chance(0.4) else round(rng.uniform(-5, 5), 2) for _ in range(n)]
    if kind == "f4":
        return np.array([rng.randint(-4, 4) / 2 for _ in range(n)], dtype="float32")
    if kind == "i":
        return np.array([rng.randint(-9, 9) for _ in range(n)], dtype="int64")
    if kind == "b":
        return np.array([rng.chance(0.5) for _ in range(n)], dtype=bool)
    if kind == "s":
        return pd.array([rng.choice(["x", "y", "zz", ""]) for _ in range(n)], dtype="str")
    if kind == "sn":
        return pd.array([None if rng.chance(0.4) else rng.choice(["x", "y"]) for _ in range(n)], dtype="str")
    if kind == "o":
        return np.array([rng.choice([1, "x", None, 2.5, True]) for _ in range(n)], dtype=object)
    if kind == "M":
        return pd.to_datetime(["2020-01-%02d" % rng.randint(1, 28) for _ in range(n)])
    if kind == "Mz":
        return pd.to_datetime(["2020-01-%02d 12:00" % rng.randint(1, 28) for _ in range(n)]).tz_localize(
            rng.choice(["UTC", "Europe/Copenhagen"]))
    if kind == "F8":
        return pd.array([None if rng.chance(0.3) else rng.randint(0, 9) / 4 for _ in range(n)], dtype="Float64")
    if kind == "P":
        return pd.period_range("2020-01", periods=n, freq="M").array if n else pd.array([], dtype="period[M]")
    if kind == "c":
        return pd.Categorical([rng.choice(["u", "v"]) for _ in range(n)], categories=["u", "v"])
    if kind == "I":
        return pd.array([None if rng.chance(0.3) else rng.randint(0, 9) for _ in range(n)], dtype="Int64")
    if kind == "B":
        return pd.array([None if rng.chance(0.3) else rng.chance(0.5) for _ in range(n)], dtype="boolean")
    if kind == "m":
        return pd.to_timedelta([rng.randint(0, 9) for _ in range(n)], unit="s")
    if kind == "C":
        return np.array([complex(rng.randint(0, 3), 1) for _ in range(n)], dtype=complex)
    raise AssertionError(kind)


def default_unit(kind_char):
    """the property's rule for columns created without an explicit unit"""
    if kind_char == "b":
        return "onoff"
    if kind_char in ("O", "S", "U"):
        return "text"
    return "-"


def good_unit(rng, values):
    import pandas as pd
    k = values.dtype.kind if hasattr(values, "dtype") else pd.Series(values).dtype.kind
    if k == "b":
        return "onoff"
    if k in "OSU":
        return "text"
    return rng.choice(PHYS)


# --------------------------------------------------------------------------- observation of the real objects

class Observer:
    """dtype identity tokens for one history: two dtypes get the same token iff they compare equal"""

    def __init__(self, out):
        self.reps = []
        self.out = out

    def token(self, dt):
        for i, (r, k) in enumerate(self.reps):
            try:
                same = bool(dt == r)
            except Exception:
                same = False
            if same:
                if k != dt.kind:
                    self.out.notes.append(f"EXT-LAW VIOLATED: equal dtypes {dt!r} / {r!r} with kinds {dt.kind!r} / {k!r}")
                    self.out.count("ext_law_violation")
                return f"{i}:{dt}"
        self.reps.append((dt, dt.kind))
        return f"{len(self.reps) - 1}:{dt}"

    def frame(self, df):
        cols = []
        dts = list(df.dtypes)
        for name, dt in zip(list(df.columns), dts):
            if not isinstance(name, str):
                raise Abort("non-string column label")
            cols.append([name, self.token(dt), str(dt.kind)])
        return {"cols": cols, "empty": bool(df.empty)}


def remembered(info):
    """the remembered validated state of an info object, as far as it can be seen from outside.  Private attribute
    names are not part of any property: the known spellings are tried (three `_last_*` attributes; one tuple /
    NamedTuple attribute whose name starts with `_last` or `_checked`, None = nothing remembered); anything else is
    "unobservable" (None) and the remembered state is then simply not compared with the model."""
    d = getattr(info, "__dict__", {})
    if "_last_dataframe_state" in d:
        has = d["_last_dataframe_state"] is not None
        return {"has": has, "strict": bool(d.get("_last_strict_types")) if has and "_last_strict_types" in d else None}
    cands = [k for k in d if k.startswith("_last") or k.startswith("_checked")]
    if len(cands) == 1:
        v = d[cands[0]]
        if v is None:
            return {"has": False, "strict": None}
        if isinstance(v, tuple) and len(v) >= 1:
            strict = getattr(v, "strict_types", None)
            if strict is None and len(v) >= 3 and isinstance(v[2], (bool,)):
                strict = v[2]
            return {"has": v[0] is not None, "strict": None if strict is None else bool(strict)}
    return None


def state_fields(info, out):
    """the part of a step's expectation that describes the remembered state ({} when unobservable)"""
    r = remembered(info)
    if r is None:
        out.count("remembered:unobservable")
        return {}
    f = {"last": r["has"]}
    if not r["has"]:
        f["ls"] = None
    elif r["strict"] is not None:
        f["ls"] = r["strict"]
    return f


def table_info_of(df):
    """the table information attached to a frame, without consulting it (public route:
    `get_table_info(df, check_dataframe=False)`); None for a plain DataFrame or a frame that lost it"""
    try:
        from pdtable.frame import get_table_info
        return get_table_info(df, fail_if_missing=False, check_dataframe=False)
    except Exception:
        return None


def reg_snapshot(info):
    res = []
    for name, c in info.columns.items():
        if not isinstance(name, str):
            raise Abort("non-string register key")
        f = c.display_format
        res.append([name, c.unit, c.display_unit, None if f is None else str(f.specifier)])
    return res


class Hooks:
    """in-process observation of `__finalize__` (harness process only; /repo is not touched)"""

    def __init__(self, obs):
        self.obs = obs
        self.recs = []

    def __enter__(self):
        import pdtable.frame as F
        self.F = F
        self.orig_combine = getattr(F, "_combine_tables", None)
        self.orig_fin = F.TableDataFrame.__finalize__
        # `_combine_tables` is a private helper: when it is not there under that name the sources of a derived frame
        # cannot be observed; derived frames are then outside what this harness can follow (histories are cut there)
        self.observable = self.orig_combine is not None
        hooks = self

        def combine(obj, other, method, **kw):
            rec = {"method": method, "srcs": None, "frame": None, "info": None, "exc": None, "combined": None,
                   "out_ok": True}
            try:
                if method == "merge":
                    src = [other.left, other.right]
                elif method == "concat":
                    src = list(other.objs)
                else:
                    src = [other]
                data = [d for d in (table_info_of(s) for s in src) if d is not None]
                rec["srcs"] = [reg_snapshot(d) for d in data]
                rec["frame"] = hooks.obs.frame(obj)
            except Abort:
                rec["out_ok"] = False
            except Exception:
                rec["out_ok"] = False
            hooks.recs.append(rec)
            try:
                r = hooks.orig_combine(obj, other, method, **kw)
            except Exception as e:
                rec["exc"] = type(e).__name__
                raise
            if r is not None:
                rec["info"] = r
                rec["strict"] = bool(r.metadata.strict_types)
                try:
                    rec["combined"] = reg_snapshot(r)
                except Abort:
                    rec["out_ok"] = False
            return r

        def fin(self_, other, method=None, **kw):
            n0 = len(hooks.recs)
            try:
                return hooks.orig_fin(self_, other, method=method, **kw)
            except Exception as e:
                if len(hooks.recs) > n0 and hooks.recs[-1]["exc"] is None:
                    hooks.recs[-1]["exc"] = type(e).__name__
                raise

        if self.observable:
            F._combine_tables = combine
        F.TableDataFrame.__finalize__ = fin
        return self

    def __exit__(self, *a):
        if self.observable:
            self.F._combine_tables = self.orig_combine
        self.F.TableDataFrame.__finalize__ = self.orig_fin


# --------------------------------------------------------------------------- one history

class TableState:
    """one live table of a history (the start table, a re-wrap, a derived frame): its frame and what the
    oracles remember about it.  Tables a history derives from stay alive as siblings."""

    def __init__(self, df, slot, assigned=None, assigned_fmt=None):
        self.df = df
        self.slot = slot            # index of this table's info in the model driver
        self.tainted = False        # a special unit was involved in a unit-setter call since the last full validation
        self.taint_obs = None       # (kept for replay compatibility; not used for clearing any more)
        self.revalidated = False    # evidence, since the taint, that the library validated this table again
        self.refused = False        # the last operation on this table was refused by pandas before anything changed
        self.seen = None            # (look, units by name) at the last successful consultation of this table
        self.ops_since = 0          # operations on this table since that consultation
        self.facade = None          # a Table facade created once for this frame and kept for the whole history
        self.expect_default = {}    # column name -> True: created without explicit unit, check at next success
        self.assigned = dict(assigned or {})   # column name -> the unit explicitly given for that column
        # column name -> display-format specifier given for that column (None: known to have none); kept by the
        # harness from what the history did, never read back from the implementation
        self.assigned_fmt = dict(assigned_fmt or {})
        self.snap = None            # plain DataFrame copy of the frame at the last successful consultation


def _delegate(name):
    return property(lambda self: getattr(self.cur, name), lambda self, v: setattr(self.cur, name, v))


class Ctx:
    def __init__(self, out, prop, rng, case):
        self.out, self.prop, self.rng, self.case = out, prop, rng, case
        self.obs = Observer(out)
        self.steps, self.expect = [], []
        self.fn_ops = []            # function-level model ops gathered on the way: (op, expected, what)
        self.tables = []            # all live tables, in creation order (slot == index)
        self.cur = None             # the table the history is currently operating on
        self.failed = False

    tainted = _delegate("tainted")
    taint_obs = _delegate("taint_obs")
    revalidated = _delegate("revalidated")
    refused = _delegate("refused")
    seen = _delegate("seen")
    ops_since = _delegate("ops_since")
    expect_default = _delegate("expect_default")
    assigned = _delegate("assigned")
    assigned_fmt = _delegate("assigned_fmt")
    snap = _delegate("snap")

    @property
    def df(self):
        return self.cur.df

    @df.setter
    def df(self, new_df):
        """a new table object came into being (construction, re-wrap, derived frame): it becomes the current
        one, the table it came from stays alive as a sibling with its own register"""
        from pdtable import Table
        ts = TableState(new_df, len(self.tables), assigned=self.cur.assigned if self.cur is not None else None,
                        assigned_fmt=self.cur.assigned_fmt if self.cur is not None else None)
        try:
            ts.facade = Table(new_df)            # no keyword arguments: builds the facade, consults nothing
        except Exception:
            ts.facade = None
        self.tables.append(ts)
        self.cur = ts

    @property
    def info(self):
        return table_info_of(self.df)

    def look(self):
        """what a consultation can depend on, as seen from outside: columns, dtypes, emptiness, strict flag"""
        return (json.dumps(self.obs.frame(self.df), sort_keys=True), bool(self.info.metadata.strict_types))

    def taint(self):
        """a unit setter put or removed a special unit: C15 is not claimed for this table until it is validated
        again, i.e. until a consultation succeeds on a table that does not look like it did at this moment"""
        self.tainted = True
        self.revalidated = False

    def send(self, k, res, frame=None, info=None, t=None, **args):
        """append one model step with what the implementation answered"""
        info = info if info is not None else self.info
        step = {"k": k, "t": self.cur.slot if t is None else t,
                "frame": frame if frame is not None else self.obs.frame(self.df)}
        step.update(args)
        self.steps.append(step)
        e = {"res": res, "reg": reg_snapshot(info), "strict": bool(info.metadata.strict_types)}
        e.update(state_fields(info, self.out))
        self.expect.append(e)


def exc_name(e):
    return {"exc": type(e).__name__}


def quiet(fn, *a, **k):
    with warnings.catch_warnings():
        warnings.simplefilter("ignore")
        return fn(*a, **k)


def init_table(ctx, plan=None):
    """random start table; returns the `init` part of the model op and the description"""
    import pandas as pd
    from pdtable import Table
    rng = ctx.rng
    if plan is None:
        ncol = rng.choice([0, 1, 2, 2, 3, 3, 4])
        nrow = rng.choice([0, 1, 2, 2, 3])
        names = rng.sample(NAMES, ncol)
        if ncol >= 2 and rng.chance(0.04):
            names[1] = names[0]                              # duplicate labels
        kinds = [rng.choice(KINDS) for _ in range(ncol)]
        mode = rng.choice(["good", "good", "good", "none", "wrong", "short", "long", "map"])
        strict = rng.chance(0.8)
    else:
        names, kinds, nrow, mode, strict = plan
        ncol = len(names)
    cols = [make_values(rng, k, nrow) for k in kinds]
    df = pd.DataFrame({i: v for i, v in enumerate(cols)})
    df.columns = names
    units, unit_map = None, None
    goods = [good_unit(rng, df.iloc[:, j]) for j in range(ncol)]
    if mode == "good":
        units = goods
    elif mode == "wrong":
        units = [rng.choice(PHYS + SPECIAL) for _ in range(ncol)]
    elif mode == "short":
        units = goods[: max(0, ncol - 1)]
    elif mode == "long":
        units = goods + ["kg"]
    elif mode == "map":
        unit_map = {n: u for n, u in zip(names, goods) if rng.chance(0.7)}
    if units is not None:
        units = [fresh(u) for u in units]
    if unit_map is not None:
        unit_map = {k: fresh(v) for k, v in unit_map.items()}
    desc = {"names": names, "kinds": kinds, "nrow": nrow, "mode": mode, "strict": strict, "units": units,
            "unit_map": unit_map}
    frame = ctx.obs.frame(df)
    init = {"k": "make", "frame": frame, "units": units,
            "unit_map": None if unit_map is None else [[k, v] for k, v in unit_map.items()], "strict": strict}
    kw = {}
    if units is not None:
        kw["units"] = units
    if unit_map is not None:
        kw["unit_map"] = unit_map
    try:
        t = quiet(Table, df, name="t", strict_types=strict, **kw)
        res = None
        ctx.df = t.df
        if len(set(names)) == len(names) and not ctx.df.empty:
            ctx.assigned = dict(zip(names, units)) if units is not None else dict(unit_map or {})
            ctx.assigned_fmt = {n: None for n in names}          # a freshly constructed table has no display formats
        if units is None:
            for n in names:
                if unit_map is None or n not in unit_map:
                    ctx.expect_default[n] = True
    except Exception as e:
        res = exc_name(e)
    return init, desc, res


# ---- the operation alphabet.  Each returns a short description (goes into the case / replay). ----

def pick_name(ctx, new=0.3):
    rng = ctx.rng
    cur = [c for c in ctx.df.columns]
    if cur and rng.random() > new:
        return rng.choice(cur)
    free = [n for n in NAMES if n not in cur]
    return rng.choice(free) if free else rng.choice(NAMES)


def nrows_for_assign(ctx):
    if len(ctx.df.columns) == 0:
        return ctx.rng.choice([0, 1, 2])
    return len(ctx.df)


def wrong_length(ctx):
    """now and then the values handed to an assignment have one element too many: pandas refuses them, the caller
    catches the exception and goes on with the table — which must be as it was before"""
    if len(ctx.df.columns) > 0 and ctx.rng.chance(0.12):
        ctx.out.count("values_of_wrong_length")
        return 1
    return 0


def op_add_column(ctx, setitem=False):
    from pdtable import Table
    from pdtable.table_metadata import ColumnFormat
    rng = ctx.rng
    name = pick_name(ctx, 0.5)
    kind = rng.choice(KINDS)
    vals = make_values(rng, kind, nrows_for_assign(ctx) + wrong_length(ctx))
    unit, kw = None, {}
    if not setitem:
        r = rng.random()
        unit = fresh(None if r < 0.3 else (good_unit(rng, vals) if r < 0.75 else rng.choice(PHYS + SPECIAL)))
        if rng.chance(0.25):
            kw["display_format"] = ColumnFormat(rng.choice([1, 2, "8.3e"]))
        if rng.chance(0.15):
            kw["display_unit"] = rng.choice(["mm", ""])
    t = Table(ctx.df)
    was_registered = name in ctx.info.columns
    try:
        if setitem:
            quiet(t.__setitem__, name, vals)
        else:
            quiet(t.add_column, name, vals, unit, **kw)
        res = None
    except Exception as e:
        res = exc_name(e)
        if _raised_in_assignment(e):
            # `df[name] = values` itself was refused by pandas: nothing reached pdtable
            ctx.out.count("pandas_refused_assignment:" + res["exc"])
            ctx.refused = True
            return f"add_column({name!r},{kind},{unit!r}) -> pandas {res['exc']}"
        # pdtable itself raised after the assignment.  Overwriting / adding a column through the facade is an operation
        # of the statement: it may only be refused for a dtype without a StarTable unit (no unit given) or for a
        # duplicated label; the validation against the data happens at the next consultation
        new_kind = _kind_after(ctx.df, name)
        legit = (unit is None and new_kind is not None and new_kind not in "biufMOSU") or list(ctx.df.columns).count(name) > 1
        if not legit and ctx.prop == "C04":
            _fail(ctx, "adding / overwriting a column through the facade raised instead of registering the column",
                  {"exc": res["exc"], "column": name, "unit": unit, "kind": new_kind}, "the column with one unit",
                  "C04:facade-overwrite-raised:" + res["exc"])
    desc = f"{'setitem' if setitem else 'add_column'}({name!r},{kind},{unit!r},{sorted(kw)})"
    f = kw.get("display_format")
    ctx.send("add_column", res, name=name, unit=unit, dunit=kw.get("display_unit"),
             fmt=None if f is None else str(f.specifier))
    ctx.revalidated = True          # add_column asks for re-validation: the next successful consultation validated
    if res is None and unit is None:
        ctx.expect_default[name] = True
    else:
        ctx.expect_default.pop(name, None)
    if res is None and unit is not None:
        ctx.assigned[name] = unit
    else:
        ctx.assigned.pop(name, None)
    # display format: a new register entry gets the format given (or none); an existing entry keeps a format it
    # already has and otherwise takes the one given (ColumnMetadata.update_from)
    spec = None if f is None else str(f.specifier)
    if res is not None:
        ctx.assigned_fmt.pop(name, None)
    elif not was_registered:
        ctx.assigned_fmt[name] = spec
    elif name in ctx.assigned_fmt:
        if ctx.assigned_fmt[name] is None:
            ctx.assigned_fmt[name] = spec
    elif spec is not None:
        ctx.assigned_fmt.pop(name, None)
    return desc


def _kind_after(df, name):
    try:
        return df[name].dtype.kind
    except Exception:
        return None


def _raised_in_assignment(e):
    """did pdtable.frame.add_column fail in its first statement `df[name] = values` (pandas refusing the values),
    as opposed to afterwards (register edit: `df[name].dtype`, unit_from_dtype)?"""
    import traceback
    for fr in traceback.extract_tb(e.__traceback__):
        if fr.name == "add_column" and fr.filename.endswith("frame.py"):
            return (fr.line or "").replace(" ", "").startswith("df[name]=values")
    return True


def _raised_in(e, func_name):
    import traceback
    return any(fr.name == func_name for fr in traceback.extract_tb(e.__traceback__))


def setter_involves_special(ctx, name, new_unit, pre_unit):
    """is this unit-setter call a relabelling that puts or removes a special unit?  The setter consults the table
    first, so a column not yet registered gets the unit of its dtype before it is relabelled: judge by the dtype too."""
    if new_unit in SPECIAL or pre_unit in SPECIAL:
        return True
    cols = list(ctx.df.columns)
    if cols.count(name) == 1:
        return default_unit(ctx.df[name].dtype.kind) in SPECIAL
    return False


def op_set_units(ctx):
    from pdtable import Table
    rng = ctx.rng
    cur = list(ctx.df.columns)
    k = rng.choice([1, 1, 2, 3])
    names = [rng.choice(cur) if cur and rng.chance(0.9) else rng.choice(NAMES) for _ in range(k)]
    m = {}
    for n in names:
        m[n] = rng.choice(PHYS) if rng.chance(0.8) else rng.choice(SPECIAL)
    t = Table(ctx.df)
    try:
        pre = dict((n, c.unit) for n, c in ctx.info.columns.items())
        quiet(setattr, t, "units", m)
        res = None
    except Exception as e:
        res = exc_name(e)
    for n, u in m.items():
        if setter_involves_special(ctx, n, u, pre.get(n)):
            ctx.taint()
        ctx.expect_default.pop(n, None)
        if res is None:
            ctx.assigned[n] = u
        else:
            ctx.assigned.pop(n, None)
            ctx.assigned_fmt.pop(n, None)
    ctx.send("set_units", res, map=[[n, u] for n, u in m.items()])
    return f"set_units({m})"


def op_set_all_units(ctx):
    from pdtable.frame import set_all_units
    rng = ctx.rng
    n = len(ctx.df.columns)
    us = [rng.choice(PHYS) if rng.chance(0.85) else rng.choice(SPECIAL) for _ in range(rng.choice([n, n, n + 1, max(0, n - 1)]))]
    pre = dict((k, c.unit) for k, c in ctx.info.columns.items())
    try:
        quiet(set_all_units, ctx.df, us)
        res = None
    except Exception as e:
        res = exc_name(e)
    for name, u in zip(ctx.df.columns, us):
        if setter_involves_special(ctx, name, u, pre.get(name)):
            ctx.taint()
        ctx.expect_default.pop(name, None)
        if res is None:
            ctx.assigned[name] = u
        else:
            ctx.assigned.pop(name, None)
            ctx.assigned_fmt.pop(name, None)
    ctx.send("set_all_units", res, units=us)
    return f"set_all_units({us})"


def op_set_col_unit(ctx):
    from pdtable import Table
    rng = ctx.rng
    name = pick_name(ctx, 0.1)
    u = rng.choice(PHYS) if rng.chance(0.8) else rng.choice(SPECIAL)
    pre = ctx.info.columns[name].unit if name in ctx.info.columns else None
    try:
        col = quiet(Table(ctx.df).__getitem__, name)
        col.unit = u
        res = None
    except Exception as e:
        res = exc_name(e)
    if setter_involves_special(ctx, name, u, pre):
        ctx.taint()
    ctx.expect_default.pop(name, None)
    if res is None:
        ctx.assigned[name] = u
    else:
        ctx.assigned.pop(name, None)
        ctx.assigned_fmt.pop(name, None)
    ctx.send("set_col_unit", res, name=name, unit=u)
    return f"t[{name!r}].unit={u!r}"


def op_set_format(ctx):
    """`table.column_metadata[name].display_format = ColumnFormat(...)` (or None), on numeric columns mostly"""
    from pdtable import Table
    from pdtable.table_metadata import ColumnFormat
    rng = ctx.rng
    numeric = [c for c, dt in zip(ctx.df.columns, ctx.df.dtypes) if dt.kind in "fi"]
    name = rng.choice(numeric) if numeric and rng.chance(0.8) else pick_name(ctx, 0.1)
    spec = rng.choice([1, 3, "8.3e", ".2f", "+.1f", None])
    fmt = None if spec is None else ColumnFormat(spec)
    try:
        quiet(lambda: Table(ctx.df).column_metadata)[name].display_format = fmt
        res = None
    except Exception as e:
        res = exc_name(e)
    if res is None:
        ctx.assigned_fmt[name] = None if fmt is None else str(fmt.specifier)
    else:
        ctx.assigned_fmt.pop(name, None)
    ctx.send("set_fmt", res, name=name, fmt=None if fmt is None else str(fmt.specifier))
    return f"column_metadata[{name!r}].display_format={None if fmt is None else fmt.specifier!r}"


def op_set_strict(ctx):
    """`table.metadata.strict_types = b`: a plain attribute edit (through the facade, which consults first, or
    directly on the info object)"""
    from pdtable import Table
    rng = ctx.rng
    b = rng.chance(0.6)
    if rng.chance(0.7):
        try:
            units = list(quiet(lambda: Table(ctx.df).units))
            ures = units
        except Exception as e:
            units, ures = None, exc_name(e)
        ctx.send("units", ures)
        if units is None:
            return f"metadata.strict_types={b} -> {ures['exc']} (table refused)"
        quiet(lambda: Table(ctx.df).metadata).strict_types = b
        how = "facade"
    else:
        ctx.info.metadata.strict_types = b
        how = "info"
    ctx.send("set_strict", None, b=b)
    return f"metadata.strict_types={b} ({how})"


def op_rewrap(ctx):
    from pdtable import Table
    rng = ctx.rng
    n = len(ctx.df.columns)
    mode = rng.choice(["units", "units", "name", "strict"])
    us, st, kw = None, None, {}
    if mode == "units":
        us = [rng.choice(PHYS) if rng.chance(0.6) else rng.choice(SPECIAL) for _ in range(rng.choice([n, n, n, n + 1, max(0, n - 1)]))]
        if rng.chance(0.5):
            # keep the units that are right for the data
            try:
                us = [good_unit(rng, ctx.df[c]) for c in ctx.df.columns]
            except Exception:
                pass
        kw["units"] = us
    elif mode == "name":
        kw["name"] = "renamed"
    else:
        st = rng.chance(0.5)
        kw["strict_types"] = st
    old_info = ctx.info
    old_slot = ctx.cur.slot
    try:
        t2 = quiet(Table, ctx.df, **kw)
        res = None
    except Exception as e:
        res = exc_name(e)
    if res is None:
        ctx.df = t2.df
        ctx.tainted = False
        ctx.expect_default = {}
        if us is not None and not ctx.df.empty:
            ctx.assigned = dict(zip(list(ctx.df.columns), us))
        # a re-wrap builds fresh ColumnMetadata(unit) objects: display formats are not part of what it carries over
        ctx.assigned_fmt = {} if ctx.df.empty else {n: None for n in ctx.df.columns}
        ctx.send("rewrap", None, t=old_slot, units=us, strict=st)
    else:
        ctx.send("rewrap", res, info=old_info, units=us, strict=st)
        return f"rewrap({kw}) -> {res['exc']}"
    return f"rewrap({kw})"


# in-place dataframe edits: pdtable is not involved, nothing is sent; the next steps observe the new frame

def inplace(ctx, fn, desc):
    before_info = ctx.info
    try:
        quiet(fn, ctx.df)
    except Exception as e:
        ctx.out.count("pandas_error:" + type(e).__name__)
        ctx.refused = True
        return desc + " -> pandas " + type(e).__name__
    if table_info_of(ctx.df) is not before_info:
        raise Abort("in-place operation replaced the info object")
    return desc


def op_df_insert(ctx):
    rng = ctx.rng
    name = pick_name(ctx, 0.9)
    kind = rng.choice(KINDS)
    vals = make_values(rng, kind, nrows_for_assign(ctx) + wrong_length(ctx))
    pos = rng.randint(0, len(ctx.df.columns))
    allow = rng.chance(0.1)
    known = name in ctx.info.columns
    if name in ctx.df.columns:
        ctx.assigned.pop(name, None)          # duplicate label: which column "owns" the unit is undefined
        ctx.assigned_fmt.pop(name, None)
    d = inplace(ctx, lambda df: df.insert(pos, name, vals, allow_duplicates=allow), f"df.insert({pos},{name!r},{kind})")
    if not known and "-> pandas" not in d:
        ctx.expect_default[name] = True
    return d


def op_df_del(ctx):
    cur = list(ctx.df.columns)
    if not cur:
        return "del(nothing)"
    name = ctx.rng.choice(cur)
    ctx.expect_default.pop(name, None)
    ctx.assigned.pop(name, None)
    ctx.assigned_fmt.pop(name, None)

    def f(df):
        del df[name]
    return inplace(ctx, f, f"del df[{name!r}]")


def op_df_rename(ctx):
    rng = ctx.rng
    cur = list(ctx.df.columns)
    if not cur:
        return "rename(nothing)"
    old = rng.choice(cur)
    new = rng.choice(NAMES)
    if new not in ctx.info.columns:
        ctx.expect_default[new] = True
    if new != old:
        ctx.assigned.pop(old, None)
        ctx.assigned_fmt.pop(old, None)
        ctx.assigned.pop(new, None)
        ctx.assigned_fmt.pop(new, None)
    return inplace(ctx, lambda df: df.rename(columns={old: new}, inplace=True), f"df.rename({old!r}->{new!r},inplace)")


def op_df_setcols(ctx):
    rng = ctx.rng
    n = len(ctx.df.columns)
    new = rng.sample(NAMES, n) if rng.chance(0.5) else rng.sample(list(ctx.df.columns), n)
    for c in new:
        if c not in ctx.info.columns:
            ctx.expect_default[c] = True
    ctx.assigned = {}
    ctx.assigned_fmt = {}

    def f(df):
        df.columns = new
    return inplace(ctx, f, f"df.columns={new}")


def op_df_move(ctx):
    rng = ctx.rng
    cur = list(ctx.df.columns)
    if len(cur) < 2 or len(set(cur)) != len(cur):
        return "move(nothing)"
    name = rng.choice(cur)
    pos = rng.randint(0, len(cur) - 1)

    def f(df):
        s = df.pop(name)
        df.insert(pos, name, s)
    return inplace(ctx, f, f"move {name!r} to {pos}")


def op_df_sortcols_inplace(ctx):
    asc = ctx.rng.chance(0.5)
    return inplace(ctx, lambda df: df.sort_index(axis=1, ascending=asc, inplace=True), f"df.sort_index(axis=1,asc={asc},inplace)")


def op_df_assign(ctx):
    rng = ctx.rng
    name = pick_name(ctx, 0.3)
    kind = rng.choice(KINDS)
    vals = make_values(rng, kind, nrows_for_assign(ctx) + wrong_length(ctx))
    known = name in ctx.info.columns

    def f(df):
        df[name] = vals
    d = inplace(ctx, f, f"df[{name!r}]={kind}")
    if not known and "-> pandas" not in d:
        ctx.expect_default[name] = True
    return d


def op_df_astype(ctx):
    rng = ctx.rng
    cur = list(ctx.df.columns)
    if not cur or len(set(cur)) != len(cur):
        return "astype(nothing)"
    name = rng.choice(cur)
    typ = rng.choice(["float64", "float32", "int64", "bool", "str", "object", "category", "Int64", "Float64", "boolean"])

    def f(df):
        df[name] = df[name].astype(typ)
    return inplace(ctx, f, f"df[{name!r}]=astype({typ})")


def row_for(ctx, foreign):
    rng = ctx.rng
    row = []
    for dt in ctx.df.dtypes:
        k = dt.kind
        if foreign and rng.chance(0.5):
            row.append(rng.choice(["txt", 1.5, True, None]))
        elif k == "f":
            row.append(rng.uniform(0, 3))
        elif k in "iu":
            row.append(rng.randint(0, 5))
        elif k == "b":
            row.append(rng.chance(0.5))
        elif k == "M":
            import pandas as pd
            row.append(pd.Timestamp("2021-03-04"))
        else:
            row.append("w")
    return row


def op_df_loc_append(ctx):
    rng = ctx.rng
    foreign = rng.chance(0.4)
    row = row_for(ctx, foreign)
    label = (max([i for i in ctx.df.index if isinstance(i, int)] + [-1]) + 1)

    def f(df):
        df.loc[label] = row
    return inplace(ctx, f, f"df.loc[{label}]=row(foreign={foreign})")


def op_df_del_all(ctx):
    """delete every column in place: the frame keeps its rows (index) but has no columns any more"""
    ctx.assigned = {}
    ctx.assigned_fmt = {}

    def f(df):
        for c in list(dict.fromkeys(df.columns)):
            del df[c]
    return inplace(ctx, f, "del every column (rows stay)")


def op_df_drop_rows(ctx):
    return inplace(ctx, lambda df: df.drop(index=df.index, inplace=True), "df.drop(all rows,inplace)")


def op_df_drop_cols_inplace(ctx):
    cur = list(ctx.df.columns)
    if not cur:
        return "dropcols(nothing)"
    k = ctx.rng.choice(cur)
    ctx.expect_default.pop(k, None)
    ctx.assigned.pop(k, None)
    ctx.assigned_fmt.pop(k, None)
    return inplace(ctx, lambda df: df.drop(columns=[k], inplace=True), f"df.drop(columns=[{k!r}],inplace)")


def op_df_setcell(ctx):
    rng = ctx.rng
    cur = list(ctx.df.columns)
    if not cur or len(ctx.df) == 0 or len(set(cur)) != len(cur):
        return "setcell(nothing)"
    name = rng.choice(cur)
    val = rng.choice(["txt", 1.5, True, None, 3])
    idx = ctx.df.index[0]

    def f(df):
        df.loc[idx, name] = val
    return inplace(ctx, f, f"df.loc[{idx},{name!r}]={val!r}")


def op_df_fillna_inplace(ctx):
    val = ctx.rng.choice([0, "filled", False])
    return inplace(ctx, lambda df: df.fillna(val, inplace=True), f"df.fillna({val!r},inplace)")


def op_df_break_middle(ctx):
    """overwrite, in place, a 'text' / 'onoff' column from the middle of the frame with floats (a type-breaking
    assignment far away from both ends of a wide table)"""
    rng = ctx.rng
    cols = list(ctx.df.columns)
    n = len(cols)
    mid = [c for c, dt in list(zip(cols, ctx.df.dtypes))[n // 3: max(n // 3 + 1, 2 * n // 3)] if dt.kind in "ObSU"]
    if not mid:
        return "break_middle(nothing)"
    name = rng.choice(mid)
    vals = make_values(rng, "f", len(ctx.df))

    def f(df):
        df[name] = vals
    return inplace(ctx, f, f"df[{name!r}]=f (middle column of {n})")


def op_df_restore(ctx):
    """put the frame back, in place, to exactly what it was at the last successful consultation
    (same labels, same dtypes, same number of rows): the remembered-state short cut may fire"""
    snap = ctx.snap
    if snap is None:
        return "restore(nothing)"
    ctx.assigned = {}
    ctx.assigned_fmt = {}

    def f(df):
        for c in list(dict.fromkeys(df.columns)):
            del df[c]
        df.drop(index=df.index, inplace=True)
        for c in snap.columns:
            df[c] = snap[c].array.copy()
    return inplace(ctx, f, f"restore frame to last consulted state {list(snap.columns)}x{len(snap)}")


# pandas operations returning a new frame

def other_table(ctx, share=True):
    """a second table to concatenate / merge with"""
    import pandas as pd
    from pdtable import Table
    rng = ctx.rng
    n = rng.choice([1, 2, 2, 3])
    cur = list(ctx.df.columns)
    names = []
    for _ in range(n):
        c = rng.choice(cur) if cur and share and rng.chance(0.5) else rng.choice(NAMES)
        if c not in names:
            names.append(c)
    nrow = rng.choice([len(ctx.df), len(ctx.df), 1, 2, 0])
    cols, units = {}, []
    cur_units = {k: c.unit for k, c in ctx.info.columns.items()}
    for c in names:
        if c in cur and rng.chance(0.75) and len(set(cur)) == len(cur):
            # same kind and (mostly) same unit as the current table's column
            src = ctx.df[c]
            try:
                vals = make_values(rng, {"f": "f", "i": "i", "b": "b", "M": "M"}.get(src.dtype.kind, "s"), nrow)
            except Exception:
                vals = make_values(rng, "f", nrow)
            u = cur_units.get(c, "-") if rng.chance(0.8) else rng.choice(PHYS)
        else:
            vals = make_values(rng, rng.choice(["f", "i", "b", "s", "M"]), nrow)
            u = good_unit(rng, vals)
        cols[c] = vals
        units.append(fresh(u))
    df = pd.DataFrame(cols)
    try:
        return quiet(Table, df, name="other", units=units, strict_types=rng.chance(0.85)), names
    except Exception:
        return quiet(Table, df, name="other"), names


def derived(ctx, fn, desc, keeps_units=True):
    """run a pandas operation returning a new frame under the hooks; send the decisive `__finalize__` to the model.
    keeps_units: the current table is the only source and column labels keep their meaning"""
    import pandas as pd
    out = ctx.out
    old_info = ctx.info
    old_slot = ctx.cur.slot
    with Hooks(ctx.obs) as hk:
        try:
            r = quiet(fn, ctx.df)
            err = None
        except Exception as e:
            r, err = None, e
    if not hk.observable:
        ctx.out.count("hooks:unobservable")
        raise Abort("derived frames cannot be observed (no pdtable.frame._combine_tables)")
    # function level: the column part of _combine_tables for every observed call
    for rec in hk.recs:
        if rec["out_ok"] and rec["srcs"]:
            if rec["info"] is not None and rec["combined"] is not None:
                exp = rec["combined"]
            elif rec["exc"] == "InvalidTableCombineError":
                exp = {"exc": rec["exc"]}
            else:
                continue
            ctx.fn_ops.append(({"op": "meta_combine", "srcs": rec["srcs"], "out": [c[0] for c in rec["frame"]["cols"]]},
                               exp, "_combine_tables(" + str(rec["method"]) + ")"))
    if table_info_of(ctx.df) is not old_info:
        raise Abort("operation replaced the info object of its source")
    if err is not None:
        bad = [rec for rec in hk.recs if rec["exc"] is not None]
        if bad and bad[-1] is hk.recs[-1] and bad[-1]["exc"] == type(err).__name__ and bad[-1]["out_ok"] and bad[-1]["srcs"]:
            rec = bad[-1]
            ctx.send("finalize", {"exc": rec["exc"]}, frame=rec["frame"], srcs=rec["srcs"],
                     strict=rec.get("strict", True))
            out.count("finalize_refused:" + rec["exc"])
            if rec["exc"] == "InvalidTableCombineError" and ctx.prop == "C04":
                # judged from the source registers as observed: a column shared by several inputs with the SAME
                # unit in all of them is no clash; the combined table must exist and report that unit
                out_names = [c[0] for c in rec["frame"]["cols"]]
                clash = False
                for n in out_names:
                    us = {e[1] for src in rec["srcs"] for e in src if e[0] == n}
                    if len(us) > 1:
                        clash = True
                if not clash:
                    _fail(ctx, "combining tables whose shared columns carry equal units was refused as a unit clash",
                          {"exc": rec["exc"], "sources": [[e[:2] for e in src] for src in rec["srcs"]]},
                          "a table reporting the shared units", "C04:combine-refused-equal-units")
            return desc + " -> " + rec["exc"]
        out.count("pandas_error:" + type(err).__name__)
        return desc + " -> pandas " + type(err).__name__
    if not isinstance(r, pd.DataFrame):
        return desc + " -> no frame"
    info = table_info_of(r)
    if info is None:
        out.count("metadata_dropped")
        return desc + " -> plain DataFrame (kept the old table)"
    if info is old_info:
        raise Abort("derived frame aliases the info object of its source")
    rec = next((x for x in reversed(hk.recs) if x["info"] is info), None)
    if rec is None or not rec["out_ok"]:
        raise Abort("derived frame's info was not produced by an observed __finalize__")
    ctx.df = r
    ctx.tainted = False
    if not keeps_units:
        ctx.assigned = {}
        ctx.assigned_fmt = {}
    ctx.expect_default = {c[0]: True for c in rec["frame"]["cols"] if not any(c[0] == e[0] for s in rec["srcs"] for e in s)}
    # the register as it is now belongs to the finalize-time frame; the frame may have changed since (set_axis)
    ctx.send("finalize", None, t=old_slot, frame=rec["frame"], srcs=rec["srcs"], strict=rec["strict"])
    return desc


def op_select(ctx):
    rng = ctx.rng
    cur = list(ctx.df.columns)
    k = rng.randint(0, len(cur))
    sel = rng.sample(cur, k)
    return derived(ctx, lambda df: df[sel], f"df[{sel}]")


def op_copy(ctx):
    return derived(ctx, lambda df: df.copy(), "df.copy()")


def op_sort_index(ctx):
    rng = ctx.rng
    ax = rng.choice([0, 1, 1])
    asc = rng.chance(0.5)
    return derived(ctx, lambda df: df.sort_index(axis=ax, ascending=asc), f"df.sort_index(axis={ax},asc={asc})")


def op_reindex(ctx):
    rng = ctx.rng
    cur = list(ctx.df.columns)
    pool = list(dict.fromkeys(cur + rng.sample(NAMES, 2)))
    cols = rng.sample(pool, rng.randint(0, len(pool)))
    return derived(ctx, lambda df: df.reindex(columns=cols), f"df.reindex(columns={cols})")


def op_concat(ctx):
    import pandas as pd
    rng = ctx.rng
    axis = rng.choice([0, 1])
    o, names = other_table(ctx, share=(axis == 0))
    first = rng.chance(0.7)
    if axis == 1 and rng.chance(0.7):
        keep = [c for c in names if c not in list(ctx.df.columns)]
        odf = o.df[keep] if keep else o.df
    else:
        odf = o.df
    return derived(ctx, lambda df: pd.concat([df, odf] if first else [odf, df], axis=axis),
                   f"concat(axis={axis},first={first},other={list(odf.columns)})", keeps_units=False)


def op_merge(ctx):
    rng = ctx.rng
    o, names = other_table(ctx)
    common_cols = [c for c in names if c in list(ctx.df.columns)]
    how = rng.choice(["left", "inner", "outer", "right"])
    if common_cols:
        on = [rng.choice(common_cols)]
        return derived(ctx, lambda df: df.merge(o.df, on=on, how=how), f"df.merge(other{names},on={on},how={how})",
                       keeps_units=False)
    return derived(ctx, lambda df: df.merge(o.df, how="cross"), f"df.merge(other{names},how=cross)", keeps_units=False)


def op_assign(ctx):
    rng = ctx.rng
    name = pick_name(ctx, 0.6)
    if not name.isidentifier():
        name = "e"
    kind = rng.choice(KINDS)
    vals = make_values(rng, kind, len(ctx.df))
    return derived(ctx, lambda df: df.assign(**{name: vals}), f"df.assign({name}={kind})")


def op_drop(ctx):
    rng = ctx.rng
    cur = list(ctx.df.columns)
    if not cur:
        return "drop(nothing)"
    cols = rng.sample(cur, rng.randint(1, len(cur)))
    return derived(ctx, lambda df: df.drop(columns=cols), f"df.drop(columns={cols})")


def op_astype(ctx):
    rng = ctx.rng
    cur = list(ctx.df.columns)
    if not cur:
        return "astype(nothing)"
    name = rng.choice(cur)
    typ = rng.choice(["float64", "float32", "int64", "bool", "str", "object", "category", "Int64", "Float64", "boolean"])
    return derived(ctx, lambda df: df.astype({name: typ}), f"df.astype({{{name!r}:{typ}}})")


def op_fillna(ctx):
    val = ctx.rng.choice([0, 0.0, "filled", False])
    return derived(ctx, lambda df: df.fillna(val), f"df.fillna({val!r})")


def op_replace(ctx):
    rng = ctx.rng
    a, b = rng.choice([(True, "yes"), ("x", 1.0), (1.0, "one"), ("x", "q")])
    return derived(ctx, lambda df: df.replace(a, b), f"df.replace({a!r},{b!r})")


def op_rename(ctx):
    rng = ctx.rng
    cur = list(ctx.df.columns)
    if not cur:
        return "rename(nothing)"
    old, new = rng.choice(cur), rng.choice(NAMES)
    return derived(ctx, lambda df: df.rename(columns={old: new}), f"df.rename({old!r}->{new!r})", keeps_units=False)


def op_rows(ctx):
    rng = ctx.rng
    k = rng.choice(["head1", "empty", "take", "bool", "reset"])
    if k == "head1":
        return derived(ctx, lambda df: df.head(1), "df.head(1)")
    if k == "empty":
        return derived(ctx, lambda df: df.iloc[0:0], "df.iloc[0:0]")
    if k == "take":
        return derived(ctx, lambda df: df.take(list(reversed(range(len(df))))), "df.take(reversed)")
    if k == "reset":
        return derived(ctx, lambda df: df.reset_index(drop=True), "df.reset_index(drop=True)")
    return derived(ctx, lambda df: df[[i % 2 == 0 for i in range(len(df))]], "df[bool mask]")


def op_sort_values(ctx):
    cur = list(ctx.df.columns)
    if not cur:
        return "sort_values(nothing)"
    by = ctx.rng.choice(cur)
    asc = ctx.rng.chance(0.5)
    return derived(ctx, lambda df: df.sort_values(by=by, ascending=asc), f"df.sort_values({by!r},asc={asc})")


def op_deepcopy(ctx):
    import copy
    return derived(ctx, lambda df: copy.deepcopy(df), "copy.deepcopy(df)")


def op_pickle(ctx):
    """a pickle round trip of the frame: the copy carries a copy of the table information as it is (register and
    whatever is remembered); no `__finalize__` is involved.  Model: the info is cloned."""
    import pickle
    old_slot = ctx.cur.slot
    try:
        r = pickle.loads(pickle.dumps(ctx.df))
    except Exception as e:
        ctx.out.count("pandas_error:" + type(e).__name__)
        return "pickle round trip -> " + type(e).__name__
    info = table_info_of(r)
    if info is None:
        ctx.out.count("metadata_dropped")
        return "pickle round trip -> table information lost (kept the old table)"
    if info is ctx.info:
        raise Abort("unpickled frame aliases the info object of its source")
    taint, reval, fmts = ctx.tainted, ctx.revalidated, dict(ctx.assigned_fmt)
    ctx.df = r
    ctx.tainted, ctx.revalidated, ctx.assigned_fmt = taint, reval, fmts      # same state, same obligations
    ctx.send("clone", None, t=old_slot)
    return "pickle round trip of the frame"


def op_set_axis(ctx):
    rng = ctx.rng
    n = len(ctx.df.columns)
    new = rng.sample(NAMES, n)
    return derived(ctx, lambda df: df.set_axis(new, axis=1), f"df.set_axis({new})", keeps_units=False)


def op_iloc_cols(ctx):
    rng = ctx.rng
    n = len(ctx.df.columns)
    idx = rng.sample(range(n), rng.randint(0, n))
    return derived(ctx, lambda df: df.iloc[:, idx], f"df.iloc[:,{idx}]")


OPS = {
    "add_column": (op_add_column, 8), "setitem": (lambda c: op_add_column(c, True), 6),
    "set_units": (op_set_units, 4), "set_all_units": (op_set_all_units, 2), "set_col_unit": (op_set_col_unit, 4),
    "rewrap": (op_rewrap, 4), "set_format": (op_set_format, 6), "set_strict": (op_set_strict, 3),
    "df_insert": (op_df_insert, 6), "df_del": (op_df_del, 4), "df_rename": (op_df_rename, 4),
    "df_setcols": (op_df_setcols, 3), "df_move": (op_df_move, 5), "df_sortcols": (op_df_sortcols_inplace, 2),
    "df_assign": (op_df_assign, 6), "df_astype": (op_df_astype, 4), "df_loc_append": (op_df_loc_append, 4),
    "df_drop_rows": (op_df_drop_rows, 2), "df_dropcols": (op_df_drop_cols_inplace, 2), "df_setcell": (op_df_setcell, 2),
    "df_fillna_inplace": (op_df_fillna_inplace, 1), "df_restore": (op_df_restore, 5), "df_del_all": (op_df_del_all, 2),
    "df_break_middle": (op_df_break_middle, 2),
    "sort_values": (op_sort_values, 3), "deepcopy": (op_deepcopy, 2), "pickle": (op_pickle, 2),
    "select": (op_select, 6), "copy": (op_copy, 3), "sort_index": (op_sort_index, 3), "reindex": (op_reindex, 4),
    "concat": (op_concat, 6), "merge": (op_merge, 5), "assign": (op_assign, 4), "drop": (op_drop, 3),
    "astype": (op_astype, 4), "fillna": (op_fillna, 2), "replace": (op_replace, 2), "rename": (op_rename, 3),
    "rows": (op_rows, 4), "set_axis": (op_set_axis, 2), "iloc_cols": (op_iloc_cols, 3),
}

C15_WEIGHTS = {
    "add_column": 8, "setitem": 8, "set_units": 5, "set_col_unit": 5, "set_all_units": 1, "rewrap": 6,
    "df_assign": 10, "df_astype": 10, "df_loc_append": 10, "df_drop_rows": 5, "df_setcell": 6, "df_fillna_inplace": 3,
    "df_insert": 3, "df_del": 2, "df_rename": 1, "df_move": 1, "df_restore": 6, "df_setcols": 2, "df_del_all": 1, "set_format": 1, "set_strict": 6, "pickle": 3, "deepcopy": 2, "copy": 5, "astype": 8, "fillna": 6, "replace": 5,
    "rows": 6, "concat": 4, "merge": 2, "assign": 3, "select": 2, "reindex": 2,
}


# --------------------------------------------------------------------------- probes + oracles

def probe(ctx, writers):
    """consult the real table the way a user would; send the same consultations to the model; evaluate the oracle"""
    from pdtable import Table
    out = ctx.out
    df = ctx.df
    info = ctx.info
    cur_names = set(df.columns)
    ctx.assigned = {k: v for k, v in ctx.assigned.items() if k in cur_names}
    ctx.assigned_fmt = {k: v for k, v in ctx.assigned_fmt.items() if k in cur_names}
    ctx.send("peek", None)
    t = Table(df)
    names = list(df.columns)
    lookups = []

    def do_lookups():
        uniq = list(dict.fromkeys(names))
        if len(uniq) > 40:
            # wide table: the facade lookup `table[name]` (also sent to the model) for both ends and the middle; the
            # remaining columns are looked up by name in `column_metadata` below (same register, one consultation)
            m = len(uniq) // 2
            facade = list(dict.fromkeys(uniq[:4] + uniq[m - 4:m + 4] + uniq[-4:]))
        else:
            facade = uniq
        for n in facade + ([ctx.rng.choice(NAMES)] if ctx.rng.chance(0.3) else []):
            try:
                u = quiet(lambda: t[n].unit)
            except Exception as e:
                u = exc_name(e)
            lookups.append((n, u))
            ctx.send("get", u, name=n)
        if len(facade) < len(uniq):
            try:
                cm = quiet(lambda: t.column_metadata)
                done = set(facade)
                for n in uniq:
                    if n not in done:
                        lookups.append((n, cm[n].unit if n in cm else {"exc": "KeyError"}))
            except Exception:
                pass

    lookups_first = ctx.rng.chance(0.25)      # the first consultation after an operation is not always `units`
    first_kind, first_ok, first_units = None, False, None
    if lookups_first:
        ctx.rot = getattr(ctx, "rot", 0) + 1
        first_kind = ["lookup", "iter", "metadata", "proxies"][ctx.rot % 4]
        if first_kind == "proxies" and (df.empty or len(set(names)) != len(names)):
            first_kind = "lookup"
        out.count("probe:first_consultation:" + first_kind)
        if first_kind == "lookup":
            do_lookups()
            got = dict(lookups)
            first_ok = bool(names) and all(isinstance(got.get(n), str) for n in names)
            first_units = [got.get(n) for n in names] if first_ok else None
        else:
            try:
                if first_kind == "iter":
                    pairs = [[c.name, c.unit] for c in quiet(lambda: list(t))]
                elif first_kind == "metadata":
                    pairs = [[k, v.unit] for k, v in quiet(lambda: t.column_metadata).items()]
                else:
                    pairs = [[c.name, c.unit] for c in quiet(lambda: t.column_proxies)]
                first_ok, first_units = True, [p[1] for p in pairs]
                ctx.send("units", first_units) if first_kind == "proxies" else ctx.send("iter", pairs)
            except Exception as e:
                ctx.send("units" if first_kind == "proxies" else "iter", exc_name(e))
    try:
        units = list(quiet(lambda: t.units))
        ures = units
    except Exception as e:
        units, ures = None, exc_name(e)
    ctx.send("units", ures)
    if first_ok and units is None and ures["exc"] in REFUSALS:
        _fail(ctx, f"a read of the table ({first_kind}) reported its columns although the table is refused when its units "
                   "are read right afterwards: that accessor did not validate",
              {"accessor": first_kind, "reported": first_units, "then": ures}, "the same refusal from every accessor",
              ctx.prop + ":accessor-read-unvalidated:" + first_kind)
    if first_ok and units is not None and first_kind != "lookup" and not df.empty and first_units != units:
        _fail(ctx, f"{first_kind} reports other units than Table.units", {"accessor": first_units, "units": units},
              "the same units", "C04:accessor-disagrees:" + first_kind)
    if units is not None and ctx.cur.facade is not None:
        try:
            kept = list(quiet(lambda: ctx.cur.facade.units))
            kept_names = list(ctx.cur.facade.column_names)
        except Exception as e:
            kept, kept_names = exc_name(e), None
        if kept != units or kept_names != names:
            _fail(ctx, "a Table facade kept since the frame was made reports other columns / units than a fresh facade",
                  {"kept": kept, "kept_names": kept_names}, {"units": units, "names": names}, "C04:long-lived-facade")
    if units is not None:
        import pandas as pd
        ctx.snap = pd.DataFrame(df).copy()       # plain copy of the frame as last consulted successfully
    if units is None and ctx.tainted:
        ctx.revalidated = True                   # the consultation raised: the library validated (and refused)
    if units is not None and ctx.tainted and ctx.revalidated:
        # after the excluded relabelling the library has, visibly, validated again (add_column asked for it, or a
        # consultation raised, or the table was re-wrapped / derived): the guarantee is back.  Nothing is assumed
        # about *what* the library remembers between consultations.
        ctx.tainted = False
        ctx.out.count("c15_taint_cleared")
    if not lookups_first:
        do_lookups()
    elif units is not None:
        # lookups made before the unit list may have hit a table that the lookup itself refused; redo after success
        lookups.clear()
        do_lookups()
    try:
        it = [[c.name, c.unit] for c in quiet(lambda: list(t))]
    except Exception as e:
        it = exc_name(e)
    ctx.send("iter", it)
    if units is not None:
        now = (ctx.look(), dict(zip(names, units)) if len(set(names)) == len(names) and len(names) == len(units) else None)
        seen = ctx.seen
        if ctx.refused and ctx.ops_since == 1 and seen is not None and seen[0] == now[0] and seen[1] is not None \
                and now[1] is not None and seen[1] != now[1]:
            _fail(ctx, "an operation that pandas refused (nothing was assigned) changed the units the table reports",
                  {"before": seen[1], "after": now[1]}, "the table as it was before the refused operation",
                  ctx.prop + ":refused-operation-changed-table")
        ctx.seen = now
        ctx.ops_since = 0
    ctx.refused = False
    extra = {}
    if units is not None:
        try:
            extra["proxies"] = [[c.name, c.unit] for c in quiet(lambda: t.column_proxies)]
        except Exception as e:
            extra["proxies"] = exc_name(e)
        try:
            extra["annotated"] = list(quiet(t.as_dataframe_with_annotated_column_names).columns)
        except Exception as e:
            extra["annotated"] = exc_name(e)
    ctx.extra = extra
    wr = None
    if writers:
        wr = run_writers(ctx, t)
    if ctx.prop == "C04":
        oracle_c04(ctx, t, units, ures, lookups, it, wr)
    if ctx.prop == "C15":
        oracle_c15(ctx, t, units)
    ctx.expect_default = {}
    out.count("consult:" + ("ok" if units is not None else ures["exc"]))
    if units is not None:
        out.count("frame:" + ("empty" if df.empty else "rows"))


_TMP = {"dir": None}
ILLEGAL_XLSX = re.compile(r"[\x00-\x08\x0b\x0c\x0e-\x1f]")
WRITERS = ("csv", "csv_t", "xlsx", "json")


def writer_reasons(t, df, names, own):
    """oracle-side: for which writers is this readable table something the writer has to handle, and if not, why.
    Judged from the data and the units/formats, never from what a writer raised.  {writer: reason or None}"""
    import pandas as pd
    reasons = {"csv": None, "xlsx": None, "json": None}
    try:
        cm = t.column_metadata
    except Exception:
        cm = {}
    for w in ("xlsx",):
        if ILLEGAL_XLSX.search(str(t.name)):
            reasons[w] = "control character Excel cannot hold"
    for j, (n, dt) in enumerate(zip(df.columns, df.dtypes)):
        u = own[j] if j < len(own) else None
        f = cm[n].display_format if n in cm else None
        kind = dt.kind
        if u == "datetime" and kind != "M":
            reasons["csv"] = reasons["csv"] or "unit 'datetime' on data that are not datetimes"
            reasons["xlsx"] = reasons["xlsx"] or "unit 'datetime' on data that are not datetimes"
        if f is not None and (kind not in "fiub" or u in ("text", "datetime")):
            reasons["csv"] = reasons["csv"] or "numeric display format on a column that does not hold plain numbers"
        if ILLEGAL_XLSX.search(str(n)) or (isinstance(u, str) and ILLEGAL_XLSX.search(u)):
            reasons["xlsx"] = reasons["xlsx"] or "control character Excel cannot hold"
        sdt = str(dt)
        exotic = kind in "cm" or sdt.startswith("period") or sdt.startswith("interval")
        if exotic:
            reasons["json"] = reasons["json"] or "value type JSON has no form for (" + sdt.split("[")[0] + ")"
        if kind == "c" or sdt.startswith("period") or getattr(dt, "tz", None) is not None:
            reasons["xlsx"] = reasons["xlsx"] or "value type Excel cannot hold (" + sdt.split("[")[0].split(",")[0] + ")"
        vals = df.iloc[:, j].tolist() if (kind == "O" or u == "text") else []
        if u == "text" and any(v is pd.NA for v in vals):
            # finding (value level, not C04's): `_represent_row_elements` evaluates `val == ""` on pd.NA -> TypeError
            why = "pd.NA in a 'text' column (write_csv / write_excel raise TypeError: separate finding)"
            reasons["csv"] = reasons["csv"] or why
            reasons["xlsx"] = reasons["xlsx"] or why
        if kind == "O":
            for v in vals:
                if isinstance(v, str) and ILLEGAL_XLSX.search(v):
                    reasons["xlsx"] = reasons["xlsx"] or "control character Excel cannot hold"
                elif isinstance(v, (pd.Period, pd.Interval, complex)):
                    reasons["json"] = reasons["json"] or "value type JSON has no form for (" + type(v).__name__ + ")"
                    reasons["xlsx"] = reasons["xlsx"] or "value type Excel cannot hold (" + type(v).__name__ + ")"
                elif isinstance(v, pd.Timedelta):
                    reasons["json"] = reasons["json"] or "value type JSON has no form for (Timedelta)"
                elif isinstance(v, pd.Timestamp) and v.tzinfo is not None:
                    reasons["xlsx"] = reasons["xlsx"] or "value type Excel cannot hold (tz-aware datetime)"
    return reasons


def wexc(e):
    """a writer's exception: class (compared) and message (diagnostics only)"""
    return {"exc": type(e).__name__, "msg": str(e)[:160]}


def run_writers(ctx, t):
    """names / units / values as they appear in what the three public writers produce: `write_csv` text (both
    orientations, a separator drawn per probe, given as argument or as package default), `table_to_json_data`, and
    `write_excel` (to a stream or a path, one orientation per probe) read back with openpyxl"""
    import os
    import openpyxl
    from pdtable import write_csv, write_excel
    from pdtable.io.json import table_to_json_data
    import pdtable
    res = {}
    sep = ctx.rng.choice([";", ";", ",", "\t", "|"])
    explicit = ctx.rng.chance(0.5)
    ctx.out.count("csv_sep:" + repr(sep) + (":arg" if explicit else ":default"))
    old_default = pdtable.CSV_SEP
    ncol = len(t.df.columns)

    def write(tab):
        s = io.StringIO()
        if explicit:
            quiet(write_csv, tab, s, sep=sep)
        else:
            quiet(write_csv, tab, s)
        return s.getvalue().split("\n")

    def excel_rows(tab):
        to_path = ctx.rng.chance(0.4)           # drawn whether or not a scratch directory exists (replays have none)
        if to_path and _TMP["dir"] is not None:
            path = os.path.join(_TMP["dir"], "probe.xlsx")
            quiet(write_excel, tab, path)
            src = path
        else:
            src = io.BytesIO()
            quiet(write_excel, tab, src)
            src.seek(0)
        wb = openpyxl.load_workbook(src, read_only=True)
        try:
            return [list(r) for r in wb.worksheets[0].iter_rows(values_only=True)]
        finally:
            wb.close()

    do_xlsx = ctx.rng.chance(0.3)
    xlsx_transposed = ctx.rng.chance(0.5)
    res["sep"] = sep
    try:
        if not explicit:
            pdtable.CSV_SEP = sep
        try:
            lines = write(t)
            res["csv"] = {"names": lines[2].split(sep), "units": lines[3].split(sep),
                          "rows": [ln.split(sep) for ln in lines[4:] if ln != ""], "head": lines[0]}
        except Exception as e:
            res["csv"] = wexc(e)
        if do_xlsx and not xlsx_transposed:
            try:
                rows = excel_rows(t)
                res["xlsx"] = {"names": [c for c in (rows[2] if len(rows) > 2 else []) if c is not None][:max(ncol, 0)] if ncol else
                               [c for r in rows[2:] for c in r if c is not None],
                               "units": [c for c in (rows[3] if len(rows) > 3 else [])][:ncol] if ncol else []}
            except Exception as e:
                res["xlsx"] = wexc(e)
        meta = None
        try:
            meta = quiet(lambda: t.metadata)
        except Exception as e:
            res["csv_t"] = wexc(e)
        if meta is not None:
            was = meta.transposed
            meta.transposed = True
            try:
                try:
                    lines = write(t)
                    res["csv_t"] = {"cols": [ln.split(sep) for ln in lines[2:2 + ncol]], "head": lines[0]}
                except Exception as e:
                    res["csv_t"] = wexc(e)
                if do_xlsx and xlsx_transposed:
                    try:
                        rows = excel_rows(t)
                        res["xlsx_t"] = {"cols": [[r[0], r[1]] for r in rows[2:2 + ncol]]}
                    except Exception as e:
                        res["xlsx_t"] = wexc(e)
            finally:
                meta.transposed = was
    finally:
        pdtable.CSV_SEP = old_default
    try:
        jd = quiet(table_to_json_data, t)
        res["json"] = [[k, v["unit"]] for k, v in jd["columns"].items()]
    except Exception as e:
        res["json"] = wexc(e)
    # model side: header + json pairing
    try:
        fmts = [None if c.display_format is None else str(c.display_format.specifier)
                for c in t.column_metadata.values()]
        hdr = {"names": list(t.column_names), "units": list(t.units), "fmts": fmts}
    except Exception as e:
        hdr = exc_name(e)
    ctx.send("header", hdr)
    js = res["json"]
    if isinstance(js, dict) and js["exc"] not in REFUSALS + ("IndexError", "KeyError"):
        pass                                    # judged by the oracle (writer_reasons); nothing the model speaks about
    elif len(t.df) < 1 or t.df.empty:
        # outside the statement (no rows): units may be fewer than columns there, and whether the JSON writer then
        # raises IndexError or stops early is an implementation detail that is not compared
        ctx.out.count("json_not_compared:table without rows")
    else:
        ctx.send("json", {"exc": js["exc"]} if isinstance(js, dict) else js)
    return res


def _judge_writer(ctx, writer, result, reason, df, t):
    """a writer probe either produced output (-> pairing is checked by the caller, returns True) or raised: that is a
    failure unless the oracle-side reason says this table is outside what the writer handles"""
    out = ctx.out
    out.count("writer_probe:" + writer)
    if "exc" not in result:
        out.count("writer_judged:" + writer)
        return True
    if reason is not None:
        out.count(f"{writer}_not_judged:{reason}")
        return False
    key = f"writer_raised:{writer}:{result['exc']}"
    if writer.startswith("csv") and result["exc"] == "ValueError":
        try:
            cm = t.column_metadata
            if any(cm[n].display_format is not None and df[n].isna().any() for n in df.columns if n in cm):
                key = "display_format_applied_to_na_rep"
        except Exception:
            pass
    _fail(ctx, f"{writer} writer raised on a readable table it has to handle", result,
          "the table written", key)
    return False


KNOWN_KINDS = "biufMOSU"


def unit_fits(u, kind):
    """the statement's rule (C15): 'text' exactly on string/object kinds, 'onoff' exactly on the boolean kind"""
    return (u == "text") == (kind in "OSU") and (u == "onoff") == (kind == "b")


def refusal_unjustified(ctx, exc, names, df):
    """oracle-side: is there, in what the history did, any ground for refusing this table?  Judged from the labels,
    the dtype kinds and the units the history gave / the table reported earlier (`ctx.assigned`); None when the
    refusal is justified or cannot be judged"""
    kinds = [dt.kind for dt in df.dtypes]
    if len(df) < 1 or df.empty:
        return None
    if exc == "InvalidNamingError":
        return None if len(set(names)) != len(names) else "no duplicated column label"
    if len(set(names)) != len(names):
        return None
    if exc == "ValueError":
        return None if any(k not in KNOWN_KINDS for k in kinds) else "every column has a dtype kind with a StarTable unit"
    if exc == "ColumnUnitException":
        if any(k not in KNOWN_KINDS for k in kinds):
            return None
        if not bool(ctx.info.metadata.strict_types):
            return "the table is not strict-typed"
        for n, k in zip(names, kinds):
            if n not in ctx.assigned:
                return None                      # a column whose unit the history does not know: not judged
            if not unit_fits(ctx.assigned[n], k):
                return None
        return "every column's own unit fits the kind of its data"
    return None


def check_default_units(ctx, names, units, df):
    """columns created without an explicit unit get 'onoff' / 'text' / '-' by the kind of their data"""
    if df.empty or len(df) < 1 or len(units) != len(names) or ctx.tainted:
        return
    for n, u, dt in zip(names, units, df.dtypes):
        if ctx.expect_default.get(n) and u != default_unit(dt.kind):
            return _fail(ctx, "column created without an explicit unit did not get the unit of its data type",
                         {"column": n, "unit": u, "kind": dt.kind, "dtype": str(dt)}, default_unit(dt.kind),
                         ctx.prop + ":default-unit")


def oracle_c04(ctx, t, units, ures, lookups, it, wr):
    out, df, case = ctx.out, ctx.df, ctx.case
    names = list(df.columns)
    if units is None:
        if ures["exc"] not in REFUSALS:
            _fail(ctx, "consultation crashed instead of reporting units or refusing the table", ures, "units or a refusal",
                  "C04:consult-crash:" + ures["exc"])
        else:
            why = refusal_unjustified(ctx, ures["exc"], names, df)
            if why is not None:
                _fail(ctx, "the consultation refused a table the history made legitimately: " + why,
                      {"exc": ures["exc"], "columns": names, "kinds": [dt.kind for dt in df.dtypes],
                       "own_units": [ctx.assigned.get(n) for n in names]}, "one unit per column",
                      "C04:refused-legitimate-table:" + ures["exc"])
        return
    check_default_units(ctx, names, units, df)
    if ctx.failed:
        return
    if len(df) < 1:
        return                                   # statement: tables with at least one row
    # a frame that has rows but has lost all its columns is inside the statement: zero columns, zero units
    if len(units) != len(names):
        return _fail(ctx, "number of units differs from number of dataframe columns",
                     {"columns": names, "units": units}, "one unit per column", "C04:unit-count")
    if t.column_names != names:
        return _fail(ctx, "column_names differs from df.columns", t.column_names, names, "C04:column-names")
    by_name = dict(lookups)
    for j, n in enumerate(names):
        u = by_name.get(n)
        if isinstance(u, dict):
            return _fail(ctx, f"per-column lookup of {n!r} failed on a readable table", u, units[j], "C04:lookup-fails")
        if u != units[j]:
            return _fail(ctx, "positional unit list disagrees with per-column lookup (dataframe column order)",
                         {"columns": names, "units": units, "lookup": [by_name.get(x) for x in names]},
                         "units[j] == table[columns[j]].unit", "C04:positional-vs-lookup")
    for n in names:
        if n in ctx.assigned and by_name.get(n) != ctx.assigned[n]:
            return _fail(ctx, "a column does not carry the unit that was given for it",
                         {"column": n, "unit": by_name.get(n), "columns": names, "units": units}, ctx.assigned[n],
                         "C04:own-unit")
    if ctx.assigned_fmt:
        cm_now = t.column_metadata
        for n in names:
            if n in ctx.assigned_fmt and n in cm_now:
                f_now = cm_now[n].display_format
                spec_now = None if f_now is None else str(f_now.specifier)
                if spec_now != ctx.assigned_fmt[n]:
                    return _fail(ctx, "a column does not carry the display format that was given for it",
                                 {"column": n, "display_format": spec_now}, ctx.assigned_fmt[n], "C04:own-format")
    if len(set(names)) == len(names):
        for n, u in zip(names, units):
            if n not in ctx.assigned and isinstance(by_name.get(n), str):
                ctx.assigned[n] = u          # first report of this column's unit: from now on its own unit
    extra = getattr(ctx, "extra", {})
    if "proxies" in extra and len(set(names)) == len(names):
        want = [[n, u] for n, u in zip(names, units)]
        if extra["proxies"] != want:
            return _fail(ctx, "Table.column_proxies does not give the dataframe columns with their own units",
                         extra["proxies"], want, "C04:column-proxies")
        want = [f"{n} [{u}]" for n, u in zip(names, units)]
        ann = extra["annotated"]
        if isinstance(ann, dict) and ann.get("exc") in REFUSALS:
            out.count("annotated_refused:" + ann["exc"])      # it works on a copy: a fresh validation may refuse it
        elif ann != want:
            return _fail(ctx, "as_dataframe_with_annotated_column_names pairs names with other columns' units",
                         extra["annotated"], want, "C04:annotated-names")
    if isinstance(it, dict) or [p[0] for p in it] != names or [p[1] for p in it] != units:
        return _fail(ctx, "iterating the table does not give the dataframe columns with their units", it,
                     [[n, u] for n, u in zip(names, units)], "C04:iteration")
    if wr is None:
        return
    own = [by_name[n] for n in names]
    reasons = writer_reasons(t, df, names, own)
    csv = wr["csv"]
    if _judge_writer(ctx, "csv", csv, reasons["csv"], df, t):
        if csv["head"] != "**" + t.name + wr["sep"]:
            return _fail(ctx, "write_csv does not use the separator it was given", csv["head"], "**" + t.name + wr["sep"],
                         "C04:csv-separator")
        if not names and (csv["names"] != [""] or csv["units"] != [""]):
            return _fail(ctx, "write_csv emits names or units for a table without columns",
                         {"names": csv["names"], "units": csv["units"]}, {"names": [""], "units": [""]}, "C04:csv-pairing")
        if names and (csv["names"] != [str(n) for n in names] or csv["units"] != own):
            return _fail(ctx, "write_csv pairs column names with other columns' units",
                         {"names": csv["names"], "units": csv["units"]}, {"names": names, "units": own}, "C04:csv-pairing")
        if names and all(len(r) == len(names) for r in csv["rows"]) and len(csv["rows"]) == len(df):
            written = {n: (csv["units"][j], [r[j] for r in csv["rows"]]) for j, n in enumerate(names)}
            if _check_written_columns(ctx, t, names, own, written, "write_csv"):
                return
    if ctx.failed:
        return
    csv_t = wr.get("csv_t")
    if csv_t is not None and _judge_writer(ctx, "csv_t", csv_t, reasons["csv"], df, t) and names:
        cols = csv_t["cols"]
        if csv_t["head"] != "**" + t.name + "*" + wr["sep"]:
            return _fail(ctx, "write_csv (transposed) does not use the separator it was given", csv_t["head"],
                         "**" + t.name + "*" + wr["sep"], "C04:csv-separator")
        if [c[0] for c in cols] != [str(n) for n in names]:
            return _fail(ctx, "write_csv (transposed) does not write one line per dataframe column in column order",
                         [c[0] for c in cols], names, "C04:csv-transposed-columns")
        if any(len(c) < 2 for c in cols):
            return _fail(ctx, "write_csv (transposed) does not separate column name and unit with the separator",
                         cols, [[str(n), u] for n, u in zip(names, own)], "C04:csv-pairing")
        if all(len(c) == 2 + len(df) for c in cols):
            written = {n: (c[1], c[2:]) for n, c in zip(names, cols)}
            if _check_written_columns(ctx, t, names, own, written, "write_csv (transposed)"):
                return
    if ctx.failed:
        return
    xl_t = wr.get("xlsx_t")
    if xl_t is not None and _judge_writer(ctx, "xlsx", xl_t, reasons["xlsx"], df, t) and names:
        if xl_t["cols"] != [[str(n), u] for n, u in zip(names, own)]:
            return _fail(ctx, "write_excel (transposed) does not write one line per dataframe column with its own unit",
                         xl_t["cols"], [[str(n), u] for n, u in zip(names, own)], "C04:xlsx-pairing")
    xl = wr.get("xlsx")
    if xl is not None and _judge_writer(ctx, "xlsx", xl, reasons["xlsx"], df, t):
        if not names and (xl["names"] or xl["units"]):
            return _fail(ctx, "write_excel has name or unit cells for a table without columns", xl,
                         {"names": [], "units": []}, "C04:xlsx-pairing")
        if names and (list(xl["names"]) != names or list(xl["units"]) != own):
            return _fail(ctx, "write_excel pairs column names with other columns' units", xl,
                         {"names": names, "units": own}, "C04:xlsx-pairing")
    if ctx.failed:
        return
    js = wr["json"]
    if isinstance(js, dict) and js["exc"] in ("IndexError", "KeyError") and reasons["json"] is None:
        return _fail(ctx, "table_to_json_data runs out of units / columns on a readable table", js, "JsonData",
                     "C04:json-crash:" + js["exc"])
    if _judge_writer(ctx, "json", js if isinstance(js, dict) else {}, reasons["json"], df, t):
        if js != [[n, u] for n, u in zip(names, own)]:
            return _fail(ctx, "table_to_json_data pairs column names with other columns' units", js,
                         [[n, u] for n, u in zip(names, own)], "C04:json-pairing")


def _check_written_columns(ctx, t, names, own, written, label):
    """every column of the written text carries that column's own unit, and its numbers are rendered with that
    column's own display format (Python's format() of the stored values; str() when the column has none)"""
    df = ctx.df
    cm = t.column_metadata
    for j, n in enumerate(names):
        unit, cells = written[n]
        if unit != own[j]:
            _fail(ctx, f"{label} pairs a column name with another column's unit", {"column": n, "unit": unit}, own[j],
                  "C04:csv-pairing")
            return True
        col = df[n]
        if str(col.dtype) not in ("float64", "int64") or own[j] in ("text", "onoff", "datetime"):
            continue
        impl_spec = None if cm[n].display_format is None else str(cm[n].display_format.specifier)
        if n in ctx.assigned_fmt:
            spec = ctx.assigned_fmt[n]        # what the history gave this column, independent of the register
            ctx.out.count("fmt_expected:tracked")
            if impl_spec != spec:
                _fail(ctx, "a column does not carry the display format that was given for it",
                      {"column": n, "display_format": impl_spec}, spec, "C04:own-format")
                return True
        else:
            ctx.out.count("fmt_not_judged:history lost track of this column's format")
            continue
        for x, cell in zip(col.tolist(), cells):
            if x != x:
                exp = "-"                     # a missing value is written as the na_rep, whatever the display format
            else:
                exp = ("{:" + spec + "}").format(x) if spec is not None else str(x)
            if cell != exp:
                _fail(ctx, f"{label} does not render a column with that column's own display format",
                      {"column": n, "display_format": spec, "cell": cell,
                       "formats": {k: (None if v.display_format is None else v.display_format.specifier) for k, v in cm.items()}},
                      exp, "C04:csv-format")
                return True
    return False


def oracle_c15(ctx, t, units):
    df = ctx.df
    if units is None or df.empty or len(df) < 1:
        return
    strict = ctx.info.metadata.strict_types
    names = list(df.columns)
    kinds = [dt.kind for dt in df.dtypes]
    if len(units) == len(names):
        for n, u, k in zip(names, units, kinds):
            if ctx.expect_default.get(n) and u != default_unit(k) and not ctx.tainted:
                return _fail(ctx, "column created without an explicit unit did not get the unit of its data type",
                             {"column": n, "unit": u, "kind": k}, default_unit(k), "C15:default-unit")
    if not strict or ctx.tainted:
        ctx.out.count("c15_not_claimed:" + ("nonstrict" if not strict else "relabelled"))
        return
    if len(units) != len(names):
        return _fail(ctx, "readable strict table with a column that has no unit at all (cannot be 'text'/'onoff'-consistent)",
                     {"columns": names, "units": units, "kinds": kinds}, "one unit per column", "C15:unit-count")
    for n, u, k in zip(names, units, kinds):
        if (u == "text") != (k in "OSU") or (u == "onoff") != (k == "b"):
            return _fail(ctx, "readable strict table whose special unit does not match the data type",
                         {"columns": names, "units": units, "kinds": kinds}, "text<->O/S/U, onoff<->b",
                         "C15:special-unit-mismatch")
    ctx.out.count("c15_checked")


def _fail(ctx, what, observed, expected, key):
    if not ctx.failed:
        ctx.failed = True
        case = dict(ctx.case)
        if isinstance(ctx.rng, RecRng):
            # everything needed to re-run exactly this history, wherever it came from
            case["recipe"] = dict(getattr(ctx, "recipe", {}), draws=list(ctx.rng.log))
        ctx.out.fail(what, case, observed, expected, key=key)


def probe_siblings(ctx, limit=3):
    """consult the other live tables of the history (the ones the current table was copied / selected / re-wrapped
    from): an operation on one table must leave every other table readable-and-consistent or refused, with its own
    units.  Same consultations go to the model, where every table has its own register."""
    cur = ctx.cur
    others = [ts for ts in ctx.tables if ts is not cur][-limit:]
    try:
        for ts in others:
            ctx.cur = ts
            ctx.out.count("sibling_consulted")
            probe(ctx, writers=(ctx.rng.chance(0.25)))
    finally:
        ctx.cur = cur


# --------------------------------------------------------------------------- history drivers

def run_history(out, prop, seed, stream, index, depth, weights=None, plan=None, script=None, draws=None):
    """one history; returns (model op, expectations, case, ctx) — model op is None when construction is outside the domain.
    `draws`: replay a recorded history (the random source hands back exactly these values)"""
    rng = ReplayRng(draws) if draws is not None else RecRng(make_rng(seed, f"{prop}:{stream}:{index}"))
    case = {"seed": seed, "stream": stream, "index": index, "ops": []}
    ctx = Ctx(out, prop, rng, case)
    ctx.recipe = {"depth": depth, "plan": None if plan is None else list(plan), "script": script,
                  "weights": "C15" if weights is C15_WEIGHTS else None}
    try:
        init, desc, res = init_table(ctx, plan)
    except Abort:
        return None
    case["init"] = desc
    out.count("init:" + desc["mode"] + ("" if res is None else ":" + res["exc"]))
    if res is not None:
        # construction refused: compare the refusal with the model, nothing else to do
        if res["exc"] not in REFUSALS + ("Exception",):
            out.fail("Table construction crashed", case, res, "a table or a refusal", key=f"{prop}:ctor-crash:" + res["exc"])
        return {"op": "meta_hist", "init": init, "steps": []}, {"init": res, "steps": []}, case, ctx
    init_expect = {"res": None, "reg": reg_snapshot(ctx.info), "strict": bool(ctx.info.metadata.strict_types)}
    init_expect.update(state_fields(ctx.info, out))
    names = list(weights or {k: w for k, (f, w) in OPS.items()})
    wts = [(weights or {k: w for k, (f, w) in OPS.items()})[k] for k in names]
    try:
        probe(ctx, writers=True)
        steps = script if script is not None else [None] * depth
        for s in steps:
            k = s if s is not None else rng.choices(names, wts)[0]
            skip = k.endswith("!") or (s is None and rng.chance(0.25))
            k = k.rstrip("!")
            ctx.ops_since += 1
            d = OPS[k][0](ctx)
            out.count("op:" + k)
            cur_names = set(ctx.df.columns)
            ctx.assigned = {n: u for n, u in ctx.assigned.items() if n in cur_names}   # units of columns that left are forgotten
            ctx.assigned_fmt = {n: u for n, u in ctx.assigned_fmt.items() if n in cur_names}
            if ctx.df.empty or len(ctx.df) < 1:
                ctx.assigned = {}     # the statement is about tables with at least one row: nothing is tracked through empty states
                ctx.assigned_fmt = {}
            if skip:
                # no consultation between this operation and the next one
                case["ops"].append(d + "  [not consulted]")
                ctx.expect_default = {}
                out.count("probe_skipped")
            else:
                case["ops"].append(d)
                probe(ctx, writers=(rng.chance(0.4)))
                probe_siblings(ctx)
    except Abort as a:
        out.count("cut:" + str(a))
        case["ops"].append("CUT: " + str(a))
        # steps and expectations are appended in lock-step, keep what we have
        n = min(len(ctx.steps), len(ctx.expect))
        ctx.steps, ctx.expect = ctx.steps[:n], ctx.expect[:n]
    return ({"op": "meta_hist", "init": init, "steps": ctx.steps},
            {"init": init_expect, "steps": ctx.expect}, case, ctx)


def function_level(out, rng, n):
    """unit_from_dtype / check_dtype on every (unit, kind) pair; _update_columns on random registers x frames"""
    import pandas as pd
    from pdtable.table_metadata import (ColumnMetadata, ComplementaryTableInfo, TableMetadata, unit_from_dtype)
    if not hasattr(rng, "chance"):
        rng = RecRng(rng)           # the value generators use `chance`; a plain random.Random does not have it
    ops, pend = [], []
    kinds = ["b", "i", "u", "f", "M", "O", "S", "U", "m", "c", "V", "T", "", "OO", "B", "F"]
    import numpy as np
    real = {"b": np.dtype(bool), "i": np.dtype("int64"), "u": np.dtype("uint64"), "f": np.dtype("float64"),
            "M": np.dtype("datetime64[ns]"), "O": np.dtype(object), "S": np.dtype("S1"), "U": np.dtype("U1"),
            "m": np.dtype("timedelta64[ns]"), "c": np.dtype("complex128"), "V": np.dtype("V1")}

    class KindOnly:
        """hashable stand-in for a dtype of a kind numpy has no dtype for (only `.kind` means anything)"""

        def __init__(self, kind):
            self.kind, self.name, self.type = kind, "kind-" + kind, object

        def __hash__(self):
            return hash(("KindOnly", self.kind))

        def __eq__(self, other):
            return isinstance(other, KindOnly) and other.kind == self.kind

        def __repr__(self):
            return f"KindOnly({self.kind!r})"

    for k in kinds:
        dt = real.get(k) or KindOnly(k)
        try:
            r = unit_from_dtype(dt)
        except Exception as e:
            r = exc_name(e)
        ops.append({"op": "meta_unit_from_kind", "kind": k})
        pend.append(("unit_from_dtype", {"kind": k}, r))
        for u in PHYS + SPECIAL + ["", "Text"]:
            try:
                ColumnMetadata(u).check_dtype(dt, "col")
                r = None
            except Exception as e:
                r = exc_name(e)
            ops.append({"op": "meta_check_dtype", "unit": u, "kind": k})
            pend.append(("check_dtype", {"unit": u, "kind": k}, r))
    out.count("fn:check_dtype", len(kinds) * (len(PHYS) + 4))
    obs = Observer(out)
    for i in range(n):
        ncol = rng.randint(0, 4)
        names = [rng.choice(NAMES[:5]) for _ in range(ncol)] if rng.chance(0.15) else rng.sample(NAMES[:6], ncol)
        nrow = rng.choice([0, 1, 2])
        cols = [make_values(rng, rng.choice(KINDS), nrow) for _ in range(ncol)]
        df = pd.DataFrame({j: v for j, v in enumerate(cols)})
        df.columns = names
        reg_names = rng.sample(NAMES[:6], rng.randint(0, 5))
        reg = {nm: ColumnMetadata(rng.choice(PHYS + SPECIAL + SPECIAL)) for nm in reg_names}
        strict = rng.chance(0.75)
        info = ComplementaryTableInfo(TableMetadata(name="x", strict_types=strict), columns=reg)
        before = reg_snapshot(info)
        try:
            with warnings.catch_warnings():
                warnings.simplefilter("ignore")
                info._update_columns(df)
            res = None
        except Exception as e:
            res = exc_name(e)
        ops.append({"op": "meta_update_columns", "reg": before, "frame": obs.frame(df), "strict": strict})
        pend.append(("_update_columns", {"reg": before, "names": names, "strict": strict, "nrow": nrow},
                     {"reg": reg_snapshot(info), "res": res}))
        out.count("fn:_update_columns:" + ("ok" if res is None else res["exc"]))
    return ops, pend


SCRIPT_ALPHABET = ["add_column", "setitem", "set_col_unit", "df_insert", "df_del", "df_rename", "df_move",
                   "df_assign", "df_astype", "df_loc_append", "df_drop_rows", "select", "copy", "sort_index",
                   "reindex", "concat", "merge", "assign", "drop", "astype", "rows", "rewrap", "df_del_all", "set_format", "set_strict", "sort_values", "pickle"]
EX_PLAN = (["a", "b", "c"], ["f", "s", "b"], 2, "good", True)
# second enumeration, aimed at the remembered-state short cut: emptiness transitions around type-changing edits
E_ALPHABET = ["df_drop_rows", "df_loc_append", "df_insert!", "df_assign!", "setitem!", "add_column!", "df_astype",
              "df_restore", "df_setcols!"]
E_PLANS = [(["a", "b"], ["f", "s"], 1, "good", True), (["a", "b"], ["f", "s"], 0, "wrong", True)]


# size ladder for the number of columns: around pandas' repr / display thresholds and one much larger table
WIDTHS_QUICK = [61, 64, 90, 300, 600]
WIDTHS_THOROUGH = [60, 61, 63, 64, 65, 90, 127, 129, 257, 300, 1025]
WIDE_SCRIPTS = [("df_break_middle",), ("set_format", "df_break_middle"), ("df_move", "df_break_middle", "df_restore"),
                ("copy", "df_break_middle")]


def wide_plan(width):
    kinds = ["f", "s", "b", "i", "s", "f", "b"]
    return (["c%04d" % j for j in range(width)], [kinds[j % len(kinds)] for j in range(width)], 2, "good", True)


SAME_PLANS = [(["a", "b", "c"], ["f", "f", "s"], 2, "none", True), (["a", "b", "c", "d"], ["s", "i", "s", "i"], 1, "map", False)]
SAME_ALPHABET = ["set_col_unit", "set_units", "add_column", "set_format", "setitem", "df_insert!"]


def scripts_of(alphabet, depth):
    res = [()]
    for d in range(1, depth + 1):
        res += list(itertools.product(alphabet, repeat=d))
    return res


def label_cases(out, seed):
    """column labels that are not strings (ints, floats, tuples, labels equal as text but different as objects):
    oracle only — the model speaks about string labels.  One unit per column, in column order, by lookup."""
    import pandas as pd
    from pdtable import Table
    cases = [[0, 1], [1, "1"], [(0, "a"), (0, "b")], [1.5, 2, "x"], [True, "True", 7]]
    for labels in cases:
        df = pd.DataFrame({i: [1.0 + i, 2.0] for i in range(len(labels))})
        df.columns = pd.Index(labels, dtype=object)
        given = [fresh(u) for u in ["kg", "mm", "N/m"][:len(labels)]]
        case = {"seed": seed, "stream": "labels", "index": cases.index(labels), "ops": [], "labels": [repr(x) for x in labels]}
        out.count("label_cases")
        try:
            t = quiet(Table, df, name="t", units=given)
            units = list(quiet(lambda: t.units))
            looked = [quiet(lambda n=n: t[n].unit) for n in labels]
        except Exception as e:
            out.fail("a table whose column labels are not strings cannot be consulted", case, exc_name(e), given,
                     key="C04:labels:" + type(e).__name__)
            continue
        if units != given or looked != given:
            out.fail("a table whose column labels are not strings does not report the units given by position", case,
                     {"units": units, "lookup": looked}, given, key="C04:labels")


def units_argument_cases(out, seed):
    """`units=` is an Iterable[str]: a list, a tuple, a one-shot iterator, a generator, a dict view, an array — and one
    running iterator serving consecutive constructions (each table draws exactly its own columns' units).  Whatever
    the form, every column keeps the unit given for its position: by `units`, by lookup, in the CSV unit row, and
    after a column is added.  Oracle only (the model speaks about the register, not about how it was filled)."""
    import io
    import numpy as np
    import pandas as pd
    import pdtable
    from pdtable import Table
    rng = make_rng(seed, "C04:units-forms")
    pool = ["kg", "mm", "N/m", "s", "A", "m/s", "K", "Pa"]
    forms = {"list": list, "tuple": tuple, "iter": iter, "generator": lambda us: (u for u in us),
             "map": lambda us: map(str, us), "dict_values": lambda us: {i: u for i, u in enumerate(us)}.values()
             }      # (a numpy array / pd.Index is refused by `if units and unit_map`: ambiguous truth value — not generated)

    def judge(t, names, given, case, what):
        try:
            units = list(quiet(lambda: t.units))
            looked = [quiet(lambda n=n: t[n].unit) for n in names]
            buf = io.StringIO()
            quiet(pdtable.write_csv, t, buf)
            row = buf.getvalue().split("\n")[3].split(";")[:len(names)]
        except Exception as e:
            out.fail("a table built with units given as " + what + " cannot be consulted", case, exc_name(e), given,
                     key="C04:units_form:" + type(e).__name__)
            return
        if units != given or looked != given or row != given:
            out.fail("a table built with units given as " + what + " does not report the units given by position", case,
                     {"units": units, "lookup": looked, "csv_unit_row": row}, given, key="C04:units_form")

    for i in range(60):
        ncol = rng.choice([1, 2, 2, 3, 4, 6])
        names = ["c%d" % j for j in range(ncol)]
        given = [fresh(rng.choice(pool)) for _ in names]
        form = rng.choice(sorted(forms))
        df = pd.DataFrame({n: [1.0 + j, 2.0] for j, n in enumerate(names)})
        case = {"seed": seed, "stream": "units_forms", "index": i, "ops": [], "form": form, "units": given}
        out.count("units_form:" + form)
        try:
            t = quiet(Table, df, name="t", units=forms[form](given))
        except Exception as e:
            out.fail("Table(df, units=<" + form + ">) is refused", case, exc_name(e), given,
                     key="C04:units_form_refused:" + form)
            continue
        judge(t, names, given, case, "a " + form)
        quiet(t.add_column, "z", [5.0, 6.0], "V")
        judge(t, names + ["z"], given + ["V"], dict(case, ops=["add_column"]), "a " + form + " (after add_column)")
    # one running iterator, two or three consecutive constructions
    for i in range(30):
        widths = [rng.choice([1, 2, 3]) for _ in range(rng.choice([2, 3]))]
        all_units = [fresh(rng.choice(pool)) for _ in range(sum(widths))]
        it = iter(all_units)
        pos = 0
        for k, w in enumerate(widths):
            names = ["c%d" % j for j in range(w)]
            given = all_units[pos:pos + w]
            pos += w
            df = pd.DataFrame({n: [1.0 + j, 2.0] for j, n in enumerate(names)})
            case = {"seed": seed, "stream": "units_running_iterator", "index": i, "ops": [], "widths": widths,
                    "units": all_units, "table": k}
            out.count("units_form:running_iterator")
            try:
                t = quiet(Table, df, name="t%d" % k, units=it)
            except Exception as e:
                out.fail("Table(df, units=<running iterator>) is refused", case, exc_name(e), given,
                         key="C04:units_form_refused:running")
                break
            judge(t, names, given, case, "a running iterator shared by consecutive constructions")


def _same_step(exp, ans):
    """a step agrees when every field the harness could observe agrees (the remembered-state fields `last` / `ls` are
    only present in the expectation when the implementation's remembered state was observable)"""
    if not (isinstance(exp, dict) and isinstance(ans, dict) and "reg" in exp):
        return exp == ans
    return all(ans.get(k, "<absent>") == v for k, v in exp.items() if k not in ("last", "ls"))


def _remembered_differs(exp, ans):
    return isinstance(exp, dict) and isinstance(ans, dict) and any(
        k in exp and ans.get(k, "<absent>") != exp[k] for k in ("last", "ls"))


def compare(out, what, case, exp, ans):
    if isinstance(ans, dict) and "error" in ans:
        out.mismatch("driver error in " + what, case, exp, ans)
        return
    if isinstance(exp, dict) and "steps" in exp and isinstance(ans, dict) and "steps" in ans:
        if any(_remembered_differs(a, b) for a, b in zip(exp["steps"], ans["steps"])):
            # whether and when the library remembers a validated state is not behaviour (a copy may validate now or
            # at the next consultation): recorded in the evidence, not a broken correspondence.  Results, exception
            # classes, the register and the strict flag of every step are still compared.
            out.count("remembered_state_differs_from_model")
        if _same_step(exp["init"], ans["init"]) and len(exp["steps"]) == len(ans["steps"]) and \
                all(_same_step(a, b) for a, b in zip(exp["steps"], ans["steps"])):
            return
    elif ans == exp:
        return
    elif what.startswith("_combine_tables(") and isinstance(ans, list) and isinstance(exp, list) and \
            sorted(map(repr, ans)) == sorted(map(repr, exp)):
        # the register `_combine_tables` hands to `_check_dataframe` is put into dataframe column order there: the
        # order of this intermediate is promised by nothing
        out.count("combine register in another order (not compared)")
        return
    # localise: first differing step
    if isinstance(exp, dict) and "steps" in exp and isinstance(ans, dict) and "steps" in ans:
        if not _same_step(exp["init"], ans["init"]):
            out.mismatch(what + ": construction", case, exp["init"], ans["init"])
            return
        for n, (a, b) in enumerate(zip(exp["steps"], ans["steps"])):
            if not _same_step(a, b):
                out.mismatch(f"{what}: step {n}", dict(case, step=n), a, b)
                return
        out.mismatch(what + ": step count", case, len(exp["steps"]), len(ans["steps"]))
        return
    out.mismatch(what, case, exp, ans)


def run(tier, seed, model_ok, translator, search=False, prop="C04", weights=None):
    out = Outcome()
    out.rule = ("operation histories on real Tables: random start table (0-4 columns of 16 value kinds, 0-3 rows, units "
                "right / wrong / short / long / unit_map / absent, strict_types on/off) followed by random operations from an "
                "alphabet of 39 (facade add_column/__setitem__/unit setters/re-wrap; in-place dataframe insert, del, rename, "
                "relabel, move, sort, assign, astype, loc row append, drop rows/columns, cell assignment, fillna; pandas "
                "select, copy, sort_index, reindex, concat both axes, merge, assign, drop, astype, fillna, replace, rename, "
                "row selections incl. empty, set_axis, iloc); after every operation the table is consulted (units, per-column "
                "lookup, iteration, column proxies, annotated frame, writers) and compared with the model step by step. "
                "Enumerated part (operation KINDS only, arguments random): quick = every script of length 1 and a "
                "seed-selected half of those of length 2 over 27 kinds (thorough: all of length <= 2) "
                "from one fixed 3-column table + every script of length 2..3 over 9 kinds around emptiness transitions + "
                "scripted edits on 61/64/90/300-column tables; thorough adds a seed-selected fifth of the length-3 scripts and "
                "more widths. Depth 3 is NOT exhaustive in either tier. Non-trivial: history with >= 1 successful consultation of "
                "a table with rows after an operation; distinct by (start table, operation descriptions).")
    thorough = tier == "thorough"
    import shutil
    import tempfile
    _TMP["dir"] = tempfile.mkdtemp(prefix="pdt-c04-")
    try:
        return _run(out, tier, seed, model_ok, translator, search, prop, weights, thorough)
    finally:
        shutil.rmtree(_TMP["dir"], ignore_errors=True)
        _TMP["dir"] = None


def _run(out, tier, seed, model_ok, translator, search, prop, weights, thorough):
    n_rand = 1500 if thorough else 260
    depth_max = 10
    ex_depth = 3 if thorough else 2
    if search:
        n_rand, ex_depth, thorough = 4000, 2, False
    ops, pend = [], []

    def add(res):
        if res is None:
            return
        mop, exp, case, ctx = res
        okc = sum(1 for e in exp["steps"] if isinstance(e["res"], list))
        out.case({"seed": case["seed"], "stream": case["stream"], "index": case["index"], "init": case.get("init"),
                  "ops": case["ops"]}, nontrivial=okc >= 2 and len(case["ops"]) >= 1)
        out.count("history_len:" + str(len(case["ops"])))
        if model_ok:
            ops.append(mop)
            pend.append(("history", case, exp))
            for fop, fexp, what in ctx.fn_ops:
                ops.append(fop)
                pend.append((what, {"seed": case["seed"], "stream": case["stream"], "index": case["index"], "fn": fop}, fexp))

    # bounded-exhaustive scripts (operation *kinds* exhaustive, arguments drawn from the history's own stream)
    scripts = scripts_of(SCRIPT_ALPHABET, ex_depth)
    n_scripts = 0
    for i, sc in enumerate(scripts):
        if len(sc) == 3 and (i + seed) % 5 != 0:
            continue                      # budget: a seed-selected fifth of the scripts of length 3 (thorough only)
        if len(sc) == 2 and not thorough and (i + seed) % 2 != 0:
            continue                      # budget: quick runs a seed-selected half of the scripts of length 2
        n_scripts += 1
        add(run_history(out, prop, seed, "ex%d" % ex_depth, i, len(sc), weights=None, plan=EX_PLAN, script=list(sc)))
    e_depth = 3
    escripts = [sc for sc in scripts_of(E_ALPHABET, e_depth) if len(sc) >= 2]
    if thorough:
        escripts = escripts + escripts          # thorough: every script from both start tables
    for i, sc in enumerate(escripts):
        add(run_history(out, prop, seed, "exE%d" % e_depth, i, len(sc), weights=None,
                        plan=E_PLANS[(i + i // (len(escripts) // 2 if thorough else len(escripts) + 1)) % 2], script=list(sc)))
    out.count("exhaustive_scripts", n_scripts + len(escripts))
    # several columns of one dtype that get their default units in the same reconciliation, then edits of one of them
    for i, sc in enumerate(x for x in scripts_of(SAME_ALPHABET, 2) if x):
        add(run_history(out, prop, seed, "same", i, len(sc), weights=None, plan=SAME_PLANS[i % 2], script=list(sc)))
    # wide tables: type-breaking edits to middle columns after a first consultation, and the usual operations
    widths = WIDTHS_THOROUGH if thorough else WIDTHS_QUICK
    for wi, width in enumerate(widths):
        for si, sc in enumerate(WIDE_SCRIPTS if (thorough or width < 200) else WIDE_SCRIPTS[:2]):
            add(run_history(out, prop, seed, "wide", wi * 10 + si, len(sc), weights=None, plan=wide_plan(width), script=list(sc)))
            out.count("wide_tables")
    for i in range(n_rand):
        rng_d = make_rng(seed, f"{prop}:depth:{i}")
        depth = rng_d.choice([1, 2, 3, 4, 5, 6, 8, depth_max])
        add(run_history(out, prop, seed, "rnd", i, depth, weights=weights))
    if model_ok:
        fops, fpend = function_level(out, make_rng(seed, prop + ":fn"), 1500 if thorough else 300)
        ops += fops
        pend += fpend
        for (what, case, exp), ans in zip(pend, common.run_model(ops)):
            compare(out, what, case, exp, ans)
    if prop == "C04":
        label_cases(out, seed)
        units_argument_cases(out, seed)
    # oracle health: a writer probe that never gets as far as the pairing check checks nothing
    for w, floor in (("csv", 0.8), ("csv_t", 0.8), ("json", 0.8), ("xlsx", 0.6)):
        tot, ok = out.dist.get("writer_probe:" + w, 0), out.dist.get("writer_judged:" + w, 0)
        if prop == "C04" and tot >= 50 and ok < floor * tot:
            out.mismatch(f"oracle health: only {ok} of {tot} {w} writer probes reached the pairing check",
                         {"tier": tier, "seed": seed}, {"judged": ok, "probes": tot}, {"floor": floor})
    out.exhaustive = False
    out.notes.append(f"bounded-exhaustive part: {n_scripts} operation-kind scripts of length <= {ex_depth} over "
                     f"{len(SCRIPT_ALPHABET)} kinds from one fixed start table (quick: length 1 and half of length 2; thorough: all of length <= 2 and of length 3 the fifth selected "
                     f"by the seed), and all {len(escripts)} scripts of length 2..{e_depth} "
                     f"over {len(E_ALPHABET)} kinds around emptiness transitions from two start tables (arguments random): "
                     "validates the model against the code, it is not the proof")
    return out


def replay(rep, prop="C04", weights=None):
    try:
        return _replay(rep, prop, weights)
    except Exception as e:                       # a harness problem is not a property failure
        return True, f"replay could not be run by this harness ({type(e).__name__}: {e}): nothing to report"


def _replay(rep, prop="C04", weights=None):
    """a failing history is re-run from its recorded draws (`recipe`); older replay files without a recipe are
    regenerated from (seed, stream, index)"""
    inp = rep.get("input") or {}
    if "index" not in inp or "stream" not in inp:
        return False, "replay file has no input (no-failing-input-found): " + str(rep.get("broken"))[:300]
    out = Outcome()
    seed, stream, index = int(inp["seed"]), inp["stream"], int(inp["index"])
    rec = inp.get("recipe")
    if rec and rec.get("draws") is not None:
        # faithful replay: the recorded draws, start table plan, script and weights; no dependence on tier / stream
        plan = rec.get("plan")
        try:
            run_history(out, prop, seed, stream, index, rec.get("depth") or 0,
                        weights=C15_WEIGHTS if rec.get("weights") == "C15" else None,
                        plan=None if plan is None else tuple(plan), script=rec.get("script"), draws=rec["draws"])
        except (TypeError, ValueError, KeyError, IndexError, AttributeError) as e:
            if not out.failures:
                return True, f"replay log does not fit the current generator ({type(e).__name__}): nothing to report"
    elif stream.startswith("exE"):
        base = [x for x in scripts_of(E_ALPHABET, int(stream[3:])) if len(x) >= 2]
        sc = base[index % len(base)]
        run_history(out, prop, seed, stream, index, len(sc), plan=E_PLANS[(index + index // len(base)) % 2], script=list(sc))
    elif stream.startswith("ex"):
        sc = scripts_of(SCRIPT_ALPHABET, int(stream[2:]))[index]
        run_history(out, prop, seed, stream, index, len(sc), plan=EX_PLAN, script=list(sc))
    else:
        depth = make_rng(seed, f"{prop}:depth:{index}").choice([1, 2, 3, 4, 5, 6, 8, 10])
        run_history(out, prop, seed, stream, index, depth, weights=weights)
    if out.failures:
        f = out.failures[0]
        return False, f"{f['what']}: observed {f['observed']} expected {f['expected']} after {f['input'].get('ops')}"
    return True, "property holds on this history"
