"""C10 — orientation, trailing delimiters and header whitespace never change the table.

Generated: table values that are well formed (DESIGN §3) in BOTH layouts, then a random subset of the five rewrites
with random amounts per line / per cell:
    orientation          row-wise text <-> transposed text
    trailing cells       0-5 empty cells appended to any line ("" in CSV; "", " ", None in cell grids)
    header blanks        blanks (space, tab, NBSP, EM SPACE) before / after every column-name and unit cell
    comments             a blank cell and free-text cells after the last name on the column-name row (row-wise text)
    termination          end of input | a blank line (+ more rows) | directly the start of another block; optionally
                         preceded by another block
read through   make_table(grid)   |   parse_blocks(rows)   |   read_csv(text, sep) for 5 separators, the text given as a
StringIO stream or as a file by str / pathlib.Path with "\n", "\r\n" or lone "\r" line endings.

Oracle (no Lean model involved): the table read from the rewritten input equals the table read from the plain
row-wise text of the same table value by the same API — Table.equals both ways plus explicit comparison of name,
destinations, column names, units, column kinds and every value — ignoring the transposed flag (and origin).
Correspondence: the harness's rewritten grid / row stream vs the Lean rewrite functions (op "rewrite", incl. the
well-formedness predicates wf / wfT / blockShaped and "the splitter delivers the grid as one block"), and the
reader on the rewritten input vs Lean makeTable / parseBlocks.
"""
import datetime
import io
import os
import pathlib
import shutil
import tempfile
import zlib
import logging
import warnings

from harness import common, reader_common as rc, blocks_common as bc
from harness.common import Outcome, make_rng, grid_to_json
from harness.props import c02

logging.disable(logging.CRITICAL)

EXTRA = {
    "assumptions": [
        "table values are taken as already rendered cell spellings (what write_csv / write_excel put into the "
        "cells); the rendering itself is C01/C09",
        "well-formedness (DESIGN §3) as the decidable predicates TV.wf (both layouts: name not ending in '*', at "
        "least one column, names/units trimmed, names not blank, equal column lengths), TV.wfT (transposed: every "
        "value row has a non-blank cell) and blockShaped (first cells after the '**' row are neither blank nor "
        "markers); the Python mirrors of these predicates are compared with the Lean ones on every case, including "
        "deliberately ill-formed tables",
        "datetime columns hold one UTC offset (or none) per column, and nanosecond-precision spellings never sit next to "
        "a date outside the nanosecond range (DESIGN §13.5): with that, every generated table's plain text must parse, "
        "and a plain text that does not is reported as a failure",
        "tables without columns are covered separately (TV.wf0: no columns, no rows): both layouts are the two "
        "lines '**name[*]' / destinations, because the empty column-name line ends the block for the splitter",
        "CSV: the model reads the cell rows of the generated stream (one row per line, a line without a separator is "
        "one cell, optional final newline); read_csv itself reads the joined text, so how read_csv cuts lines into "
        "cells is inside the comparison",
    ],
    "explanation": "Props/C10.lean: rvariant_layout / tvariant_layout (every row-wise / transposed variant of a "
                   "well-formed table has the layout of the plain row-wise text, up to the flag), closure of the variants "
                   "under padTrailing / padHeaderR / padHeaderT / addComments, toTransposed_layoutR, "
                   "rowwise_variant_same_table / transposed_variant_same_table (makeTable and makePrecursor, every ext and "
                   "fixer), rewrites_rowwise / rewrites_transposed (composites), termination_independent, classify_pad "
                   "(blanks around a non-marker cell never make it a marker) and blockShaped_* (each rewrite keeps the grid "
                   "one block), stream_rowwise / stream_transposed (everything together for a row stream); inductive Rewrite + "
                   "applyAll with applyAll_rvariant / applyAll_tvariant / rewrites_any_rowwise / rewrites_any_transposed "
                   "(every sequence of rewrites); zero_columns_same_table / rewrites_any_zero_columns (column-less tables); "
                   "parse_delivers / parse_rewritten_rowwise / parse_rewritten_transposed (parse_blocks on the rewritten "
                   "stream delivers the plain text's table at the block's origin row, given the rows before it read to the "
                   "end). A decided "
                   "witness shows the orientation rewrite fails without wfT. Hypotheses: wf / wfT of the table value and "
                   "blockShaped of its two plain layouts (all decidable, all checked per generated case).",
}

# header blanks: every code point of Python's str.isspace() / re's \\s (rc.SPACE_CPS, 29 of them) except the two
# that end a line of text; drawn singly and in pairs, next to the empty string
_WS = [chr(c) for c in rc.SPACE_CPS if c not in (10, 13)]
BLANKS = ["", "", "", " ", "  ", "\t", " \t"] + _WS + [a + b for a, b in zip(_WS, _WS[5:])]
# decomposed sequences (e + combining acute, a + combining ring, Hangul jamo): names must come back as written
NAME_ALPHA = rc.NAME_ALPHA + [":", "*", "é", "k", "e\u0301", "a\u030a", "\u1100\u1161", "\ufeff", "\u200b", "\u2060",
                              "\u00ad", "\U0001F600"]
# text-cell alphabet: characters str.splitlines() breaks at, zero-width / format characters (BOM U+FEFF, ZWSP, WORD
# JOINER, SOFT HYPHEN) at the start / inside / end of values, astral characters
LINEISH_ALPHA = ["a", "b", "x", "1", " ", "-", "é", "\x0b", "\x0c", "\x1c", "\x1d", "\x1e", "\x85", "\u2028", "\u2029",
                 "\ufeff", "\ufeff", "\u200b", "\u2060", "\u00ad", "\U0001F600", "\U0001D538", "\U00020000"]
LADDER = [1025, 4097, 8193, 2049, 16385, 255, 1023, 8191, 64, 128, 4095, 20000, 257, 1000, 2047]
COMMENTS = ["comment", "more", "**x", "", " ", "k:", "1.5", ":::t", "-"]
# in a native grid the cells after the blank cell can be anything (a revision number, a date stamp, a flag)
NATIVE_COMMENTS = [3, 2.5, True, None, datetime.datetime(2024, 1, 15)]


def is_blank(c):
    return c is None or (isinstance(c, str) and not c.strip())


def classify(s):
    """which block-start marker a text cell is, by the StarTable rule itself (Props/C03.lean Spec.*), written out here
    independently of the library's regular expression: '**x' table, '***x' directive (exactly two / three leading
    stars), one to three leading colons and no colon afterwards a template row, 'key:' (non-empty colon-free key, one
    colon, then only whitespace) a metadata key"""
    stars = len(s) - len(s.lstrip("*"))
    if stars == 2:
        return "tbl"
    if stars == 3:
        return "marker"
    colons = len(s) - len(s.lstrip(":"))
    if 1 <= colons <= 3 and ":" not in s[colons:]:
        return "marker"
    i = s.find(":")
    if i > 0 and all(ord(ch) in rc.SPACE_CPS for ch in s[i + 1:]):
        return "marker"
    return None


def row_kind(row):
    """'blank' | 'plain' | 'tbl' | 'marker' — mirrors Segment.rowKind; the marker rule is `classify` above, NOT the
    library's regex (a change to that regex must not move the generator's idea of a well-formed table with it)"""
    if row is None or len(row) == 0 or is_blank(row[0]):
        return "blank"
    c = row[0]
    if not isinstance(c, str):
        return "plain"
    return classify(c) or "plain"


def block_shaped(grid):
    return len(grid) > 0 and row_kind(grid[0]) == "tbl" and all(row_kind(r) == "plain" for r in grid[1:])


# ---------------------------------------------------------------------------------------------- table values

MARKERLIKE = ["k:", ":x", "**n", "***d", "note:", "::t"]
_DT_POOLS = None


def dt_pools():
    """datetime spellings grouped by UTC offset (pandas keeps a datetime column only if all its values carry the same
    offset, or none): {"naive": [...], "<offset>": [...]}, plus the missing-value markers that fit every column"""
    global _DT_POOLS
    if _DT_POOLS is None:
        import pandas as pd
        pools, markers = {}, []
        for sp in c02.WF_SPELL["datetime"]:
            if sp.strip().lower() in ("-", "nan"):
                markers.append(sp)
                continue
            with warnings.catch_warnings():
                warnings.simplefilter("ignore")
                ts = pd.to_datetime(sp.strip())
            key = "naive" if ts.tzinfo is None else str(ts.utcoffset())
            pools.setdefault(key, []).append(sp)
        _DT_POOLS = (pools, sorted(set(markers)))
    return _DT_POOLS


def dt_columns_consistent(t):
    """every datetime column holds one UTC offset (or none), and no nanosecond-precision value next to a date outside
    1677-09-21..2262-04-11 — the part of well-formedness `draw_dt_pool` guarantees for generated tables"""
    import re
    import pandas as pd
    for c in t["cols"]:
        if c["unit"].strip() != "datetime":
            continue
        keys, ns, far = set(), False, False
        for x in c["cells"]:
            if not isinstance(x, str):
                keys.add("naive")
                continue
            v = x.strip()
            if v.lower() in ("-", "nan"):
                continue
            try:
                with warnings.catch_warnings():
                    warnings.simplefilter("ignore")
                    ts = pd.to_datetime(v)
            except Exception:  # noqa: BLE001
                return False
            keys.add("naive" if ts.tzinfo is None else str(ts.utcoffset()))
            ns = ns or bool(re.search(r"\.\d{7,}", v))
            far = far or not (1678 <= ts.year <= 2261)
        if len(keys) > 1 or (ns and far):
            return False
    return True


def draw_dt_pool(rng, native):
    """the spellings one datetime column draws from: one offset; nanosecond precision never next to a date outside the
    nanosecond range (DESIGN §13.5: pandas gives up on datetime64 there, the reader model does not know)"""
    pools, markers = dt_pools()
    key = "naive" if rng.random() < 0.5 else rng.choice(sorted(pools))
    pool = list(pools[key])
    if key == "naive":
        if rng.random() < 0.3:
            pool = [x for x in pool if x not in ("2262-04-12", "1677-01-01")]
        else:
            pool = [x for x in pool if x not in c02.NS_SPELL]
        if native:
            pool += [x for x in c02.WF_NATIVE["datetime"] if not isinstance(x, str)]
    return pool + markers[:3]


def gen_tv(rng, native, illformed=None, zero_cols=False, n_rows=None):
    n_col = rng.choice([1, 1, 2, 2, 3, 3, 4, 4, 6, 9, 17]) if rng.random() < 0.985 else rng.choice([33, 40, 65])
    n_row = rng.choice([0, 1, 2, 3, 5])
    if zero_cols:
        n_col, n_row = 0, 0
    if n_rows is not None:
        n_col, n_row = rng.choice([1, 2]), n_rows           # size ladder: long tables, few columns
    kinds = [rng.choice(["text", "onoff", "datetime", "num", "num"]) for _ in range(n_col)]
    names = []
    # marker-like names / units in a NON-first column are fine row-wise (only the first cell of a line is looked at by
    # the splitter); such a table is not well formed transposed and is then only rewritten row-wise
    markerish = n_rows is None and rng.random() < 0.15
    while len(names) < n_col:
        nm = rc.rand_text(rng, NAME_ALPHA, 1, 4).strip()
        if markerish and names and rng.random() < 0.5:
            nm = rng.choice(MARKERLIKE)
        ok_first = row_kind([nm]) == "plain" and row_kind([" " + nm + " "]) == "plain"
        if nm and nm not in names and (ok_first or (markerish and names)):
            names.append(nm)
    units = [rc.unit_for(rng, k) for k in kinds]
    if markerish:
        units = [(rng.choice(["k:", ":u", "**u"]) if j > 0 and kinds[j] == "num" and rng.random() < 0.4 else u)
                 for j, u in enumerate(units)]
    dtp = [draw_dt_pool(rng, native) if k == "datetime" else None for k in kinds]

    def cell(k, first, j=0):
        for _ in range(50):
            if k == "datetime":
                c = rng.choice(dtp[j])
            else:
                c = rng.choice(c02.WF_NATIVE[k]) if native and rng.random() < 0.5 else rng.choice(c02.WF_SPELL[k])
            if k == "text" and rng.random() < 0.3:
                # free text incl. the characters str.splitlines() breaks at but file / stream iteration does not
                # (VT, FF, FS, GS, RS, NEL, LINE / PARAGRAPH SEPARATOR): they are ordinary cell content
                c = rc.rand_text(rng, LINEISH_ALPHA, 1, 5)
            if isinstance(c, str) and "\n" in c:
                continue
            if first and (is_blank(c) or row_kind([c]) != "plain"):
                continue
            return c
        return "x" if k == "text" else "1"
    cols = []
    for j, (nm, u, k) in enumerate(zip(names, units, kinds)):
        cols.append({"name": nm, "unit": u, "kind": k, "cells": [cell(k, j == 0, j) for _ in range(n_row)]})
    while True:
        name = rc.rand_text(rng, NAME_ALPHA, 1, 5).strip().strip("*").strip()
        if name and row_kind(["**" + name]) == "tbl" and row_kind(["**" + name + "*"]) == "tbl":
            break
    dest = rng.choice(["all", "a b", "your_farm my_farm", "x"])
    if rng.random() < 0.5:
        # free destinations: one to three tokens; the cell must not be blank or a marker (it starts its line)
        for _ in range(20):
            d = " ".join(rc.rand_text(rng, ["a", "b", "é", "_", "1", "x", "-", "T", ".", "e\u0301", "\U0001F600"], 1, 5)
                         for _ in range(rng.randint(1, 3)))
            if row_kind([d]) == "plain" and row_kind([" " + d]) == "plain":
                dest = d
                break
    t = {"name": name, "dest": dest, "cols": cols, "nrows": n_row}
    if zero_cols:
        return t
    if illformed == "blank_row" and n_row >= 1:
        i = rng.randrange(n_row)
        for c in t["cols"]:
            c["cells"][i] = rng.choice(["", " ", None] if native else ["", " "])
    elif illformed == "star_name":
        t["name"] = name + "*"
    elif illformed == "untrimmed":
        j = rng.randrange(n_col)
        key = rng.choice(["name", "unit"])
        t["cols"][j][key] = " " + t["cols"][j][key]
    elif illformed == "blank_name":
        t["cols"][rng.randrange(n_col)]["name"] = ""
    elif illformed == "ragged" and n_row >= 1:
        t["cols"][rng.randrange(n_col)]["cells"].pop()
    elif illformed == "no_cols":
        t["cols"] = []
    return t


def wf(t):
    return (not t["name"].endswith("*")) and len(t["cols"]) > 0 and all(
        c["name"] == c["name"].strip() and not is_blank(c["name"]) and c["unit"] == c["unit"].strip()
        and len(c["cells"]) == t["nrows"] for c in t["cols"])


def wf0(t):
    return (not t["name"].endswith("*")) and len(t["cols"]) == 0 and t["nrows"] == 0


def wf_t(t):
    def cell(c, i):
        return c["cells"][i] if i < len(c["cells"]) else None
    return all(any(not is_blank(cell(c, i)) for c in t["cols"]) for i in range(t["nrows"]))


def layout_r(t):
    cols = t["cols"]
    if not cols:
        # the column-name line of a column-less table is empty and ends the block: two lines
        return [["**" + t["name"]], [t["dest"]]]
    rows = [[(c["cells"][i] if i < len(c["cells"]) else None) for c in cols] for i in range(t["nrows"])]
    return [["**" + t["name"]], [t["dest"]], [c["name"] for c in cols], [c["unit"] for c in cols]] + rows


def layout_t(t):
    return [["**" + t["name"] + "*"], [t["dest"]]] + [[c["name"], c["unit"]] + list(c["cells"]) for c in t["cols"]]


def tv_json(t):
    return {"name": t["name"], "dest": common.cell_to_json(t["dest"]), "nrows": t["nrows"],
            "cols": [{"name": c["name"], "unit": c["unit"], "cells": grid_to_json([c["cells"]])[0]} for c in t["cols"]]}


def cell_from_json(c):
    if isinstance(c, dict):
        if "i" in c:
            return int(c["i"])
        if "f" in c:
            return float(c["f"])
        if "d" in c:
            return datetime.datetime.fromisoformat(c["d"])
        return str(c.get("o"))
    return c


def rows_from_json(rows):
    return [[cell_from_json(c) for c in r] for r in rows]


def tv_from_json(j):
    return {"name": j["name"], "dest": cell_from_json(j["dest"]), "nrows": j["nrows"],
            "cols": [{"name": c["name"], "unit": c["unit"], "cells": [cell_from_json(x) for x in c["cells"]]}
                     for c in j["cols"]]}


def step_from_json(st):
    st = dict(st)
    if st["k"] == "pad_trailing":
        st["pads"] = rows_from_json(st["pads"])
    if st["k"] == "comments":
        st["blank"] = cell_from_json(st["blank"])
        st["cells"] = [cell_from_json(c) for c in st["cells"]]
    return st


def end_from_json(e):
    if e["by"] == "eof":
        return dict(e)
    return {"by": e["by"], "row": [cell_from_json(c) for c in e["row"]], "rest": rows_from_json(e["rest"])}


# ---------------------------------------------------------------------------------------------- rewrites (Python)

def draw_rewrites(rng, t, mode, only_rowwise=False):
    """-> (layout 'R'|'T', steps as protocol dicts with native cells still in them)"""
    csv = mode == "read_csv"
    blanks_cells = ["", "", "", " ", "  ", "\u00a0", " \u2003"] if csv else ["", " ", None, "", "\u00a0"]
    lay = "R" if only_rowwise else rng.choice(["R", "T"])
    which = {k for k in ("orient", "pad", "hdr", "comments") if rng.random() < 0.5}
    steps = []
    n_lines = (4 + t["nrows"]) if lay == "R" else (2 + len(t["cols"]))
    order = [k for k in ("hdr", "comments", "pad") if k in which]
    rng.shuffle(order)
    if lay == "T" and "orient" in which:
        # produce the transposed text by the rewrite function instead of by the layout
        steps.append({"k": "transpose"})
        start = "R"
    else:
        start = lay
    for k in order:
        if k == "hdr":
            n = len(t["cols"])
            pn = [[rng.choice(BLANKS), rng.choice(BLANKS)] for _ in range(rng.randint(0, n + 1))]
            pu = [[rng.choice(BLANKS), rng.choice(BLANKS)] for _ in range(rng.randint(0, n + 1))]
            steps.append({"k": "pad_header_r" if lay == "R" else "pad_header_t", "names": pn, "units": pu})
        elif k == "comments" and lay == "R":
            b = rng.choice(["", " "] if csv else ["", " ", None])
            pool = COMMENTS if csv else COMMENTS + NATIVE_COMMENTS + NATIVE_COMMENTS
            steps.append({"k": "comments", "blank": b,
                          "cells": [rng.choice(pool) for _ in range(rng.randint(0, 3))]})
        elif k == "pad":
            pads = [[rng.choice(blanks_cells) for _ in range(rng.choice([0, 0, 1, 2, 5, 9, 40] if rng.random() < 0.97 else [65, 70, 130]))]
                    for _ in range(rng.randint(0, n_lines + 1))]
            steps.append({"k": "pad_trailing", "pads": pads})
    return lay, start, steps


def pad_cell(lr, c):
    return lr[0] + c + lr[1] if isinstance(c, str) else c


def pad_cells(ps, cells):
    return [pad_cell(ps[k] if k < len(ps) else ["", ""], c) for k, c in enumerate(cells)]


def apply_step(g, st):
    g = [list(r) for r in g]
    k = st["k"]
    if k == "transpose":
        if len(g) == 2 and g[0] and isinstance(g[0][0], str):
            return [[g[0][0] + "*"] + g[0][1:], g[1]]
        if len(g) >= 3 and g[0] and isinstance(g[0][0], str):
            body = g[2:]
            n = len(body[0])
            lines = [[(r[j] if j < len(r) else None) for r in body] for j in range(n)]
            return [[g[0][0] + "*"] + g[0][1:], g[1]] + lines
        return g
    if k == "pad_trailing":
        return [r + (list(st["pads"][i]) if i < len(st["pads"]) else []) for i, r in enumerate(g)]
    if k == "pad_header_r":
        if len(g) >= 4:
            g[2] = pad_cells(st["names"], g[2])
            g[3] = pad_cells(st["units"], g[3])
        return g
    if k == "pad_header_t":
        for j, line in enumerate(g[2:]):
            if len(line) >= 2:
                line[0] = pad_cell(st["names"][j] if j < len(st["names"]) else ["", ""], line[0])
                line[1] = pad_cell(st["units"][j] if j < len(st["units"]) else ["", ""], line[1])
        return g
    if k == "comments":
        if len(g) >= 3:
            g[2] = g[2] + [st["blank"]] + list(st["cells"])
        return g
    raise ValueError(k)


def step_json(st):
    st = dict(st)
    if st["k"] == "pad_trailing":
        st["pads"] = grid_to_json(st["pads"])
    if st["k"] == "comments":
        st["blank"] = common.cell_to_json(st["blank"])
        st["cells"] = grid_to_json([st["cells"]])[0]
    return st


MARKER_ROWS = [["**next"], ["**next*", ""], ["**n", ""], ["***inc"], ["***"], ["***d", "x"], [":tpl"], ["::t", "v"], [":::x "],
               ["k:", "v"], ["author: ", "XYODA"], ["key:\t"], ["key:  ", "v"], ["k:\u00a0", "v"], ["a b:", "v"]]


def draw_pre(rng, csv):
    """what comes before the table under test: nothing, or a block of any kind — separated from the table by a blank
    line or by nothing at all (the table's `**` row then ends that block)"""
    r = rng.random()
    if r < 0.35:
        return []
    n = rng.randint(1, 5)
    kinds = {
        "metadata": [["author:", "x"]],
        "rowwise": [["**other"], ["all"], ["c%d" % k for k in range(n)], ["text"] + ["m"] * (n - 1)] +
                   [["v"] + [str(k) for k in range(1, n)] for _ in range(rng.randint(0, 3))],
        "transposed": [["**other*"], ["all"]] + [["c%d" % k, "m", "1", "2"] for k in range(n)],
        "directive": [["***d"]] + [["l%d" % k] for k in range(rng.randint(0, 2))],
        "template": [[":tpl"], ["::t", "v"]][: rng.randint(1, 2)],
        "stray": [["stray", "1"]],
    }
    k = rng.choice(["metadata", "rowwise", "rowwise", "transposed", "directive", "template", "stray"])
    pre = [list(x) for x in kinds[k]]
    if k in ("stray",):
        pre = [[""]] + pre                       # plain rows open a BLANK block only after a blank row
    if rng.random() < 0.5:
        pre.append(rng.choice([[""], ["", ""]] if csv else [[], [""], [None]]))
    return pre


def draw_end(rng, mode):
    csv = mode == "read_csv"
    pre = draw_pre(rng, csv)
    r = rng.random()
    tail = rng.choice([[], [["**later"], ["all"], ["c"], ["m"], ["1"]], [["stray"]], [["", "note"]]])
    if r < 0.3:
        return pre, {"by": "eof"}
    if r < 0.55:
        row = rng.choice([[""], ["", ""], [" "], ["", "note"]] if csv else [[], [""], [None], [None, "note"], ["", ""]])
        return pre, {"by": "blank", "row": row, "rest": tail}
    # directly the start of another block, in every spelling the marker rule admits
    row = list(rng.choice(MARKER_ROWS))
    rest = rng.choice([[], [["all"], ["c"], ["m"], ["1"]], [["x"]]])
    return pre, {"by": "next", "row": row, "rest": rest}


def stream_of(pre, g, end):
    if end["by"] == "eof":
        return [list(r) for r in pre] + [list(r) for r in g]
    return [list(r) for r in pre] + [list(r) for r in g] + [list(end["row"])] + [list(r) for r in end["rest"]]


def end_json(end):
    if end["by"] == "eof":
        return end
    return {"by": end["by"], "row": grid_to_json([end["row"]])[0], "rest": grid_to_json(end["rest"])}


# ---------------------------------------------------------------------------------------------- reading

def csv_text(stream, sep):
    """-> (text, rows): the CSV text of a row stream and the cell rows a CSV reader must hand to the block parser.
    The rows are derived from the generated stream itself (what was joined), never by splitting the text again:
    one row per line, a line without a separator is one cell (so a row without cells reads as one empty cell),
    the final newline is optional, and an empty last line without a final newline is no line at all."""
    lines = [sep.join(r) for r in stream]
    text = "\n".join(lines) + "\n"
    rows = [list(r) if len(r) else [""] for r in stream]
    # "ending the block by end of input": half of the texts end without a final newline
    # (deterministic per text, so a case replays exactly)
    if zlib.crc32(text.encode("utf-8")) % 2 == 0:
        text = text[:-1]
        if lines and lines[-1] == "":
            rows = rows[:-1]
    return text, rows


_FILE_NO = [0]


def csv_source(text, route):
    """what is handed to read_csv: a text stream, or the path (str / pathlib.Path) of a file holding the text with
    the route's line ending ("\n", "\r\n" or a lone "\r": a file opened by path is read with universal newlines, so
    the same rows must arrive)"""
    if route is None or route["kind"] == "stream":
        return io.StringIO(text)
    _FILE_NO[0] += 1
    path = os.path.join(route["tmp"], f"t{_FILE_NO[0] % 50}.csv")
    with open(path, "wb") as f:
        f.write(text.replace("\n", route["eol"]).encode("utf-8"))
    return path if route["kind"] == "str" else pathlib.Path(path)


MODEL_FIXER = {None: "strict", "class_strict": "strict", "lenient": "lenient", "class_lenient": "lenient",
               "custom": "custom"}
NO_OPTS = {"to": "pdtable", "fx": None, "flt": None}


def filter_spec(flt, t):
    """the read filter of the case as an extensional table (same table for the code and for the model)"""
    if flt is None:
        return None
    if flt == "all":
        return {"accept": [], "default": True}
    return {"accept": [["TABLE", n, True] for n in sorted({t["name"], "other", "later", "next"})], "default": False}


def read_kwargs(opts):
    from harness.props.c11 import fixer_arg
    kw = {"to": opts["to"]}
    if opts["fx"] is not None:
        kw["fixer"] = fixer_arg(opts["fx"])
    if opts["flt"] is not None:
        kw["filter"] = bc.py_filter(opts["flt"])
    return kw


def canon_blocks(it, to):
    from pdtable.table_origin import InputError
    blocks, ending = [], "exhausted"
    try:
        with warnings.catch_warnings():
            warnings.simplefilter("ignore")
            for bt, val in it:
                first = None
                try:
                    first = val.metadata.origin.input_location.row
                except AttributeError:
                    pass
                blocks.append({"ty": bt.name, "first": first, "val": bc.canon_block(bt, val, to)})
    except InputError as e:
        ending = {"InputError": getattr(getattr(e.args[0], "load_location", None), "row", None)}
    except Exception as e:  # noqa: BLE001
        ending = {"escaped": type(e).__name__}
    issues = [ending["InputError"]] if isinstance(ending, dict) and "InputError" in ending else []
    return {"blocks": blocks, "issues": issues, "ending": ending}


def impl_parse_blocks(rows, opts):
    from pdtable.io.parsers.blocks import parse_blocks
    return canon_blocks(parse_blocks(iter([list(r) for r in rows]), **read_kwargs(opts)), opts["to"])


def impl_read_csv(text, sep, route=None, opts=NO_OPTS):
    """read_csv itself on the text, canonicalised like blocks_common.impl_parse_blocks"""
    from pdtable import read_csv
    return canon_blocks(read_csv(csv_source(text, route), sep=sep, **read_kwargs(opts)), opts["to"])


def read_tables(mode, stream, sep, route=None, opts=NO_OPTS):
    """-> (rows the block parser must receive, [(origin row, Table)] | {'exc': cls})"""
    from pdtable import read_csv
    from pdtable.io.parsers.blocks import parse_blocks
    from pdtable.table_origin import InputError
    seen = stream
    out = []
    try:
        with warnings.catch_warnings():
            warnings.simplefilter("ignore")
            if mode == "read_csv":
                text, seen = csv_text(stream, sep)
                it = read_csv(csv_source(text, route), sep=sep, **read_kwargs(opts))
            else:
                it = parse_blocks(iter([list(r) for r in stream]), **read_kwargs(opts))
            for bt, val in it:
                if bt.name == "TABLE":
                    out.append((val.metadata.origin.input_location.row if opts["to"] == "pdtable" else None, val))
            return seen, out
    except InputError as e:
        # a block of the surrounding stream (drawn freely, possibly malformed) failed: the blocks before it were
        # delivered; if it is the table under test that failed, it is missing from `out` and the oracle says so
        return seen, out
    except Exception as e:  # noqa: BLE001
        return seen, {"exc": type(e).__name__}


def make_table(grid, fx=None):
    from pdtable.io.parsers.blocks import make_table as mt
    from harness.props.c11 import fixer_arg
    try:
        with warnings.catch_warnings():
            warnings.simplefilter("ignore")
            return mt([list(r) for r in grid], **({} if fx is None else {"fixer": fixer_arg(fx)}))
    except Exception as e:  # noqa: BLE001
        return {"exc": type(e).__name__}


def canon_noflag(tab):
    d = rc.canon_table(tab)
    d.pop("transposed", None)
    return d


def is_err(x):
    return isinstance(x, dict) and set(x) == {"exc"}


def same_json(a, b):
    """jsondata form: name, destinations, column names, units and every value"""
    ca, cb = bc.canon_json_table(a), bc.canon_json_table(b)
    ca["destinations"], cb["destinations"] = sorted(ca["destinations"]), sorted(cb["destinations"])
    if ca != cb:
        return False, {"fields": [k for k in ca if ca[k] != cb.get(k)]}
    return True, None


def canon_any(x):
    return canon_noflag(x) if hasattr(x, "metadata") else bc.canon_json_table(x)


def same_table(a, b):
    """the oracle's equality: Table.equals both ways and every field explicitly, ignoring transposed / origin"""
    ca, cb = canon_noflag(a), canon_noflag(b)
    if ca != cb:
        return False, {"fields": [k for k in ca if ca[k] != cb.get(k)]}
    with warnings.catch_warnings():
        warnings.simplefilter("ignore")
        if not (a.equals(b) and b.equals(a)):
            return False, {"fields": ["Table.equals"]}
    return True, None


# ---------------------------------------------------------------------------------------------- run

def one_case(rng, out, seed, idx, ops, pend, model_ok, tmp=None):
    """draw one case; the evaluation is a function of the case alone (so that a replay file replays exactly)"""
    mode = rng.choice(["make_table", "parse_blocks", "read_csv", "read_csv"])
    # size ladder: long tables (transposed lines of many thousand characters) through read_csv
    ladder = LADDER[(idx // 500) % len(LADDER)] if idx % 500 == 11 else None
    if ladder:
        mode = "read_csv"
    route = None
    if mode == "read_csv":
        kind = rng.choice(["stream", "stream", "str", "path"])
        route = [kind, "\n" if kind == "stream" else rng.choice(["\n", "\r\n", "\r\n", "\r"])]
    native = mode != "read_csv" and rng.random() < 0.5
    ill = rng.choice(["blank_row", "star_name", "untrimmed", "blank_name", "ragged", "no_cols"]) \
        if rng.random() < 0.08 and not ladder else None
    zero = ill is None and not ladder and rng.random() < 0.06
    t = gen_tv(rng, native, ill, zero_cols=zero, n_rows=ladder)
    t_ok = wf_t(t) and block_shaped(layout_t(t))
    lay, start, steps = draw_rewrites(rng, t, mode, only_rowwise=(ill is None and not t_ok))
    to = rng.choice(["pdtable", "pdtable", "jsondata"]) if mode in ("parse_blocks", "read_csv") else "pdtable"
    fx = rng.choice([None, None, None, "lenient", "custom", "class_strict", "class_lenient"])
    flt = rng.choice([None, None, "all", "tables"]) if mode in ("parse_blocks", "read_csv") else None
    if ladder and rng.random() < 0.7 and lay == "R" and t_ok:
        lay, start = "T", "T"
        steps = [st for st in steps if st["k"] in ("pad_trailing",)]
    pre, end = ([], {"by": "eof"}) if mode == "make_table" else draw_end(rng, mode)
    sep = None
    if mode == "read_csv":
        g = layout_r(t) if start == "R" else layout_t(t)
        for st in steps:
            g = apply_step(g, st)
        cells = [c for r in stream_of(pre, g, end) + layout_r(t) for c in r]
        if any(not isinstance(c, str) for c in cells):
            return
        free = [s for s in [";", ",", "|", "\t", "~"] if not any(s in c for c in cells)]
        if not free:
            out.count("skipped:no_free_separator")
            return
        sep = rng.choice(free)
    case = {"seed": seed, "index": idx, "mode": mode, "sep": sep, "table": tv_json(t), "layout": lay, "start": start,
            "source": route, "steps": [step_json(s) for s in steps], "pre": grid_to_json(pre), "end": end_json(end),
            "ill": ill, "zero": zero, "ladder": ladder, "to": to, "fixer": fx, "filter": flt}
    eval_case(case, out, ops, pend, model_ok, tmp)


def eval_case(case, out, ops, pend, model_ok, tmp):
    mode, sep, lay = case["mode"], case.get("sep"), case["layout"]
    start = case.get("start") or ("R" if any(s["k"] == "transpose" for s in case["steps"]) else lay)
    t = tv_from_json(case["table"])
    steps = [step_from_json(s) for s in case["steps"]]
    pre, end = rows_from_json(case["pre"]), end_from_json(case["end"])
    ill, zero = case.get("ill"), case.get("zero")
    to, fx, flt = case.get("to") or "pdtable", case.get("fixer"), case.get("filter")
    out.count("to:" + to)
    out.count("fixer:" + str(fx))
    out.count("filter:" + str(flt))
    opts = {"to": to, "fx": fx, "flt": filter_spec(flt, t)}
    route = None
    if case.get("source"):
        route = {"kind": case["source"][0] if tmp is not None else "stream", "eol": case["source"][1], "tmp": tmp}
        if route["kind"] == "stream":
            route["eol"] = "\n"
        out.count("csv_source:" + route["kind"] + ":" + {"\n": "LF", "\r\n": "CRLF", "\r": "CR"}[route["eol"]])
    if case.get("ladder"):
        out.count("ladder_rows:%d" % case["ladder"])
    plain = layout_r(t)
    g = layout_r(t) if start == "R" else layout_t(t)
    for st in steps:
        g = apply_step(g, st)
    stream = stream_of(pre, g, end)
    is_wf, is_wft, is_wf0 = wf(t), wf_t(t), wf0(t)
    shaped = block_shaped(g)
    out.count("mode:" + mode)
    out.count("layout:" + lay)
    for st in steps:
        out.count("rewrite:" + st["k"])
    out.count("end:" + end["by"])
    if ill:
        out.count("illformed:" + ill)

    if model_ok:
        ops.append({"op": "rewrite", "table": case["table"], "layout": start, "steps": case["steps"],
                    "end": case["end"], "pre": case["pre"]})
        pend.append(("rewrite", case, {"grid": grid_to_json(g), "stream": grid_to_json(stream), "wf": is_wf,
                                       "wf0": is_wf0, "wfT": is_wft, "block_shaped": shaped,
                                       "plain": grid_to_json(plain)}))
    if zero:
        out.count("zero_columns")

    # well-formedness is needed in the layout(s) the case involves: row-wise always (the plain text is row-wise),
    # transposed only when the rewritten text is transposed
    r_ok = (is_wf or is_wf0) and block_shaped(plain)
    usable = r_ok and (lay == "R" or (is_wft and block_shaped(layout_t(t))))
    if not usable:
        out.count("not_wf_in_the_layouts_involved")
        out.evaluations += 1
        return
    if not (is_wft and block_shaped(layout_t(t))):
        out.count("rowwise_only_table")

    # baseline: the plain row-wise text through the same API
    if mode == "make_table":
        base = make_table(plain, fx)
    else:
        # the plain text goes the same way (stream / str path / Path), with "\n" line endings
        _, tabs = read_tables(mode, plain, sep, None if route is None else dict(route, eol="\n"), opts)
        base = tabs if is_err(tabs) else (tabs[0][1] if len(tabs) == 1 else {"exc": "not-one-table"})
    if is_err(base) and not dt_columns_consistent(t):
        # not well formed after all (inputs of older corpus entries): datetime values of different UTC offsets, or
        # nanosecond precision next to a date outside the nanosecond range, in one column
        out.count("skipped:datetime_column_mixes_offsets_or_ns_range")
        return
    if is_err(base):
        # the generator only draws tables whose plain text must parse: a plain text that does not is a failure
        out.case(case, nontrivial=True)
        out.fail("the plain row-wise text of a well-formed table does not read as one table", case, base, "a table",
                 key="plain_unreadable:" + base["exc"])
        return
    out.case(case, nontrivial=len(steps) > 0 or end["by"] != "eof" or lay == "T")
    out.count("rewrites_applied:%d" % (len(steps) + (end["by"] != "eof") + (lay == "T" and start == "T")))

    # rewritten input
    if mode == "make_table":
        got = make_table(g, fx)
        seen = None
    else:
        seen, tabs = read_tables(mode, stream, sep, route, opts)
        if is_err(tabs):
            got = tabs
        else:
            # the table under test is the TABLE block after those of `pre`; where the form exposes an origin row it
            # must be the row the block starts at
            k = sum(1 for r in pre if row_kind(r) == "tbl")
            hit = tabs[k:k + 1]
            if hit and hit[0][0] is not None and hit[0][0] != len(pre):
                hit = []
            got = hit[0][1] if len(hit) == 1 else {"exc": "table block not delivered at its origin row"}
    if is_err(got):
        out.fail("the rewritten text of a well-formed table does not read as one table", case, got, "a table",
                 key="unreadable:" + kinds_key(steps, lay, end))
    else:
        ok, why = same_table(base, got) if to == "pdtable" else same_json(base, got)
        if not ok:
            out.fail("a rewrite of the text changed the table", case,
                     {"differs": why, "got": canon_any(got)}, canon_any(base),
                     key="changed:" + kinds_key(steps, lay, end))
        elif to == "pdtable" and bool(got.metadata.transposed) != (lay == "T"):
            out.fail("transposed flag does not follow the layout", case, bool(got.metadata.transposed), lay == "T",
                     key="flag")

    # correspondence on the rewritten input
    if model_ok:
        if mode == "make_table":
            impl = rc.impl_make_table(g, MODEL_FIXER[fx])
            ops.append(rc.model_op("make_table", g, MODEL_FIXER[fx]))
            pend.append(("make_table", case, impl))
        else:
            # read_csv on the text vs the model on the rows of the generated stream (not on a re-split of the text):
            # a change to how read_csv cuts lines into cells shows up here as a mismatch
            impl = impl_read_csv(csv_text(stream, sep)[0], sep, route, opts) if mode == "read_csv" else \
                impl_parse_blocks(seen, opts)
            ops.append(bc.model_op(seen, to=to, filt=opts["flt"], fixer_kind=MODEL_FIXER[fx]))
            pend.append(("parse_blocks", case, impl))


def kinds_key(steps, lay, end):
    ks = sorted({s["k"] for s in steps} | ({"layoutT"} if lay == "T" else set()) |
                ({"end:" + end["by"]} if end["by"] != "eof" else set()))
    return "+".join(ks) or "none"


def run(tier, seed, model_ok, translator, search=False, _limit=None):
    out = Outcome()
    out.rule = ("table values well formed in the layout(s) the case involves (0-17 columns of text / onoff / datetime (one UTC "
                "offset per column) / numeric spellings, 0-5 rows plus a size ladder up to 16385 / 20000 rows through "
                "read_csv, text or native cells, free destinations, marker-like names / units in non-first columns for "
                "row-wise-only tables, text cells with line-break-like, zero-width and astral characters) x layout x random "
                "subset of {toTransposed, header blanks, comments, trailing cells (up to 40, blank cells of several "
                "kinds)} in random order x termination {eof, blank line, next block} x optional preceding block, through "
                "make_table / parse_blocks / read_csv (5 separators; stream, or file by str / Path with LF / CRLF / CR "
                "line endings, the plain text always LF) x to {pdtable, jsondata} x fixer {default, lenient, custom, "
                "classes} x filter {none, accept-all, tables-only}; 8% deliberately ill-formed tables for the predicate "
                "comparison only. A plain text that does not parse is a failure. Non-trivial: at least one rewrite "
                "applied; distinct by (mode, table, rewrites).")
    rng = make_rng(seed, "C10")
    n = 16000 if tier == "thorough" else 1800
    if search:
        n = 4000
    if _limit is not None:
        n = _limit
    ops, pend = [], []
    tmp = tempfile.mkdtemp(prefix="c10-")
    try:
        for idx in range(n):
            one_case(rng, out, seed, idx, ops, pend, model_ok, tmp)
    finally:
        shutil.rmtree(tmp, ignore_errors=True)
    if model_ok and ops:
        for (what, case, impl), ans in zip(pend, common.run_model(ops)):
            if isinstance(ans, dict) and "error" in ans:
                out.mismatch("driver error", case, impl if what == "rewrite" else None, ans)
                continue
            if what == "rewrite":
                for k in ("plain", "grid", "stream", "wf", "wf0", "wfT", "block_shaped"):
                    if ans[k] != impl[k]:
                        out.mismatch(f"rewrite functions / predicates: harness vs Lean ({k})", case, impl[k], ans[k])
                        break
                else:
                    if (ans["wf"] or ans["wf0"]) and ans["block_shaped"] and ans["end_ok"] and not ans["delivered"]:
                        out.mismatch("Lean splitter does not deliver the rewritten grid as one TABLE block", case,
                                     None, ans["delivered"])
                    if not ans["end_ok"]:
                        out.mismatch("ending drawn by the harness is not an EndBy.ok ending", case, case["end"], False)
            elif what == "make_table":
                ans = rc.model_table_canon(ans)
                if "ok" in impl and "ok" in ans:
                    ans["ok"].setdefault("fixer", impl["ok"].get("fixer"))
                if ans != impl:
                    out.mismatch("make_table on the rewritten grid: pdtable vs Lean makeTable", case, impl, ans)
            else:
                if bc.canon_model(ans) != impl:
                    out.mismatch(("read_csv on the text vs Lean parseBlocks on the generated rows" if case["mode"] ==
                                  "read_csv" else "parse_blocks on the rewritten stream: pdtable vs Lean parseBlocks"),
                                 case, impl,
                                 bc.canon_model(ans))
    return out


def replay(rep):
    """re-evaluates exactly the input of the replay file (table value, layout, rewrite steps, surrounding rows, ending,
    mode, separator, source route) — independent of tier, seed and position in any stream"""
    inp = rep.get("input") or {}
    if "table" not in inp or "steps" not in inp:
        return False, "replay file has no input (no-failing-input-found): " + str(rep.get("broken"))[:300]
    out = Outcome()
    tmp = tempfile.mkdtemp(prefix="c10r-")
    try:
        eval_case(dict(inp), out, [], [], False, tmp)
    finally:
        shutil.rmtree(tmp, ignore_errors=True)
    if out.failures:
        return False, out.failures[0]["what"]
    return True, "property holds on this input"
