"""C19 — readers and writers close what they opened, and only that, on every exit path.

Real files (CSV and .xlsx written by this module, several blocks / sheets / files) x every consumption prefix
length x {exhaust, close(), drop the last reference, throw(), error injected in block k} for read_csv (path, text
stream), read_excel (path, binary stream) and load_files; write_csv / write_excel (path, stream) with a table that
fails to serialise at each position.

Observed after *every* action, with the cyclic garbage collector disabled (an openpyxl workbook sits in a
reference cycle; a missing `closing(...)` must not be hidden by a collection):
  * /proc/self/fd entries pointing into the scratch directory that are not the harness' own streams,
  * `stream.closed` of the caller-supplied stream,
  * `ResourceWarning`s naming a scratch file (a file object the library left to the deallocator).
After an error the observation is made while the exception object (and its traceback) is still alive, and again
after it was released.

Correspondence: the Lean machine (Model/Resource.lean, driver op "resource") is run on the same program shape
and the same action history; its outcome / open-descriptor set / closed-caller-streams after each action must
equal the observed ones.
Oracle: the C19 statement itself — once the iterator finished / was closed / was discarded / raised, and when a
writer returned or raised, no scratch descriptor of the library is open (immediately: the exception still held),
the caller's stream is still open, nothing was left to the deallocator.
"""
import gc
import io
import logging
import os
import re
import shutil
import sys
import tempfile
import warnings

from harness import common
from harness.common import Outcome, make_rng

logging.disable(logging.CRITICAL)

EXTRA = {
    "assumptions": [
        "the path given to read_csv / write_* exists and is readable / writable. A workbook that cannot be opened or read "
        "(not a workbook, zero bytes, truncated, damaged sheet part) is modelled (gap while loading / failing block) and "
        "generated for read_excel and load_files. For load_files a missing, duplicated, unsupported (.txt) or "
        "refused (LoadError) *include* is modelled (a `gap` between two files that `throwInGap` hits) and generated",
        "PARTIAL - write_excel(backend=XLSXWRITER) is NOT covered: write_excel_xlsxwriter is `wb = xlsxwriter.Workbook(path) "
        "... wb.close()` with neither `with` nor try/finally (frame-table row: opener outside any with + explicit close; "
        "pinned, excluded from EnclosedByWith). Whether a failing table leaves the target open depends on when xlsxwriter "
        "opens it; the module is not installed here and no wheel is available offline, so this is neither observed nor "
        "exercised. Theorems xlsxwriter_closes_if_target_opened_in_close / xlsxwriter_leaks_if_target_opened_in_constructor "
        "state both cases; writer_closes_on_failure_partial names the gap",
        "CPython semantics (trusted, DESIGN §4): `with` runs its exit on every route exactly once; close()/drop/throw() "
        "raise at the suspension point; `yield from` forwards them; reference counting finalises a generator as soon as "
        "only an unwinding frame referred to it; a generator never started holds nothing. A leak that needs a reference "
        "cycle or a non-refcounting interpreter cannot be exhibited by the model (the harness observes with gc disabled)",
        "openpyxl / zipfile behaviour observed, not proved: a read-only workbook keeps one descriptor for the archive and "
        "its open member streams (closed when the archive and every member stream are closed); ZipFile never closes a "
        "file object that was passed in; wb.save(BytesIO / caller stream) opens no file; a failure inside wb.save is a "
        "modelled exit (gap) and is generated (timezone-aware datetime cell; patched ExcelWriter.write_data)",
        "a failure of `f.write(bytes)` inside `with open(path, 'wb')` of write_excel_openpyxl (disk full) is modelled (gap "
        "inside the with frame) but not generated",
        "errors are raised while a block is produced (illegal cell + raising tracker, raising filter), between two files "
        "of load_files, while a workbook is serialised, or thrown by the consumer; an include directive or a sheet that "
        "is consumed without being yielded cannot be the failing block",
        "openpyxl's own per-sheet scratch files (tempfile prefix `openpyxl.`, created inside wb.save and left to the "
        "garbage collector by openpyxl when save fails) are excluded from the descriptor observation: they are not "
        "opened by pdtable. Every other descriptor that appears during a call - inside or outside the scratch directory "
        "- is judged",
        "the clause 'a stream supplied by the caller is never closed' is decided by the harness on the real code; the "
        "theorem caller_stream_untouched speaks about the model, whose choice of nullcontext for a stream source is not "
        "read from the source (the frame table drops the test of the conditional)",
        "the order in which the independent files of a folder root are read is not part of the property (the statement "
        "is per file): it is observed in a dry run (audit hook on open) and handed to the model; the order of roots and "
        "includes (LIFO work list) is taken by construction and is C16's subject",
        "single consumer thread; no concurrent modification of the files",
        "the pinned frame table is a canonical abstraction of the source (harness/extract.py item with_frames): callee "
        "names and the kind of each positional argument (<param> / <local> / nested call) of with-items, opener calls, "
        "close calls, yields and write/save calls (a local all of whose assignments are possibly conditional copies / path "
        "conversions of ONE parameter counts as that parameter); keyword arguments, literal arguments (file modes), the tests of "
        "conditional expressions, with-items rooted at a local that are neither an opener nor closing(...), and all "
        "other statements are NOT in the table (read as the same frame: nested with, a once-assigned local used in a "
        "with-item, try/finally close, ExitStack.enter_context, an imported private helper, Path.write_bytes); any other "
        "structural rewrite of the frames ends in no-failing-input-found by design - the fd oracle decides leaks; the entries of each function are sorted (their order carries no "
        "meaning: re-ordering exclusive branches or independent calls does not change the table); a module-private helper that only returns opener / nullcontext "
        "expressions is followed one level. What the table drops (e.g. which branch of `open(..) if .. else "
        "nullcontext(..)` is taken when) is tied to the code by the correspondence run only",
    ],
    "explanation": (
        "Theorems (Props/C19.lean): api_closes_what_it_opened / library_handles_closed (every history that ends the "
        "consumption leaves nothing open, each handle closed exactly once, none closed twice), caller_stream_untouched, "
        "api_error_closes_immediately + api_gap_error_closes_immediately + api_never_defers (an error in a block or "
        "between two files closes before it reaches the caller, nothing waits for the traceback), "
        "writer_closes_on_failure_partial + write_excel_save_failure_closes (write_csv and write_excel/openpyxl; "
        "XLSXWRITER backend excluded, see assumptions), disciplined_wf (the `with` discipline suffices for arbitrary "
        "nesting of with / yield from / held generators / sequencing / gaps), source_enclosed + withFrames_pinned (the "
        "translated frame table of the current source meets the hypothesis). Regression shapes documented by decide: "
        "unmanaged_rows_defer (D18), unbuffered_save_defers (D31), bare_open_leaks, no_closing_leaks, "
        "explicit_close_closes_caller_stream. Partial in the sense of DESIGN §5 C19: the generator / refcount semantics "
        "is CPython's and is a stated rule of the model, checked by correspondence; the xlsxwriter backend is excluded."
    ),
    "trusted_base": [
        "CPython 3.12 generator protocol, `with` statement and reference counting (encoded as the combinators and the "
        "step function of lean/PdtModel/Model/Resource.lean; sampled by the correspondence run)",
        "/proc/self/fd as the observation of open descriptors",
    ],
}

SEP = ";"
FD_DIR = "/proc/self/fd"


class _Injected(Exception):
    """raised by the injected filter / tracker and thrown into generators"""


# --------------------------------------------------------------------------------------------- file building

# byte order marks a CSV file may start with: (mark, codec of the text that follows)
BOMS = {
    "utf-8": (b"\xef\xbb\xbf", "utf-8"),
    "utf-16-le": (b"\xff\xfe", "utf-16-le"), "utf-16-be": (b"\xfe\xff", "utf-16-be"),
    "utf-32-le": (b"\xff\xfe\x00\x00", "utf-32-le"), "utf-32-be": (b"\x00\x00\xfe\xff", "utf-32-be"),
}
# text cells of CSV files: characters str.splitlines() breaks at (file iteration does not), U+FEFF, astral characters
CSV_TEXTS = ["x", "a\x0bb", "a\x0cb", "a\x1cb", "a\x85b", "a\u2028b", "in\ufeffside", "\U0001F600", "\U0001D538\U00020000"]
# row / cell counts at and around powers of two (size ladder)
SIZE_LADDER = [63, 64, 127, 129, 255, 257, 1000, 1023, 1025, 2047, 2049, 4095, 4097, 8191, 8193, 20000]


def _block_rows(b, xlsx):
    num = (lambda v: float(v)) if xlsx else (lambda v: repr(float(v)))
    if "t" in b:
        rows = [["**" + b["t"]], ["all"], ["a", "b"], ["m", "text"]]
        pad = "p" * b.get("pad", 0)
        for i in range(b["rows"]):
            rows.append([num(i + 1), ("x%d" % i if xlsx else CSV_TEXTS[i % len(CSV_TEXTS)] + str(i)) + pad])
        if b.get("bad"):
            rows[-1][0] = "zz"
        return rows
    if "d" in b:
        return [["***" + b["d"]]] + [[ln] for ln in b["lines"]]
    if "m" in b:
        return [["author:", "me"], ["purpose:", "test"]]
    if "tpl" in b:
        return [[":template"]]
    if "note" in b:
        return [[None, "note"]]
    raise ValueError(b)


def _sheet_rows(sheet, xlsx):
    rows = []
    for b in sheet["blocks"]:
        rows.extend(_block_rows(b, xlsx))
        rows.append([])
    return rows


def _write_file(scratch, f):
    path = os.path.join(scratch, f["name"])
    if f["kind"] == "csv":
        rows = _sheet_rows(f["sheets"][0], False)
        text = "".join(SEP.join("" if c is None else str(c) for c in r) + "\n" for r in rows)
        mark, codec = BOMS[f["bom"]] if f.get("bom") else (b"", "utf-8")
        with open(path, "wb") as fh:
            fh.write(mark + text.encode(codec))
    else:
        import openpyxl
        wb = openpyxl.Workbook()
        wb.remove(wb.active)
        for sh in f["sheets"]:
            ws = wb.create_sheet(title=sh["name"])
            for r in _sheet_rows(sh, True):
                ws.append(r)
        wb.save(path)
        wb.close()
        if f.get("broken"):
            _break_workbook(path, f["broken"])
    return path


BROKEN_KINDS = ["notwb", "empty", "truncated", "badsheet"]


def _break_workbook(path, kind):
    """a file named .xlsx that openpyxl cannot (fully) read: a zip archive that is not a workbook, a zero-byte file, a
    workbook cut in the middle, a workbook whose first sheet part is not XML"""
    import zipfile
    if kind == "notwb":
        with zipfile.ZipFile(path, "w") as z:
            z.writestr("hello.txt", "not a workbook")
    elif kind == "empty":
        open(path, "wb").close()
    elif kind == "truncated":
        with open(path, "rb") as fh:
            data = fh.read()
        with open(path, "wb") as fh:
            fh.write(data[: len(data) // 2])
    elif kind == "badsheet":
        with zipfile.ZipFile(path) as z:
            members = [(i, z.read(i.filename)) for i in z.infolist()]
        with zipfile.ZipFile(path, "w", zipfile.ZIP_DEFLATED) as z:
            for i, data in members:
                if i.filename == "xl/worksheets/sheet1.xml":
                    data = b"<worksheet><sheetData><row><c></row"
                z.writestr(i.filename, data)
    else:
        raise ValueError(kind)


class _Rows:
    def __init__(self, rows):
        self.rows = rows
        self.exhausted = False

    def __iter__(self):
        for r in self.rows:
            yield r
        self.exhausted = True


def _reference_blocks(path, kind):
    """per sheet: [(block type name, name, produced after the rows were exhausted)] — the segmentation of the file
    by pdtable's own splitter over rows the harness read itself (to='cellgrid' never fails on cell content)."""
    from pdtable.io.parsers.blocks import parse_blocks
    sheets = []
    if kind == "csv":
        try:
            with open(path) as fh:
                sheets.append(("", [ln.rstrip("\n").split(SEP) for ln in fh]))
        except UnicodeDecodeError:
            # a UTF-16 / UTF-32 file under the platform default codec: read_csv opens it and the first pull of a line
            # raises — one failing production with the file in scope
            return [("", [("DECODE_ERROR", "", False)])]
    else:
        import openpyxl
        with open(path, "rb") as fh:          # (opened here: a failing load_workbook(path) would keep the file open)
            try:
                wb = openpyxl.load_workbook(fh, read_only=True, data_only=True, keep_links=False)
            except Exception:                 # noqa — not a workbook: reading it fails before any sheet is handed out
                return "OPEN_ERROR"
            try:
                for ws in wb.worksheets:
                    try:
                        sheets.append((ws.title, list(ws.iter_rows(values_only=True))))
                    except Exception:         # noqa — a damaged sheet part: the first pull of a row raises
                        sheets.append((ws.title, None))
            finally:
                wb.close()
    out = []
    for title, rows in sheets:
        if rows is None:
            out.append((title, [("DECODE_ERROR", "", False)]))
            continue
        src = _Rows(rows)
        seq = []
        for bt, blk in parse_blocks(src, to="cellgrid"):
            c0 = blk[0][0] if isinstance(blk, list) and blk and blk[0] else None
            name = ""
            if isinstance(c0, str) and c0.startswith("**"):
                name = c0.lstrip("*").strip()
            elif isinstance(getattr(blk, "name", None), str):
                name = blk.name                      # Directive objects (only TABLE is a cell grid in this mode)
            seq.append((bt.name, name, src.exhausted))
        out.append((title, seq))
    return out


# --------------------------------------------------------------------------------------------- scenarios

READER_APIS = ["read_csv:path", "read_csv:file", "read_csv:stringio",
               "read_excel:path", "read_excel:file", "read_excel:bytesio", "load_files"]
INJECTS = ["none", "cell", "tracker_raise", "tracker_collect", "filter_raise", "filter_drop"]
TERMINALS = ["exhaust", "close", "drop", "throw"]
# sheet_name_pattern of read_excel / load_files against sheets named keep<i> / skip<i>
PAT_MODES = {"nopattern": None, "all": "keep|skip", "some": "keep", "none": "zzz"}
PAT_ORDER = ["some", "nopattern", "all", "none"]


def _sheet_is_read(pattern, f, title):
    """does read_excel hand this sheet to the block parser?  (`sheet_name_pattern.match`; CSV files have no sheets)"""
    return f["kind"] != "xlsx" or not pattern or re.compile(pattern).match(title) is not None


def _gen_blocks(rng, names, allow_include=None):
    n_tab = rng.choice([1, 2, 2, 3, 3, 4])
    blocks = []
    if rng.random() < 0.25:
        blocks.append({"m": 1})
    for _ in range(n_tab):
        blocks.append({"t": names.pop(0), "rows": rng.choice([1, 2, 3])})
        r = rng.random()
        if r < 0.15:
            blocks.append({"d": "foo", "lines": ["bar"]})
        elif r < 0.25:
            blocks.append({"tpl": 1})
    if allow_include and rng.random() < 0.8:
        blocks.insert(rng.randrange(len(blocks) + 1), {"d": "include", "lines": [allow_include]})
    if rng.random() < 0.35:
        blocks.append({"note": 1})
    return blocks


GAP_KINDS = ["missing", "dup", "txt", "loaderror"]


def gen_scenario(rng, api, inject, pat_mode=None, gapkind=None, host_empty=None, bom=None, big_rows=None,
                 broken=None, big_bytes=None, suffix=None):
    """gapkind (load_files only): the k-th include names a file that does not exist / that was already read / with
    an unsupported extension / that the loader refuses (LoadError): the failure is raised by queued_load between
    two files, not while a block is produced"""
    names = ["t%d" % i for i in range(40)]
    files = []
    kind = "csv" if api.startswith("read_csv") else "xlsx" if api.startswith("read_excel") else None

    def mkfile(k, name, include=None):
        if k == "csv":
            sheets = [{"name": "", "blocks": _gen_blocks(rng, names, include)}]
            f = {"id": len(files), "name": name, "kind": k, "sheets": sheets}
            if bom and (api in ("read_csv:path", "load_files") or bom == "utf-8"):
                f["bom"] = bom          # (a caller's text stream is decoded by the caller: only the UTF-8 mark there)
            return f
        else:
            ns = rng.choice([1, 1, 2, 3])
            sheets = []
            for i in range(ns):
                blocks = _gen_blocks(rng, names, include if i == 0 else None)
                if rng.random() < 0.12:
                    blocks = []                       # empty sheet
                sheets.append({"name": ("keep%d" if rng.random() < 0.75 else "skip%d") % i, "blocks": blocks})
            if all(s["name"].startswith("skip") for s in sheets) and (api != "load_files" or rng.random() < 0.5):
                sheets[0]["name"] = "keep0"           # (load_files: a workbook none of whose sheets match may stay)
        return {"id": len(files), "name": name, "kind": k, "sheets": sheets}

    roots = []
    if api == "load_files":
        n_roots = rng.choice([1, 2, 2, 3])
        for i in range(n_roots):
            k = rng.choice(["csv", "xlsx"])
            inc = None
            if rng.random() < 0.4:
                inc = "inc%d.%s" % (i, rng.choice(["csv", "xlsx"]))
            f = mkfile(k, "root%d.%s" % (i, k), inc)
            files.append(f)
            roots.append(f["id"])
            if inc:
                files.append(mkfile(inc.rsplit(".", 1)[1], inc))
    else:
        files.append(mkfile(kind, "f0." + kind))
    # sheet-name pattern matching none / some / all sheets, or no pattern (read_excel and load_files)
    if api.startswith("read_csv"):
        pat_mode = "nopattern"
    elif pat_mode is None:
        pat_mode = rng.choice(PAT_ORDER)
    pattern = PAT_MODES[pat_mode]
    # the target table of the injection: one that is actually read
    target = None
    if inject != "none" and not (gapkind and api == "load_files"):      # (gap scenarios vary the tracker only)
        cands = []
        for f in files:
            for sh in f["sheets"]:
                if not _sheet_is_read(pattern, f, sh["name"]):
                    continue
                cands += [b["t"] for b in sh["blocks"] if "t" in b]
        if cands:
            target = rng.choice(cands)
            if inject in ("cell", "tracker_raise", "tracker_collect"):
                for f in files:
                    for sh in f["sheets"]:
                        for b in sh["blocks"]:
                            if b.get("t") == target:
                                b["bad"] = True
        else:
            inject = "none"
    extra_files = {}
    if gapkind and api == "load_files":
        host = files[rng.choice(roots)]
        tgt = {"missing": "nofile." + rng.choice(["csv", "xlsx"]), "dup": host["name"], "txt": "notes.txt",
               "loaderror": "\\x.csv"}[gapkind]
        if gapkind == "txt":
            extra_files["notes.txt"] = "not a table file\n"
        if host_empty is None:
            host_empty = rng.random() < 0.3
        if host_empty:
            # the including file delivers nothing itself: the failure comes after a file boundary without a block
            host["sheets"] = [{"name": "keep0", "blocks": []}]
        blocks = host["sheets"][0]["blocks"]
        blocks.insert(rng.randrange(len(blocks) + 1), {"d": "include", "lines": [tgt], "gap": gapkind})
    if broken:
        # a workbook that cannot be opened / read: the single source of read_excel, or (load_files) a root or an include
        xl = [f for f in files if f["kind"] == "xlsx"]
        if api == "load_files" and not xl:
            host = files[rng.choice(roots)]
            f = mkfile("xlsx", "broken.xlsx")
            files.append(f)
            blocks = host["sheets"][0]["blocks"]
            blocks.insert(rng.randrange(len(blocks) + 1), {"d": "include", "lines": ["broken.xlsx"]})
            xl = [f]
        if xl:
            rng.choice(xl)["broken"] = broken
    if big_rows or big_bytes:
        # one table of the first file that is read gets a row count from the size ladder / makes the file that many
        # bytes long (wide text cells keep the row count affordable)
        tabs = [b for f in files for sh in f["sheets"] for b in sh["blocks"]
                if "t" in b and _sheet_is_read(pattern, f, sh["name"])]
        if tabs and big_bytes:
            tabs[0]["pad"] = 240
            tabs[0]["rows"] = big_bytes // 250 + 1
        elif tabs:
            tabs[0]["rows"] = big_rows
    # spelling of the file-name suffix: names that differ only in letter case are different names; FileReader and
    # the folder pattern of load_files ignore the case of the suffix, read_excel / read_csv take any name
    for f in files:
        spell = suffix if suffix is not None else rng.choice(
            ["lower", "lower", "lower", "UPPER", "Title"] + (["xlsm"] if api.startswith("read_excel") else []))
        stem, ext = f["name"].rsplit(".", 1)
        new = {"lower": ext, "UPPER": ext.upper(), "Title": ext.title(), "xlsm": "xlsm" if ext == "xlsx" and
               api.startswith("read_excel") else ext}[spell]
        if new != ext:
            old_name, f["name"] = f["name"], stem + "." + new
            for g in files:
                for sh in g["sheets"]:
                    for b in sh["blocks"]:
                        if b.get("d") == "include":
                            b["lines"] = [f["name"] if ln == old_name else ln for ln in b["lines"]]
    has_include = any(b.get("d") == "include" for f in files for sh in f["sheets"] for b in sh["blocks"])
    folder = api == "load_files" and not has_include and rng.random() < 0.5
    return {"api": api, "inject": inject, "target": target, "files": files, "roots": roots, "pattern": pattern,
            "pat_mode": pat_mode, "gapkind": gapkind if api == "load_files" else None, "extra_files": extra_files,
            "str_path": rng.random() < 0.5, "folder": folder}


_OPEN_LOG = None          # while a list: every path given to open() in this process is appended (audit hook)


def _audit(event, args):
    if _OPEN_LOG is not None and event == "open" and args and isinstance(args[0], (str, bytes, os.PathLike)):
        _OPEN_LOG.append(os.fsdecode(args[0]))


sys.addaudithook(_audit)


def _observed_folder_order(sc, scratch):
    """C19 promises nothing about the ORDER in which the independent files of a folder are read (the statement is
    per file).  The order is therefore observed — a dry run of the same call to its end, recording the first open()
    of every file — and handed to the model; files the dry run never reached (it ended in an error) follow by name."""
    global _OPEN_LOG
    by_path = {os.path.realpath(os.path.join(scratch, f["name"])): f for f in sc["files"]}
    paths = {f["id"]: os.path.join(scratch, f["name"]) for f in sc["files"]}
    obs = Observer(scratch, paths)
    seen, _OPEN_LOG = [], []
    try:
        with warnings.catch_warnings():
            warnings.simplefilter("ignore")
            g, _ = make_reader(sc, paths, obs)
            try:
                for _ in g:
                    pass
            except Exception:          # noqa — the dry run may end in the injected error
                pass
            g = None
        for q in _OPEN_LOG:
            f = by_path.get(os.path.realpath(q))
            if f is not None and f not in seen:
                seen.append(f)
    finally:
        _OPEN_LOG = None
    rest = sorted((f for f in sc["files"] if f not in seen), key=lambda f: f["name"])
    return seen + rest


def _read_order(sc, scratch=None):
    """load_files: the order in which queued_load pops the work list (LIFO; includes are pushed while reading).
    For a folder root the order of its files is the observed one."""
    by_name = {f["name"]: f for f in sc["files"]}
    if sc.get("folder"):
        return _observed_folder_order(sc, scratch)
    else:
        stack = [sc["files"][i] for i in sc["roots"]]
    order = []
    while stack:
        f = stack.pop()
        order.append(f)
        if "gap" in f:
            continue
        for sh in f["sheets"]:
            if not _sheet_is_read(sc.get("pattern"), f, sh["name"]):
                continue                               # an include directive in a sheet that is not read is not seen
            for b in sh["blocks"]:
                if b.get("d") == "include":
                    for ln in b["lines"]:
                        stack.append({"gap": b["gap"]} if b.get("gap") else by_name[ln])
    return order


def build_model_prog(sc, refs, scratch=None):
    """the program shape sent to the Lean model + (number of delivered blocks, index of the failing delivery)"""
    inject, target, pattern = sc["inject"], sc["target"], sc["pattern"]
    raising = inject in ("cell", "tracker_raise", "filter_raise")
    skipping = inject in ("tracker_collect", "filter_drop")
    state = {"delivered": 0, "fail_at": None, "gap": None}

    def file_points(f, is_load):
        """per sheet: list of (kept, after_exhaustion) for the blocks that are produced; None: the workbook cannot be
        opened (load_workbook raises)"""
        if refs[f["id"]] == "OPEN_ERROR":
            return None
        sheets = []
        for (title, seq) in refs[f["id"]]:
            read = _sheet_is_read(pattern, f, title)
            pts = []
            if read:
                for (bt, name, post) in seq:
                    if bt == "DECODE_ERROR":
                        if state["fail_at"] is None:
                            state["fail_at"] = state["delivered"]
                        state["delivered"] += 1
                        pts.append((True, post))
                        continue
                    is_target = bt == "TABLE" and name == target
                    if is_target and skipping:
                        continue
                    keep = not (is_load and bt == "DIRECTIVE" and name == "include")
                    if is_target and raising and state["fail_at"] is None:
                        state["fail_at"] = state["delivered"]
                    if keep:
                        state["delivered"] += 1
                    pts.append((keep, post))
            sheets.append((read, pts))
        return sheets

    def sheet_json(read, pts):
        return {"read": read, "pre": sum(1 for _, post in pts if not post), "post": sum(1 for _, post in pts if post)}

    api = sc["api"]
    if api == "load_files":
        fl = [{"kind": "folder"}] if sc.get("folder") else []
        gaps_since_delivery = len(fl)
        for f in _read_order(sc, scratch):
            if "gap" in f:
                if f["gap"] == "dup" and inject == "tracker_collect":
                    continue                  # the tracker swallows the duplicate: the item is skipped, nothing raised
                # the item raises when it is popped: between two files, at the gap in front of this entry
                state["gap"] = (state["delivered"], gaps_since_delivery)
                fl.append({"kind": "folder"})
                break
            before = state["delivered"]
            sheets = file_points(f, True)
            if sheets is None:
                # the file boundary is passed, the file is opened, loading the workbook raises: the gap after it
                state["gap"] = (state["delivered"], gaps_since_delivery + 1)
                fl.append({"kind": "xlsx", "f": f["id"], "sheets": [], "keep": []})
                break
            # gaps a failing `next` passes on its way: the file boundary and, for a workbook, the loading of it
            n_gaps = 2 if f["kind"] == "xlsx" else 1
            gaps_since_delivery = 0 if state["delivered"] > before else gaps_since_delivery + n_gaps
            keep = [k for _, pts in sheets for k, _ in pts]
            if f["kind"] == "csv":
                fl.append({"kind": "csv", "f": f["id"], "n": len(keep), "keep": keep})
            else:
                fl.append({"kind": "xlsx", "f": f["id"], "sheets": [sheet_json(r, p) for r, p in sheets], "keep": keep})
        prog = {"fn": "load_files", "files": fl}
    else:
        f = sc["files"][0]
        sheets = file_points(f, False)
        src = {"path": f["id"]} if api.endswith(":path") else {"stream": 0}
        if sheets is None:
            state["gap"] = (0, 0)               # read_excel of something that is not a workbook: the first next raises
            sheets = []
        if api.startswith("read_csv"):
            prog = {"fn": "read_csv", "src": src, "n": len(sheets[0][1])}
        else:
            prog = {"fn": "read_excel", "src": src, "sheets": [sheet_json(r, p) for r, p in sheets]}
    return prog, state["delivered"], state["fail_at"], state["gap"]


def gen_histories(total, fail_at, rng, full, gap=None):
    """every prefix length x every way of ending the consumption; a `next` that is known to fail is `throwInBlock`
    (the block being produced fails) or `throwInGap:<skip>` (queued_load fails between two files, after passing
    <skip> file boundaries without a block)"""
    reach = total if fail_at is None else fail_at
    if gap is not None and (fail_at is None or gap[0] <= fail_at):
        reach, fail_at = gap[0], None
    else:
        gap = None
    hs = []
    ks = list(range(0, reach + 2))
    if not full and len(ks) > 7:
        ks = sorted(set([0, 1, reach, reach + 1] + rng.sample(ks, 3)))
    for k in ks:
        for term in TERMINALS:
            h, delivered, alive, exc = [], 0, True, False

            def do_next():
                nonlocal delivered, alive, exc
                if not alive:
                    h.append("next")
                elif fail_at is not None and delivered == fail_at:
                    h.append("throwInBlock"); alive = False; exc = True
                elif gap is not None and delivered == gap[0]:
                    h.append("throwInGap:%d" % gap[1]); alive = False; exc = True
                elif delivered == total:
                    h.append("next"); alive = False
                else:
                    h.append("next"); delivered += 1
            for _ in range(k):
                do_next()
            if term == "exhaust":
                guard = 0
                while alive and guard < total + 3:
                    do_next(); guard += 1
            elif term == "throw":
                h.append("throw"); alive = False; exc = True
            else:
                h.append(term); alive = False
            if exc:
                h.append("releaseExc")
            # a few actions after the end: the finished iterator stays finished
            extra = rng.choice([[], [], ["next"], ["close"], ["next", "close"]])
            if term != "drop":
                h += extra
            hs.append((k, term, h))
    return hs


# --------------------------------------------------------------------------------------------- observation

def _library_warning(msg):
    """a ResourceWarning about a file object left to the deallocator — wherever the file is; the harness closes its own
    streams explicitly, openpyxl's own per-sheet scratch files are not pdtable's"""
    return "unclosed" in msg and os.path.join(tempfile.gettempdir(), "openpyxl.") not in msg


class Observer:
    """descriptors of this process that were not there before the call and are not the harness' own streams: every
    entry of /proc/self/fd is looked at, not only those pointing into the scratch directory"""

    def __init__(self, scratch, paths):
        self.scratch = os.path.realpath(scratch)
        self.ids = {os.path.realpath(p): i for i, p in paths.items()}
        self.own = set()
        self.tmp_openpyxl = os.path.join(tempfile.gettempdir(), "openpyxl.")
        self.base = self._table()

    @staticmethod
    def _table():
        tab = {}
        try:
            names = os.listdir(FD_DIR)
        except OSError:
            return tab
        for n in names:
            try:
                tab[int(n)] = os.readlink(os.path.join(FD_DIR, n))
            except (OSError, ValueError):
                continue
        return tab

    def fds(self):
        res = set()
        for fd, t in self._table().items():
            if fd in self.own or self.base.get(fd) == t:
                continue
            if t.startswith("/proc/"):
                continue                              # the listing of /proc/self/fd itself
            if t.startswith(self.tmp_openpyxl):
                continue                              # openpyxl's own per-sheet scratch files (see EXTRA assumptions)
            if t.startswith(self.scratch + os.sep):
                res.add(self.ids.get(t, t))
            else:
                res.add("outside-scratch:" + t)
        return sorted(res, key=str)


def _trackers():
    from pdtable.table_origin import InputIssueTracker

    class Raising(InputIssueTracker):
        def add_issue(self, input_issue):
            if input_issue.severity >= logging.ERROR:
                raise _Injected(str(input_issue))

        @property
        def is_ok(self):
            return True

        @property
        def issues(self):
            return ()

    class Collecting(InputIssueTracker):
        def __init__(self):
            self.got = []

        def add_issue(self, input_issue):
            self.got.append(input_issue)

        def __len__(self):                     # falsy while empty: `if issue_tracker:` must not be how it is tested
            return len(self.got)

        @property
        def is_ok(self):
            return not self.got

        @property
        def issues(self):
            return tuple(self.got)

    return Raising, Collecting


def make_reader(sc, paths, obs):
    """returns (generator, caller stream or None)"""
    from pdtable import read_csv, read_excel
    from pdtable.io.load import load_files
    api, inject, target = sc["api"], sc["inject"], sc["target"]
    Raising, Collecting = _trackers()
    kw = {}
    if inject == "tracker_raise":
        kw["issue_tracker"] = Raising()
    elif inject == "tracker_collect":
        kw["issue_tracker"] = Collecting()
    elif inject == "filter_raise":
        def flt(bt, name):
            if name == target:
                raise _Injected("filter")
            return True
        kw["filter"] = flt
    elif inject == "filter_drop":
        kw["filter"] = lambda bt, name: name != target
    stream = None
    if api == "load_files":
        if sc["pattern"]:
            kw["sheet_name_pattern"] = re.compile(sc["pattern"])
        if sc.get("folder"):
            return load_files([obs.scratch], **kw), None
        return load_files([paths[i] for i in sc["roots"]], **kw), None
    p = paths[0]
    mode = api.split(":")[1]
    if api.startswith("read_csv"):
        if mode == "path":
            src = p if sc.get("str_path", True) else __import__("pathlib").Path(p)
        elif mode == "file":
            src = stream = open(p)
            obs.own.add(stream.fileno())
        else:
            with open(p) as fh:
                src = stream = io.StringIO(fh.read())
        if not sc.get("str_path", True):
            return read_csv(src, SEP, **kw), stream          # the separator given positionally
        return read_csv(src, **kw), stream
    if mode == "path":
        src = p
    elif mode == "file":
        src = stream = open(p, "rb")
        obs.own.add(stream.fileno())
    else:
        with open(p, "rb") as fh:
            src = stream = io.BytesIO(fh.read())
    if sc["pattern"]:
        kw["sheet_name_pattern"] = re.compile(sc["pattern"])
    return read_excel(src, **kw), stream


def run_reader_history(sc, paths, scratch, history):
    """executes one history on the real code; returns (states, resource warnings)"""
    obs = Observer(scratch, paths)
    states = []
    with warnings.catch_warnings(record=True) as wlog:
        warnings.simplefilter("always")
        g, stream = make_reader(sc, paths, obs)
        held = []                          # every exception the consumer caught and still holds
        try:
            for a in history:
                out = "none"
                if a in ("next", "throwInBlock") or a.startswith("throwInGap"):
                    try:
                        if g is None:
                            raise StopIteration
                        next(g)
                        out = "yielded"
                    except StopIteration:
                        out = "stopped"
                    except Exception as e:          # noqa — whatever the library lets through
                        held.append(e)
                        out = "raised"
                elif a == "close":
                    g.close()
                elif a == "drop":
                    g = None
                elif a == "throw":
                    try:
                        g.throw(_Injected("thrown by the consumer"))
                        out = "yielded"
                    except StopIteration:
                        out = "stopped"
                    except Exception as e:          # noqa
                        held.append(e)
                        out = "raised"
                elif a == "releaseExc":
                    held.clear()
                states.append({"out": out, "fds": obs.fds(),
                               "callerClosed": [0] if (stream is not None and stream.closed) else []})
        finally:
            held.clear()
            g = None
            if stream is not None:
                stream.close()
        rw = [str(w.message) for w in wlog
              if issubclass(w.category, ResourceWarning) and _library_warning(str(w.message))]
    return states, rw


# --------------------------------------------------------------------------------------------- writers

def _good_table(name):
    import pandas as pd
    from pdtable import Table
    return Table(pd.DataFrame({"a": [1.0, 2.0], "b": ["x", "y"]}), name=name, units=["m", "text"])


def _big_table(name, cells):
    """a table with at least `cells` value cells (8 numeric columns)"""
    import numpy as np
    import pandas as pd
    from pdtable import Table
    rows = -(-cells // 8)
    data = np.arange(rows * 8, dtype=float).reshape(rows, 8)
    return Table(pd.DataFrame(data, columns=["c%d" % i for i in range(8)]), name=name, units=["m"] * 8)


# numbers of value cells of a workbook / file around powers of two (size ladder; 65536 = 2**16)
CELL_LADDER = [1000, 1025, 4097, 8193, 16385, 65535, 65536, 65537, 131073]

SAVE_HOWS = ("save_tz", "save_patched")    # write_excel: every table is accepted, serialising the workbook fails


def _bad_table(api, how, variant=0):
    import pandas as pd
    from pdtable import Table
    from pdtable.table_metadata import ColumnFormat
    if how == "not_a_table":
        return object()
    if how == "save_tz":
        # accepted by ws.append; openpyxl converts the cell only in wb.save: "Excel does not support timezones"
        import datetime as _dt
        tz = [_dt.timezone.utc, _dt.timezone(_dt.timedelta(hours=-3, minutes=-30)),
              _dt.timezone(_dt.timedelta(hours=5, minutes=45))][variant % 3]
        stamps = pd.to_datetime(["2020-01-01 12:30:15.250", "1999-12-31 23:59:59.999999"]).tz_localize(tz)
        return Table(pd.DataFrame({"t": stamps}), name="tz", units=["datetime"])
    if how == "save_patched":
        return _good_table("ok")
    if api == "write_csv":
        t = _good_table("bad")
        t.column_metadata["a"].display_format = ColumnFormat("d")     # '{:d}'.format(1.0) raises ValueError
        return t
    # openpyxl refuses control characters in a cell: IllegalCharacterError from ws.append
    return Table(pd.DataFrame({"a": [1.0], "b": ["x\x01y"]}), name="bad", units=["m", "text"])


def run_writer(api, dst_mode, n, fail_at, how, scratch, cells=None):
    """returns (states per requested table + final state, resource warnings, raised?).  `cells`: the first table that
    is not the failing one is a big one with at least that many value cells."""
    from pdtable import write_csv, write_excel
    path = os.path.join(scratch, "out." + ("csv" if api == "write_csv" else "xlsx"))
    obs = Observer(scratch, {0: path})
    states = []
    with warnings.catch_warnings(record=True) as wlog:
        warnings.simplefilter("always")
        tables = [_good_table("t%d" % i) for i in range(n)]
        if fail_at is not None:
            tables[fail_at] = _bad_table(api, how, variant=n + fail_at)
        if cells:
            big_at = next(i for i in range(n) if i != fail_at)
            tables[big_at] = _big_table("big", cells)
        stream = None
        if dst_mode == "path":
            dst = path
        elif dst_mode == "pathlike":
            dst = __import__("pathlib").Path(path)
        elif dst_mode == "file":
            dst = stream = open(path, "w" if api == "write_csv" else "wb")
            obs.own.add(stream.fileno())
        else:
            dst = stream = io.StringIO() if api == "write_csv" else io.BytesIO()

        def snap(out):
            states.append({"out": out, "fds": obs.fds(),
                           "callerClosed": [0] if (stream is not None and stream.closed) else []})

        def feed():
            for i, t in enumerate(tables):
                if i != fail_at or how in SAVE_HOWS:
                    snap("yielded")          # the writer asks for table i: the state in which it is serialised
                yield t
        held = None
        unpatch = None
        if how == "save_patched":
            # a failure inside openpyxl's save after the archive was opened (patched in this process only)
            import openpyxl.writer.excel as _xw
            orig_write_data = _xw.ExcelWriter.write_data

            def failing_write_data(self):
                self._archive.writestr("partial.txt", "x")
                raise _Injected("inside wb.save")
            _xw.ExcelWriter.write_data = failing_write_data
            unpatch = lambda: setattr(_xw.ExcelWriter, "write_data", orig_write_data)   # noqa: E731
        try:
            try:
                if api == "write_csv":
                    write_csv(feed(), dst)
                elif api == "write_excel_xlsxwriter":
                    from pdtable.io.excel import ExcelWriteBackend
                    write_excel(feed(), dst, backend=ExcelWriteBackend.XLSXWRITER)
                else:
                    write_excel(feed(), dst)
                snap("stopped")
            except Exception as e:           # noqa
                held = e
                snap("raised")
            snap("none")                     # exception still held: nothing may change
            held = None
            snap("none")
        finally:
            held = None
            if unpatch:
                unpatch()
            if stream is not None:
                stream.close()
        rw = [str(w.message) for w in wlog
              if issubclass(w.category, ResourceWarning) and _library_warning(str(w.message))]
    try:
        os.remove(path)
    except OSError:
        pass
    return states, rw


def writer_history(n, fail_at, how="-"):
    """the writer's run as machine actions; after the end: one neutral action while the exception is still held
    (`close` on a finished run changes nothing), then its release"""
    tail = ["close", "releaseExc"]
    if how in SAVE_HOWS:
        return ["next"] * n + ["throwInGap:0"] + tail
    if fail_at is None:
        return ["next"] * (n + 1) + tail
    return ["next"] * fail_at + ["throwInBlock"] + tail


# --------------------------------------------------------------------------------------------- oracle

def oracle_reader(sc, k, term, history, states, rw, out, case):
    """the C19 statement on the observations of one history (no use of the model)"""
    api = sc["api"]
    ended = False
    for i, (a, st) in enumerate(zip(history, states)):
        if st["callerClosed"]:
            out.fail("the library closed a stream supplied by the caller", case, {"after_action": i, "action": a,
                     "state": st}, "stream.closed is False", key="C19:caller-stream-closed:" + api.split(":")[0])
            return False
        if a in ("close", "drop") or st["out"] in ("stopped", "raised"):
            ended = True
        if ended and st["fds"]:
            later = [s["fds"] for s in states[i + 1:]]
            released_clean = any(h == "releaseExc" for h in history[i + 1:]) and later and not later[-1]
            xlsx = any(f["kind"] == "xlsx" for f in sc["files"])
            if st["out"] == "raised" and a.startswith("throwInGap") and any(f.get("broken") for f in sc["files"]):
                key = "C19:read_excel-fd-open-after-failed-open"
            elif st["out"] == "raised" and released_clean and xlsx:
                key = "C19:xlsx-fd-held-by-traceback-after-error"
            elif st["out"] == "raised":
                key = "C19:fd-open-after-error:" + api.split(":")[0]
            else:
                key = "C19:fd-open-after-%s:%s" % (a if a in ("close", "drop") else "exhaustion", api.split(":")[0])
            out.fail("a descriptor the library opened is still open after the iterator " +
                     {"raised": "raised (exception still held by the caller)", "stopped": "was exhausted"}.get(
                         st["out"], "was %s" % ("closed" if a == "close" else "dropped" if a == "drop" else "finished")),
                     case, {"after_action": i, "action": a, "open_descriptors_of_files": st["fds"], "states": states},
                     "no descriptor into the scratch directory", key=key)
            return False
    if rw:
        out.fail("a file the library opened was left to the deallocator (ResourceWarning)", case,
                 {"warnings": rw[:3]}, "no ResourceWarning", key="C19:resource-warning:" + api.split(":")[0])
        return False
    return True


def oracle_writer(api, states, rw, out, case):
    for i, st in enumerate(states):
        if st["callerClosed"]:
            out.fail("the writer closed the stream supplied by the caller", case, {"state_index": i, "state": st},
                     "stream.closed is False", key="C19:caller-stream-closed:" + api)
            return False
    for st in states[-3:]:
        if st["fds"]:
            out.fail("the writer left the file it created open" + (" after a table failed to serialise"
                     if states[-3]["out"] == "raised" else ""), case, {"states": states[-3:]},
                     "no descriptor into the scratch directory",
                     key="C19:write_excel-fd-open-after-save-failure" if case.get("how") in SAVE_HOWS
                     else "C19:fd-open-after-write:" + api)
            return False
    if rw:
        out.fail("a file the writer opened was left to the deallocator (ResourceWarning)", case, {"warnings": rw[:3]},
                 "no ResourceWarning", key="C19:resource-warning:" + api)
        return False
    return True


# --------------------------------------------------------------------------------------------- run

def _compare(states, model, out, what, case):
    if not isinstance(model, dict) or "states" not in model:
        out.mismatch("driver error: " + what, case, None, model)
        return
    if not model.get("wf"):
        out.mismatch(what + ": the model's trace of this program is not well-formed", case, None, {"wf": model.get("wf")})
        return
    ms = model["states"]
    impl = [{"out": s["out"], "fds": s["fds"], "callerClosed": s["callerClosed"]} for s in states]
    mod = [{"out": s["out"], "fds": sorted(s["fds"]), "callerClosed": s["callerClosed"]} for s in ms]
    if any(s["bad"] for s in ms):
        out.mismatch(what + ": the model closed a handle that was not open", case, impl, ms)
    elif impl != mod:
        first = next((i for i, (a, b) in enumerate(zip(impl, mod)) if a != b), min(len(impl), len(mod)))
        out.mismatch(what + ": real code vs Lean machine differ at action %d" % first, case, impl, mod)


def _scenario_case(sc, k, term, history):
    return {"kind": "reader", "api": sc["api"], "inject": sc["inject"], "target": sc["target"],
            "pattern": sc["pattern"], "pat_mode": sc.get("pat_mode"), "roots": sc["roots"], "files": sc["files"], "str_path": sc.get("str_path", True),
            "folder": sc.get("folder", False), "gapkind": sc.get("gapkind"), "extra_files": sc.get("extra_files") or {},
            "prefix": k, "end": term,
            "history": history}


def run_scenario(sc, rng, full, out, ops, pend, model_ok):
    scratch = tempfile.mkdtemp(prefix="c19-")
    try:
        paths = {f["id"]: _write_file(scratch, f) for f in sc["files"]}
        refs = {f["id"]: _reference_blocks(paths[f["id"]], f["kind"]) for f in sc["files"]}
        for name, text in (sc.get("extra_files") or {}).items():
            with open(os.path.join(scratch, name), "w") as fh:
                fh.write(text)
        prog, total, fail_at, gap = build_model_prog(sc, refs, scratch)
        if sc.get("gapkind"):
            out.count("load_files:gap:%s:%s" % (sc["gapkind"], "raises" if gap else "swallowed_by_tracker"))
        if sc.get("folder"):
            out.count("load_files:folder_root")
        if any(b.get("d") == "include" for f in sc["files"] for sh in f["sheets"] for b in sh["blocks"]):
            out.count("load_files:include_directive" if sc["api"] == "load_files" else "include_directive_not_followed")
        for f in sc["files"]:
            if refs[f["id"]] == "OPEN_ERROR":
                continue
            for title, seq in refs[f["id"]]:
                if f["kind"] == "xlsx":
                    out.count("xlsx_sheet:" + ("skipped" if not _sheet_is_read(sc["pattern"], f, title)
                                               else "empty" if not seq else "last_block_after_rows_exhausted"
                                               if seq[-1][2] else "all_blocks_before_rows_exhausted"))
        out.count("api:" + sc["api"])
        out.count("inject:" + sc["inject"])
        if not sc["api"].startswith("read_csv"):
            out.count("sheet_pattern:%s:%s" % (sc["api"].split(":")[0], sc.get("pat_mode")))
        out.count("blocks:%d" % min(total, 9))
        for k, term, history in gen_histories(total, fail_at, rng, full, gap):
            case = _scenario_case(sc, k, term, history)
            states, rw = run_reader_history(sc, paths, scratch, history)
            ok = oracle_reader(sc, k, term, history, states, rw, out, case)
            out.case({"api": sc["api"], "inject": sc["inject"], "prog": prog, "history": history},
                     nontrivial=total >= 2)
            out.count("end:" + term)
            for s in states:
                out.count("outcome:" + s["out"])
            if any(s["fds"] for s in states):
                out.count("histories_with_open_descriptor_midway")
            if not ok:
                gc.collect()
            if model_ok:
                ops.append({"op": "resource", "prog": prog, "history": history})
                pend.append(("reader " + sc["api"], case, states))
    finally:
        with warnings.catch_warnings():
            warnings.simplefilter("ignore")
            gc.collect()
        shutil.rmtree(scratch, ignore_errors=True)


def _xlsxwriter_available():
    try:
        import xlsxwriter  # noqa: F401
        return True
    except Exception:       # noqa
        return False


def run_writers(rng, full, out, ops, pend, model_ok):
    scratch = tempfile.mkdtemp(prefix="c19w-")
    try:
        if _xlsxwriter_available():
            # oracle only: when xlsxwriter opens its target is not known to the model (Props: xlsxwriter_* theorems)
            for dst_mode in ("path", "file"):
                for n in (1, 3):
                    for fail_at in [None] + list(range(n)):
                        case = {"kind": "writer", "api": "write_excel_xlsxwriter", "dst": dst_mode, "n": n,
                                "fail_at": fail_at, "how": "not_a_table" if fail_at is not None else "-"}
                        states, rw = run_writer("write_excel_xlsxwriter", dst_mode, n, fail_at, case["how"], scratch)
                        oracle_writer("write_excel_xlsxwriter", states, rw, out, case)
                        out.case(case, nontrivial=n >= 2 and fail_at is not None)
                        out.count("api:write_excel_xlsxwriter:" + dst_mode)
        else:
            out.count("write_excel_xlsxwriter:NOT_EXERCISED_module_not_installed")
            out.notes.append("write_excel(backend=XLSXWRITER) was not exercised: the xlsxwriter module is not installed "
                             "(and no wheel is available offline); its row of the frame table is pinned and excluded "
                             "from EnclosedByWith; see writer_closes_on_failure_partial and the xlsxwriter_* theorems")
        for api in ("write_csv", "write_excel"):
            for dst_mode in ("path", "pathlike", "file", "memory"):
                ns = [0, 1, 2, 3, 4] if full else [0, 1, 3]
                for n in ns:
                    for fail_at in [None] + list(range(n)):
                        hows = ["format", "not_a_table"] if fail_at is not None else ["-"]
                        if api == "write_excel":
                            hows = hows + (["save_tz"] if fail_at is not None else ["save_patched"])
                        for how in hows:
                            case = {"kind": "writer", "api": api, "dst": dst_mode, "n": n, "fail_at": fail_at, "how": how}
                            states, rw = run_writer(api, dst_mode, n, fail_at, how, scratch)
                            oracle_writer(api, states, rw, out, case)
                            out.case(case, nontrivial=n >= 2 and (fail_at is not None or how in SAVE_HOWS))
                            out.count("api:" + api + ":" + dst_mode)
                            out.count("writer_fail:" + (how if (fail_at is not None or how in SAVE_HOWS) else "none"))
                            if model_ok:
                                src = {"path": 0} if dst_mode in ("path", "pathlike") else {"stream": 0}
                                ops.append({"op": "resource", "prog": {"fn": api, "src": src, "n": n},
                                            "history": writer_history(n, fail_at, how)})
                                pend.append(("writer " + api, case, states))
        # size ladder: files / workbooks whose number of value cells is at and around powers of two, written completely,
        # with a table that fails when it is appended, and (Excel) with a failure while the workbook is serialised
        if full:
            big = [(api, dst, c, how) for api in ("write_csv", "write_excel") for dst in ("path", "file") for c in CELL_LADDER
                   for how in (("-", "format") if api == "write_csv" else ("-", "format", "save_tz", "save_patched"))
                   if dst == "path" or c <= 16385 or (c == 65537 and how == "save_tz")]
        else:
            big = [("write_excel", "path", c, "save_tz") for c in (1025, 4097, 8193, 65537)]
            big += [("write_excel", "path", 65537, "-"), ("write_excel", "path", 65537, "save_patched"),
                    ("write_excel", "path", 4097, "format"), ("write_excel", "pathlike", 65537, "save_tz"),
                    ("write_excel", "file", 65537, "save_tz"), ("write_csv", "path", 8193, "format"),
                    ("write_csv", "path", 65537, "format"), ("write_csv", "path", 65537, "-"),
                    ("write_csv", "file", 65537, "format")]
        for api, dst_mode, cells, how in big:
            n = 3
            fail_at = None if how in ("-", "save_patched") else 2      # the big table is written first
            case = {"kind": "writer", "api": api, "dst": dst_mode, "n": n, "fail_at": fail_at, "how": how, "cells": cells}
            states, rw = run_writer(api, dst_mode, n, fail_at, how, scratch, cells=cells)
            oracle_writer(api, states, rw, out, case)
            out.case(case, nontrivial=True)
            out.count("writer_cells:%s:%d" % (api, cells))
            out.count("writer_fail:" + (how if how != "-" else "none"))
            if model_ok:
                src = {"path": 0} if dst_mode in ("path", "pathlike") else {"stream": 0}
                ops.append({"op": "resource", "prog": {"fn": api, "src": src, "n": n},
                            "history": writer_history(n, fail_at, how)})
                pend.append(("writer " + api, case, states))
    finally:
        with warnings.catch_warnings():
            warnings.simplefilter("ignore")
            gc.collect()
        shutil.rmtree(scratch, ignore_errors=True)


def run(tier, seed, model_ok, translator, search=False):
    out = Outcome()
    out.rule = ("scenario = reader API x source kind (path / open file / in-memory stream) x generated files (1-4 tables "
                "per sheet, metadata / directive / template / note blocks, 1-3 sheets, sheet-name pattern matching none / some / all sheets or absent (read_excel, load_files), 1-3 root files "
                "with include directives for load_files) x error injection (illegal cell + default / raising / collecting "
                "tracker, raising / dropping filter); for each scenario every prefix length 0..n+1 (thorough tier: all; quick tier: all when "
                "n <= 5, else 0, 1, n, n+1 and three sampled ones) x {exhaust, close, drop, throw} (+ release of the caught exception, + actions on the finished iterator); writers: {csv, excel} x "
                "{str path, PathLike, open file, in-memory stream} x n tables x failing table at every position x {bad "
                "format / cell, not a Table} + write_excel failing while the workbook is serialised (timezone-aware cell, "
                "patched openpyxl writer); load_files with the k-th include missing / duplicated / .txt / refused, under the "
                "default, a raising and a collecting tracker (failure between two files; at least one raising duplicate per run); "
                "CSV files starting with a UTF-8 / UTF-16 / UTF-32 byte order mark; workbooks that cannot be opened or "
                "read (zip that is not a workbook, zero bytes, truncated, damaged sheet part) as read_excel source and as "
                "load_files root / include; a size ladder (rows 63..20000 for readers, 1000..131073 value cells for "
                "writers; CSV files of >= 1 MiB x an error in a block); file-name suffixes in lower / upper / title case and "
                ".xlsm x every unreadable-workbook kind. Descriptors: every entry of /proc/self/fd that was not there before the call. Non-trivial: >= 2 blocks (readers), >= 2 tables and a failure (writers).")
    rng = make_rng(seed, "C19")
    full = tier == "thorough"
    per_api = 40 if full else 8
    ops, pend = [], []
    gc_was = gc.isenabled()
    gc.collect()
    gc.disable()
    try:
        # frame shapes the model reads from the translated table (published in the evidence)
        if model_ok:
            ops.append({"op": "resource_frames"})
            pend.append(("frames", None, None))
        run_writers(rng, full, out, ops, pend, model_ok)
        for api in READER_APIS:
            for j in range(per_api):
                # the first scenarios of every API cycle through the injections so that quick hits each of them
                inject = INJECTS[(j + READER_APIS.index(api)) % len(INJECTS)] if j < len(INJECTS) else rng.choice(INJECTS)
                if api == "load_files" and inject.startswith("filter"):
                    inject = "cell"            # load_files takes no filter
                # ... and (Excel readers, load_files) through sheet-name patterns matching some / no pattern / all / none
                pat_mode = PAT_ORDER[j % len(PAT_ORDER)] if j < 2 * len(PAT_ORDER) else None
                if pat_mode == "none":
                    inject = "none"            # nothing is read: there is no block to fail in
                sc = gen_scenario(rng, api, inject, pat_mode)
                run_scenario(sc, rng, full, out, ops, pend, model_ok)
                if len(out.failures) >= 20:
                    break
        # workbooks that cannot be opened / read, as the source of read_excel and as a root / include of load_files
        broken_runs = [(api, k) for k in BROKEN_KINDS for api in ("read_excel:path", "load_files")]
        broken_runs += [("read_excel:file", BROKEN_KINDS[seed % 4]), ("read_excel:bytesio", BROKEN_KINDS[(seed + 1) % 4])]
        if full:
            broken_runs = [(api, k) for k in BROKEN_KINDS for api in
                           ("read_excel:path", "read_excel:file", "read_excel:bytesio", "load_files", "load_files")]
        spellings = ["lower", "UPPER", "Title"]
        for bi, (api, kind) in enumerate(broken_runs):
            # ... crossed with the spelling of the suffix (every kind under every spelling by path and through load_files)
            for spell in (spellings if api in ("read_excel:path", "load_files") else [spellings[(bi + seed) % 3]]):
                sc = gen_scenario(rng, api, "none", rng.choice(["nopattern", "all"]), broken=kind, suffix=spell)
                out.count("broken_workbook:%s:%s:suffix_%s" % (api.split(":")[0], kind, spell))
                run_scenario(sc, rng, full, out, ops, pend, model_ok)
        if full or seed % 2 == 0:
            sc = gen_scenario(rng, "read_excel:path", "none", "nopattern", broken=BROKEN_KINDS[seed % 4], suffix="xlsm")
            out.count("broken_workbook:read_excel:%s:suffix_xlsm" % BROKEN_KINDS[seed % 4])
            run_scenario(sc, rng, full, out, ops, pend, model_ok)
        # CSV files that start with a byte order mark (UTF-8: readable, the mark lands in the first cell; UTF-16 /
        # UTF-32: the platform codec fails at the first line — an error exit with the file open), by path, through
        # load_files, and (UTF-8 mark) as a caller's stream
        bom_runs = [("read_csv:path", b) for b in BOMS] + [("load_files", "utf-8"), ("read_csv:file", "utf-8"),
                                                            ("read_csv:stringio", "utf-8")]
        bom_runs += [("load_files", b) for b in (list(BOMS)[1:] if full else [list(BOMS)[1 + seed % 4]])]
        for rep_i in range(3 if full else 1):
            for bi, (api, bom) in enumerate(bom_runs):
                inject = "none" if rep_i == 0 else rng.choice(["none", "cell", "tracker_collect"])
                sc = gen_scenario(rng, api, inject, "nopattern", bom=bom)
                out.count("csv_bom:%s:%s" % (api.split(":")[0], bom))
                run_scenario(sc, rng, full, out, ops, pend, model_ok)
        # size ladder: one table with a row count at / around a power of two (always one above 1024, 4096 and 8192)
        if full:
            size_runs = [(api, n) for n in SIZE_LADDER for api in ("read_csv:path", "read_excel:path")]
            size_runs += [("load_files", n) for n in (1025, 4097, 8193)]
        else:
            size_runs = [("read_csv:path", 1025), ("read_csv:path", 4097), ("read_csv:path", 8193),
                         ("read_excel:path", SIZE_LADDER[seed % 9]), ("read_excel:path", 1025),
                         ("load_files", 4097), ("read_csv:stringio", SIZE_LADDER[(seed + 3) % len(SIZE_LADDER)])]
        # size in BYTES crossed with the way the reading ends, in particular an error in a block while the exception is held
        byte_runs = [("read_csv:path", 1 << 20, "cell"), ("load_files", 1 << 20, "cell")]
        if full:
            byte_runs += [("read_csv:path", 1 << 20, i) for i in ("none", "tracker_raise", "filter_raise", "tracker_collect")]
            byte_runs += [("read_csv:path", 8 << 20, "cell"), ("read_csv:file", 1 << 20, "cell"),
                          ("load_files", 1 << 20, "tracker_raise")]
        for api, nbytes, inject in byte_runs:
            sc = gen_scenario(rng, api, inject, "nopattern", big_bytes=nbytes + nbytes // 10, suffix="lower")
            if api == "load_files":
                sc["folder"] = False
            out.count("size_ladder_bytes:%s:%dMiB:%s" % (api.split(":")[0], nbytes >> 20, sc["inject"]))
            run_scenario(sc, rng, False, out, ops, pend, model_ok)
        for api, nrows in size_runs:
            sc = gen_scenario(rng, api, rng.choice(["none", "cell"]), "all" if api != "read_csv:path" else None,
                              big_rows=nrows)
            out.count("size_ladder_rows:%s:%d" % (api.split(":")[0], nrows))
            run_scenario(sc, rng, False, out, ops, pend, model_ok)
        # load_files: the k-th include is missing / a duplicate / a .txt / refused by the loader, under each tracker
        gap_runs = [(gk, tr) for gk in GAP_KINDS for tr in ("none", "tracker_raise", "tracker_collect")]
        if not full:
            gap_runs = [gr for i, gr in enumerate(gap_runs)
                        if i % 3 == seed % 3 or gr in (("dup", "tracker_collect"), ("dup", "none"))]
        for rep_i in range(4 if full else 1):
            for gi, (gk, tr) in enumerate(gap_runs):
                sc = gen_scenario(rng, "load_files", tr, rng.choice(["nopattern", "all"]), gapkind=gk,
                                  host_empty=True if (rep_i == 0 and gi == 0) else None)
                run_scenario(sc, rng, full, out, ops, pend, model_ok)
    finally:
        if gc_was:
            gc.enable()
    if model_ok:
        answers = common.run_model(ops)
        for (what, case, states), ans in zip(pend, answers):
            if what == "frames":
                out.notes.append("model frames read from the translated table: " + str(ans))
                continue
            _compare(states, ans, out, what, case)
            for s in (ans.get("states") or []) if isinstance(ans, dict) else []:
                out.count("model_pc:" + s["pc"])
    out.exhaustive = False
    return out


def replay(rep):
    inp = rep.get("input") or {}
    if not inp:
        return False, "replay file has no input (no-failing-input-found): " + str(rep.get("broken"))[:300]
    out = Outcome()
    gc_was = gc.isenabled()
    gc.collect()
    gc.disable()
    scratch = tempfile.mkdtemp(prefix="c19r-")
    try:
        if inp.get("kind") == "writer":
            states, rw = run_writer(inp["api"], inp["dst"], inp["n"], inp["fail_at"], inp["how"], scratch,
                                    cells=inp.get("cells"))
            oracle_writer(inp["api"], states, rw, out, inp)
        else:
            sc = {k: inp.get(k) for k in ("api", "inject", "target", "pattern", "roots", "files", "str_path", "folder")}
            paths = {f["id"]: _write_file(scratch, f) for f in sc["files"]}
            for name, text in (inp.get("extra_files") or {}).items():
                with open(os.path.join(scratch, name), "w") as fh:
                    fh.write(text)
            states, rw = run_reader_history(sc, paths, scratch, inp["history"])
            oracle_reader(sc, inp.get("prefix"), inp.get("end"), inp["history"], states, rw, out, inp)
    finally:
        if gc_was:
            gc.enable()
        shutil.rmtree(scratch, ignore_errors=True)
    if out.failures:
        return False, out.failures[0]["what"] + " — observed " + str(out.failures[0]["observed"])[:300]
    return True, "property holds on this input"
