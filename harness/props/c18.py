"""C18 — each table's origin pinpoints where it was read and how it got included.

Inputs: the C16 input sets (harness/props/c16.py generators) with tables at random row offsets (blank lines,
comment rows, metadata, several tables per file), CSV files, multi-sheet .xlsx workbooks written with openpyxl,
and in-memory `mem:` files, connected by include directives and folder listings.

Oracle (no Lean involved), on the real `load_files` / `make_location_trees`:
  * origin_file_sheet_row — every yielded table's origin names the generator's file, sheet and the 0-based row of
    its `**name` cell (ground truth recorded while the file was written, and the rows as read back independently);
  * history_is_include_path — `load_specification.load_history()` ends at a root specification, every step is a
    line of an include directive (or a matching folder entry) actually present at its source, and each step's
    source lies in the file the next step leads to;
  * forest — `make_location_trees(tables)`: no node is reached twice, leaves are exactly the tables (by identity,
    once each), a leaf's parent is its file's node, a node's parent is the node of `load_specification.source`,
    roots are exactly the nodes whose source is None.
Correspondence: the same load against the Lean model including the full history of every block, and the forest
against `Load.makeLocationTrees` (driver op "location_trees").
"""
import logging
import re
import shutil
import tempfile
from pathlib import Path

from harness import common
from harness.common import Outcome, make_rng
from harness.props import c16

logging.disable(logging.CRITICAL)

EXTRA = {
    "assumptions": c16.EXTRA["assumptions"] + [
        "node identity in make_location_trees is the load identifier (as in the code); the mtime part is dropped, "
        "so two versions of one path within one load are not exercised",
        "a fifth of the generated tables reuse an earlier table name; a yielded table is matched to its ground truth "
        "by its first column name, which is unique over the input set",
        "outside the generated domain (reported defect, not judged): read_excel(stream, origin=\"text\") drops the "
        "origin text although the docstring promises to keep it",
    ],
    "explanation": "Props/C18.lean: origin_file_sheet_row (reader glue + C03 origin rows: the stamped row is the index "
                   "of the `**` row), history_is_include_path (every step present at its source, chain connected, "
                   "ends at a root), history_locations_distinct, forest (keys unique, leaves a permutation of the "
                   "tables under their file node, parent = node of the source, every node reaches a root).",
    "trusted_base": c16.EXTRA["trusted_base"],
}

# a block identifier is f"{file identifier}#'{sheet}'!A{row}" and the sheet title may itself hold "#'", "'!A3" …:
# the file part ends at the FIRST "#'" (scratch paths hold none), the row is what follows the LAST "'!A"
_ID = re.compile(r"^(.*?)(?:#'(.*)'!A(\d+))?$", re.S)
_MTIME = re.compile(r"@\d{4}-\d\d-\d\dT\d\d:\d\d:\d\d$")


def key_of_ident(m, ident):
    mm = _ID.match(ident)
    base = _MTIME.sub("", mm.group(1))
    loc = m.ids.get(base, -1)
    if mm.group(3) is None:
        return [loc, None]
    return [loc, [mm.group(2), int(mm.group(3))]]


def _selfcheck_id():
    for t in c16.HOSTILE_TITLES + ["Sheet1", "a'!A1'!A2"]:
        mm = _ID.match(f"/tmp/c18-x/3/in_f0.xlsx@2026-01-02T03:04:05#'{t}'!A17")
        assert mm and mm.group(2) == t and mm.group(3) == "17" and mm.group(1).endswith(":05"), t
    assert _ID.match("/tmp/c18-x/3/p").group(3) is None


_selfcheck_id()


def node_key(m, loc):
    """what a tree node's location *is* (attributes, not the spelling of its identifier): the location id and,
    for a block, (sheet, row); a block without sheet name and one on a sheet called Sheet1 are the same node"""
    cl = c16.canon_location(m, loc)
    if cl[1] is None:
        return [cl[0], None]
    return [cl[0], [cl[1][0] or "Sheet1", cl[1][1]]]


def sort_forest(forest):
    """the statement fixes a forest, not an order among siblings or roots"""
    import json

    def norm(n):
        if "leaf" in n or not isinstance(n.get("children"), list):
            return n
        kids = sorted((norm(c) for c in n["children"]), key=lambda x: json.dumps(x, sort_keys=True))
        return {"key": n["key"], "children": kids}

    return sorted((norm(n) for n in forest), key=lambda x: json.dumps(x, sort_keys=True))


def canon_forest(m, roots, tables):
    idx = {id(t): i for i, t in enumerate(tables)}

    def node(n, depth):
        if n.table is not None:
            return {"leaf": idx.get(id(n.table), -1)}
        if depth > 200:
            return {"key": None, "children": "DEPTH-EXCEEDED"}
        return {"key": node_key(m, n.location), "children": [node(c, depth + 1) for c in n.children]}

    return sort_forest([node(r, 0) for r in roots])


# ------------------------------------------------------------------------------------------------ oracles

def truth_index(case):
    by_name = {}
    for fi, f in enumerate(case["files"]):
        for si, sh in enumerate(f["sheets"]):
            for b in sh["truth"]:
                if b["ty"] == "TABLE":
                    by_name[b.get("uid") or b["name"]] = (fi, si, sh["name"], b["row"], b["name"])
    return by_name


def intended(case, m, spec, anchor):
    """ground-truth target of `spec` found at `anchor` ([loc, None | [sheet, row]] or None for a root)"""
    if anchor is None:
        roots = case["roots"] if case["roots"] is not None else ["/"]
        for s, t in zip(roots, case["root_targets"]):
            if c16.root_spec(case, m, s) == spec:
                return tuple(t)
        return None
    loc, pos = anchor
    if pos is None:
        for rel, fid in m.folder_id.items():
            if fid == loc:
                import os
                for i, f in enumerate(case["files"]):
                    if f["kind"] != "mem" and os.path.dirname(f["path"]) == rel and os.path.basename(f["path"]) == spec:
                        return ("F", i)
                for sub in case["folders"]:
                    if sub and os.path.dirname(sub) == rel and os.path.basename(sub) == spec:
                        return ("D", sub)
        return None
    for fi, f in enumerate(case["files"]):
        if m.file_id[fi] != loc:
            continue
        for sh in f["sheets"]:
            if sh["name"] != pos[0]:
                continue
            for b in sh["truth"]:
                if b["ty"] == "DIRECTIVE" and b["name"] == "include" and b["row"] == pos[1]:
                    for ln, t in zip(b["lines"], b["targets"]):
                        if c16.subst(ln, m) == spec:
                            return tuple(t)
    return None


def loc_of_target(m, t):
    if t is None:
        return None
    if t[0] == "F":
        return m.file_id[t[1]]
    if t[0] == "D":
        return m.folder_id[t[1]]
    return None


def oracle_origins(case, m, r, out):
    """origin_file_sheet_row and history_is_include_path on the implementation's tables"""
    truth = truth_index(case)
    pat = c16.ref_pattern(case["start_pattern"])
    for o in r.canon["out"]:
        if o["ty"] != "TABLE":
            continue
        tid = o.get("uid") if o.get("uid") in truth else o["name"]
        if tid not in truth:
            out.fail("a table was yielded that no generated file contains", case, o, None, key="unknown_table")
            return
        fi, si, sname, row, tname = truth[tid]
        exp = {"loc": m.file_id[fi], "sheet": sname, "row": row, "name": tname}
        got = {"loc": o["loc"], "sheet": o["sheet"], "row": o["row"], "name": o["name"]}
        if got != exp:
            out.fail("table origin (file, sheet, row) differs from where the generator wrote the table",
                     case, dict(got, table=o["name"]), exp,
                     key="origin:" + ",".join(k for k in exp if exp[k] != got[k]))
            return
        rows = m.rows[o["loc"]][si]["rows"]
        if not (o["row"] < len(rows) and rows[o["row"]] and rows[o["row"]][0] == "**" + o["name"]):
            out.fail("the origin row is not the row of the table's `**name` cell as read back from the file",
                     case, dict(got, table=o["name"]), None, key="origin:row_readback")
            return
        # ---- history
        h = o["history"]
        if not h or h[-1][1] is not None:
            out.fail("load history does not end at a root item (source None)", case, h, None, key="history:no_root")
            return
        if any(step[1] is None for step in h[:-1]):
            out.fail("load history has a source-less step before its end", case, h, None, key="history:early_root")
            return
        leads = o["loc"]
        for spec, anchor in h:
            t = intended(case, m, spec, anchor)
            if t is None:
                out.fail("a load-history step is not a root specification, include line or folder entry present at "
                         "its source", case, {"table": o["name"], "step": [spec, anchor], "history": h}, None,
                         key="history:step_absent")
                return
            if anchor is not None and anchor[1] is None and not pat.match(spec):
                out.fail("a folder entry in the history does not match the file-name pattern", case,
                         {"table": o["name"], "step": [spec, anchor]}, None, key="history:folder_entry")
                return
            if loc_of_target(m, t) != leads:
                out.fail("a load-history step does not lead to the location the previous step was found in", case,
                         {"table": o["name"], "step": [spec, anchor], "leads_to": t, "expected_loc": leads,
                          "history": h}, None, key="history:disconnected")
                return
            if anchor is not None and anchor[0] not in r.canon["reads"]:
                out.fail("a load-history step names a source that was not read in this load", case,
                         {"table": o["name"], "step": [spec, anchor], "history": h,
                          "read": [m.path_of.get(x) for x in r.canon["reads"]]}, None,
                         key="history:source_not_read")
                return
            leads = None if anchor is None else anchor[0]


def loc_key(loc):
    """what a location *is*, independent of how its load identifier is spelled: a block is (file, sheet, row)"""
    from pdtable.table_origin import LocationBlock
    if isinstance(loc, LocationBlock):
        return (loc.file.load_identifier, loc.sheet_name, loc.row)
    return (loc.load_identifier,)


def oracle_forest(case, m, tables, roots, out, shape_only=False):
    """make_location_trees: a forest over the tables.  `shape_only`: tables of several loads, whose histories
    need not agree (the first registration of an identifier wins) — everything but one-node-per-history-location"""
    seen, leaves, order = {}, [], []

    def walk(n, parent, depth):
        if id(n) in seen or depth > 500:
            return "a node is reachable twice (not a forest)"
        seen[id(n)] = n
        if n.parent is not parent:
            return "a child's parent link is not the node that lists it"
        if n.table is not None:
            if n.children:
                return "a leaf has children"
            leaves.append(n)
            return None
        for c in n.children:
            e = walk(c, n, depth + 1)
            if e:
                return e
        return None

    for rt in roots:
        if rt.parent is not None:
            out.fail("a returned root has a parent", case, str(rt), None, key="forest:root_has_parent")
            return
        e = walk(rt, None, 0)
        if e:
            out.fail("make_location_trees: " + e, case, [str(x) for x in roots], None, key="forest:shape")
            return
    if sorted(id(n.table) for n in leaves) != sorted(id(t) for t in tables):
        out.fail("leaves of the location trees are not exactly the tables, once each", case,
                 sorted(n.table.name for n in leaves), sorted(t.name for t in tables), key="forest:leaves")
        return
    for n in seen.values():
        if n.table is not None:
            file_id = n.location.file.load_identifier
            if n.parent is None or n.parent.location.load_identifier != file_id:
                out.fail("a leaf's parent is not the node of its file", case, n.table.name, file_id,
                         key="forest:leaf_parent")
                return
            continue
        src = n.location.load_specification.source
        if src is None:
            if n.parent is not None or not any(n is rt for rt in roots):
                out.fail("a node whose source is None is not a root", case, n.location.load_identifier, None,
                         key="forest:root_missing")
                return
        else:
            if n.parent is None or n.parent.location.load_identifier != src.load_identifier:
                out.fail("a node's parent is not the node of its load_specification.source", case,
                         {"node": n.location.load_identifier,
                          "parent": None if n.parent is None else n.parent.location.load_identifier},
                         src.load_identifier, key="forest:parent")
                return
            if loc_key(n.parent.location) != loc_key(src):
                out.fail("a node sits beneath another location than its load_specification.source (file, sheet, "
                         "row of the including directive)", case,
                         {"node": n.location.load_identifier, "parent": list(loc_key(n.parent.location))},
                         list(loc_key(src)), key="forest:parent_location")
                return
    ids = [n.location.load_identifier for n in seen.values() if n.table is None]
    if len(ids) != len(set(ids)):
        out.fail("two tree nodes share a load identifier", case, sorted(ids), None, key="forest:dup_node")
        return
    if shape_only:
        return
    # one node per location: every (file, sheet, row) / file / folder that occurs as the file of a table or as a
    # source along a table's load history has its own node
    want = set()
    for t in tables:
        il = t.metadata.origin.input_location
        want.add(loc_key(il.file))
        for li in il.load_specification.load_history():
            if li.source is not None:
                want.add(loc_key(li.source))
    have = [loc_key(n.location) for n in seen.values() if n.table is None]
    if sorted(map(repr, have)) != sorted(map(repr, want)):
        out.fail("the tree does not have exactly one node per location of the tables' files and load histories",
                 case, sorted(map(repr, have)), sorted(map(repr, want)), key="forest:node_per_location")


# ------------------------------------------------------------------------------------------------ generators

def gen_cases(tier, seed, search=False):
    idx = 0
    thorough = tier == "thorough"
    # small include graphs, rich files
    graphs = []
    for n in (1, 2):
        graphs += [(n, es) for es in c16.digraphs(n)]
    g3 = list(c16.digraphs(3))
    rng = make_rng(seed, "C18:g3")
    graphs += [(3, es) for es in (g3 if thorough else rng.sample(g3, 60))]
    for gi, (n, es) in enumerate(graphs):
        crng = make_rng(seed, f"C18:g:{gi}")
        mem = crng.random() < 0.3
        kinds = [crng.choice(["csv", "csv", "xlsx"]) for _ in range(n)]
        if mem and n > 1:
            kinds[crng.randrange(1, n)] = "mem"
        case = c16.build_case(crng, n, es, folders=crng.choice(c16.FOLDER_LAYOUTS[:4]), kinds=kinds,
                              root_folder=crng.random() < 0.6,
                              roots_mode=crng.choice(["file", "file", "default", "folder"]),
                              start_pattern=None, tracker=crng.choice(["collecting", "collecting", "default"]),
                              allow_include=crng.random() < 0.92, mem=mem, rich=True,
                              sheet_pattern=crng.choice([None, None, "(in|set)_"]))
        case["gen"] = {"graph": sorted(es), "n": n}
        yield idx, environment(crng, shift_columns(crng, case))
        idx += 1
    # size ladder: origin rows just above 1024, 4096, 8192 (quick) and more rungs in thorough
    # deep and large: an include chain of 60 files (load history > 16 steps, location forest > 48 nodes)
    crng = make_rng(seed, "C18:deep")
    case = c16.build_case(crng, 60, {(i, i + 1) for i in range(59)}, folders=crng.choice(c16.FOLDER_LAYOUTS[1:4]),
                          kinds=["csv"] * 60, root_folder=True, roots_mode="file", start_pattern=None,
                          tracker="collecting", allow_include=True, mem=False, rich=False)
    case["gen"] = {"tall": 0, "deep": 60}
    yield idx, case
    idx += 1
    rungs = [1025, 8193, 70001] if not thorough else [63, 64, 129, 257, 1000, 1023, 1024, 1025, 2049, 4095, 4096,
                                                      4097, 8191, 8192, 8193, 70001]
    for ri, n in enumerate(rungs):
        kind = ["csv", "xlsx", "csv"][ri % 3]
        for attempt in range(50):
            crng = make_rng(seed, f"C18:tall:{n}:{attempt}")
            case = c16.build_case(crng, 2, {(0, 1)}, folders=[""], kinds=[kind, "csv"],
                                  root_folder=crng.random() < 0.5, roots_mode="file", start_pattern=None,
                                  tracker="collecting", allow_include=True, mem=False, rich=True,
                                  sheet_pattern=None)
            if tall_ok(case):
                break
        case["gen"] = {"tall": n}
        case["tall"] = n
        yield idx, tall(case, crng)
        idx += 1
    for k in range(400 if (thorough or search) else 30):
        crng = make_rng(seed, f"C18:a:{k}")
        n = crng.choice([3, 4, 5])
        es = {(0, j) for j in range(1, n)} | {(i, j) for i in range(1, n) for j in range(n) if crng.random() < 0.15}
        kinds = ["xlsx"] + [crng.choice(["csv", "csv", "xlsx"]) for _ in range(n - 1)]
        case = c16.build_case(crng, n, es, folders=crng.choice(c16.FOLDER_LAYOUTS[:4]), kinds=kinds,
                              root_folder=crng.random() < 0.6, roots_mode="file", start_pattern=None,
                              tracker="collecting", allow_include=True, mem=False, rich=True, sheet_pattern=None,
                              opts={"aligned_p": 1.0, "min_sheets": crng.choice([2, 3]), "split_groups": True})
        case["gen"] = {"aligned": True}
        yield idx, case
        idx += 1
    n_rand = 3500 if (thorough or search) else 270
    for k in range(n_rand):
        crng = make_rng(seed, f"C18:r:{k}")
        case = c16.random_case(crng, xlsx_share=0.4)
        if crng.random() < 0.6:
            case["tracker"] = "collecting"
        yield idx, environment(crng, shift_columns(crng, case))
        idx += 1


def environment(crng, case):
    """what happens between the load and the inspection of origins, and whether the stream route is taken too"""
    r = crng.random()
    case["after_load"] = "touch" if r < 0.25 else "delete" if r < 0.4 else None
    case["streams"] = sum(1 for f in case["files"] if f["kind"] in ("csv", "xlsx")) >= 2 and crng.random() < 0.35
    return case


def shift_columns(crng, case):
    """some workbook sheets get their content written from column B or C on: read from column A, every row of
    such a sheet starts with an empty cell, so it holds no table, directive or metadata block at all"""
    for f in case["files"]:
        if f["kind"] != "xlsx":
            continue
        for sh in f["sheets"]:
            if crng.random() < 0.12:
                sh["col_offset"] = crng.choice([1, 2])
                sh["truth"] = []
    return case


def gen_two_loads(tier, seed, search=False):
    """one tree, two consecutive loads in one process: files 0 and 1 both include file 2 (from different rows);
    the first load starts at file 0, the second at file 1, so the shared file is reached by another route"""
    for k in range(400 if (tier == "thorough" or search) else 30):
        crng = make_rng(seed, f"C18:t:{k}")
        n = crng.choice([3, 3, 4, 5])
        es = {(0, 2), (1, 2)} | {(i, j) for i in range(n) for j in range(2, n) if crng.random() < 0.2}
        kinds = [crng.choice(["csv", "csv", "xlsx"]) for _ in range(n)]
        case = c16.build_case(crng, n, es, folders=crng.choice(c16.FOLDER_LAYOUTS[:4]), kinds=kinds,
                              root_folder=crng.random() < 0.6, roots_mode="file", start_pattern=None,
                              tracker="collecting", allow_include=True, mem=False, rich=True, sheet_pattern=None)
        case["gen"] = {"two_loads": True}
        s2, t2 = c16.spec_for(crng, case, None, ("F", 1))
        second = dict(case, roots=[s2], root_targets=[t2], first_roots=case["roots"],
                      first_root_targets=case["root_targets"])
        yield case, second


def gen_shared_dict(tier, seed, search=False):
    """2-3 consecutive loads over different input sets that are handed the SAME additional_protocol_loaders dict
    object; the loads differ in root_folder (set / unset / another folder), file-name pattern, sheet-name pattern
    and CSV separator"""
    for k in range(300 if (tier == "thorough" or search) else 24):
        crng = make_rng(seed, f"C18:h:{k}")
        calls = []
        for j in range(crng.choice([2, 2, 3])):
            c = c16.random_case(crng, xlsx_share=0.3, force_mem=True)
            c["tracker"] = "collecting"
            c["sep"] = crng.choice([";", ";", ","])
            c["gen"] = {"history": k, "call": j}
            calls.append(c)
        yield calls


def shared_dict_loads(calls, base, out, hist_input, want_model, order):
    """each load is judged against its own ground truth (origins, histories, forest, and the C16 oracle);
    the caller's dict must stay as it was"""
    shared = c16.Shared()
    results = []
    for j, case in enumerate(calls):
        o = Outcome()
        res = one_case(case, base / f"call{j}", o, want_model, order, shared=shared, audit_prefix=str(base))
        if not shared.intact():
            o.fail("load_files changed the caller's additional_protocol_loaders dict", case,
                   sorted(map(str, shared.protocols.keys())), ["mem"], key="caller_dict_modified")
        for f in o.failures:
            out.fail(f"load {j + 1} of {len(calls)} sharing one protocol dict: " + f["what"],
                     dict(hist_input, failing_call=j), f["observed"], f["expected"],
                     key=f["key"] if f["key"] == c16.F4_KEY else "history:" + f["key"])
        out.mismatches += [dict(mm, input=dict(hist_input, failing_call=j)) for mm in o.mismatches]
        if res is None or any(f["key"] != "caller_dict_modified" for f in o.failures):
            break
        results.append((case, res))
    return results


def tall(case, crng):
    """the size ladder: the blocks of the first sheet of the first file come after 1025 / 4097 / 8193 … empty rows
    (the generator is asked again until that sheet does not open with a metadata block or a comment row, which
    are only that at the very top)"""
    n = case["tall"]
    sh = case["files"][0]["sheets"][0]
    blank = [None] if case["files"][0]["kind"] == "xlsx" else [""]
    sh["rows"] = [list(blank) for _ in range(n)] + sh["rows"]
    for b in sh["truth"]:
        b["row"] += n
    return case


def tall_ok(case):
    t = case["files"][0]["sheets"][0]["truth"]
    return bool(t) and not (t[0]["row"] == 0 and t[0]["ty"] in ("METADATA", "BLANK"))


def two_loads(first, second, root, out, want_model, order):
    """both loads over the same files in this process; each is judged against its own roots"""
    m = c16.materialise(first, root)
    from pdtable.io.load import make_location_trees
    res1 = one_case(first, root, out, want_model, order, m=m)
    res2 = one_case(second, root, out, want_model, order, m=m)
    if res1 is not None and res2 is not None:
        # the tables of both loads in one forest: histories of the two loads need not agree
        union = res1["tables"] + res2["tables"]
        try:
            uroots = make_location_trees(union)
        except Exception as e:  # noqa
            out.fail("make_location_trees raised on the tables of two loads", second, repr(e), None,
                     key="forest:raised:" + type(e).__name__)
            return [res1, res2]
        oracle_forest(dict(second, union_of_two_loads=True), m, union, uroots, out, shape_only=True)
        if want_model:
            res2["union_op"] = {"op": "location_trees",
                                "tables": [{"loc": o["loc"], "sheet": o["sheet"], "row": o["row"],
                                            "history": o["history"]}
                                           for o in res1["table_outs"] + res2["table_outs"]]}
            res2["union_forest"] = canon_forest(m, uroots, union)
    return [x for x in (res1, res2) if x is not None]


# ------------------------------------------------------------------------------------------------ run / replay

def oracle_iterables(case, m, tables, roots, out):
    """`tables` is any iterable of tables (the module docs call `make_location_trees(iter(bundle))`): a dict view,
    a one-shot iterator, a generator and a TableBundle iterator must all give the forest the list gives"""
    from pdtable.io.load import make_location_trees
    from pdtable import TableBundle, BlockType
    want = canon_forest(m, roots, tables)
    kinds = [("dict_values", lambda: {id(t): t for t in tables}.values()),
             ("iter_list", lambda: iter(list(tables))),
             ("generator", lambda: (t for t in tables)),
             ("tuple", lambda: tuple(tables))]
    if len({t.name for t in tables}) == len(tables):
        kinds.append(("iter_bundle", lambda: iter(TableBundle(iter([(BlockType.TABLE, t) for t in tables])))))
    for kind, make in kinds:
        try:
            got = canon_forest(m, make_location_trees(make()), tables)
        except Exception as e:  # noqa
            out.fail(f"make_location_trees raised for tables given as {kind}", case, repr(e), None,
                     key="forest:iterable:" + kind)
            return
        if got != want:
            out.fail(f"make_location_trees builds a different forest when the tables are given as {kind} "
                     f"instead of a list", case, got, want, key="forest:iterable:" + kind)
            return


def env_step(m, env):
    """the environment after the load, before anything is inspected: every file modified later, or all gone"""
    import os
    if env == "touch":
        for p in [m.path_of[fid] for fid in m.file_id if m.kind[fid] not in ("mem",)]:
            st = os.stat(p)
            os.utime(p, (st.st_atime + 4000, st.st_mtime + 4000))
    elif env == "delete":
        shutil.rmtree(m.root, ignore_errors=True)


def capture_streams(case, m):
    """the CSV / workbook files of the case as nameless in-memory streams"""
    import io
    res = []
    for f, fid in zip(case["files"], m.file_id):
        if f["kind"] == "csv":
            with open(m.path_of[fid], newline="") as fh:
                res.append(("csv", io.StringIO(fh.read())))
        elif f["kind"] == "xlsx":
            with open(m.path_of[fid], "rb") as fh:
                res.append(("xlsx", io.BytesIO(fh.read())))
    return res


def oracle_direct_readers(case, m, out):
    """the direct-reader route: read_csv(path, origin="x") / read_excel(path, origin="x") — the documented
    `origin: str` names the input; every table's load history is the one step ("x", <root>) and the tables of
    several files make one tree per file"""
    from pdtable import read_csv, read_excel, BlockType
    from pdtable.io.load import make_location_trees
    import warnings
    per_file = []
    with warnings.catch_warnings():
        warnings.simplefilter("ignore")
        for f, fid in zip(case["files"], m.file_id):
            if f["kind"] not in ("csv", "xlsx"):
                continue
            name = "input " + f["path"]
            try:
                if f["kind"] == "csv":
                    blocks = list(read_csv(m.path_of[fid], sep=case.get("sep", c16.SEP), origin=name,
                                           issue_tracker=c16.make_collector()))
                else:
                    blocks = list(read_excel(m.path_of[fid], origin=name, issue_tracker=c16.make_collector()))
                ts = [b for bt, b in blocks if bt == BlockType.TABLE]
                for t in ts:
                    il = t.metadata.origin.input_location
                    h = [(li.specification, li.source) for li in il.load_specification.load_history()]
                    if h != [(name, None)] or str(il.file.local_path) != m.path_of[fid]:
                        out.fail("a table read with origin=<text> does not carry the one-step history "
                                 "(<text>, <root>) of its file", dict(case, route="direct"), repr(h), [name, None],
                                 key="origin_str_not_a_load_item")
                        return
                per_file.append(ts)
            except Exception as e:  # noqa
                out.fail("reading a file with origin=<text> and walking its tables' load history raised",
                         dict(case, route="direct"), repr(e), None, key="origin_str_not_a_load_item")
                return
    tables = [t for ts in per_file for t in ts]
    try:
        roots = make_location_trees(tables)
    except Exception as e:  # noqa
        out.fail("make_location_trees raised on tables read with origin=<text>", dict(case, route="direct"),
                 repr(e), None, key="origin_str_not_a_load_item")
        return
    leaves = {}
    for rt in roots:
        for c in rt.children:
            if c.table is not None:
                leaves[id(c.table)] = rt
    want_roots = sum(1 for ts in per_file if ts)
    if len(roots) != want_roots or any(len({id(leaves.get(id(t))) for t in ts}) != 1 for ts in per_file if ts) \
            or any(id(t) not in leaves for t in tables):
        out.fail("tables read from several files with origin=<text> do not make one tree per file",
                 dict(case, route="direct"), {"roots": len(roots)}, {"roots": want_roots},
                 key="direct:one_tree_per_file")


def oracle_streams(case, streams, out):
    """the same inputs read as nameless streams (read_csv(StringIO), read_excel(BytesIO)), their tables combined
    into one forest: one tree per input, every table beneath its own input"""
    from pdtable import read_csv, read_excel, BlockType
    from pdtable.io.load import make_location_trees
    import warnings
    per_input = []
    with warnings.catch_warnings():
        warnings.simplefilter("ignore")
        for kind, stream in streams:
            tracker = c16.make_collector()
            try:
                blocks = list(read_csv(stream, issue_tracker=tracker) if kind == "csv"
                              else read_excel(stream, issue_tracker=tracker))
            except Exception as e:  # noqa
                out.fail("reading an input as a stream raised", dict(case, route="streams"), repr(e), None,
                         key="streams:raised:" + type(e).__name__)
                return
            per_input.append([b for bt, b in blocks if bt == BlockType.TABLE])
    tables = [t for ts in per_input for t in ts]
    try:
        roots = make_location_trees(tables)
    except Exception as e:  # noqa
        out.fail("make_location_trees raised on tables read from streams", dict(case, route="streams"), repr(e),
                 None, key="streams:raised:" + type(e).__name__)
        return
    parent_of = {}
    def walk(n):
        for c in n.children:
            if c.table is not None:
                parent_of[id(c.table)] = n
            else:
                walk(c)
    for rt in roots:
        walk(rt)
    groups = []
    for k, ts in enumerate(per_input):
        nodes = {id(parent_of.get(id(t))) for t in ts}
        if ts and (len(nodes) != 1 or None in [parent_of.get(id(t)) for t in ts]):
            out.fail("the tables of one stream input do not hang beneath one node of their own",
                     dict(case, route="streams"), {"input": k, "tables": [t.name for t in ts]}, None,
                     key="streams:split")
            return
        if ts:
            groups.append(nodes.pop())
    if len(groups) != len(set(groups)) or len(roots) != len(groups):
        out.fail("tables read from different nameless streams share a tree node: one tree per input expected",
                 dict(case, route="streams"),
                 {"inputs_with_tables": len(groups), "distinct_nodes": len(set(groups)), "roots": len(roots),
                  "identifiers": sorted({t.metadata.origin.input_location.file.load_identifier for t in tables})},
                 None, key="streams:merged")


def one_case(case, root, out, want_model, order, m=None, shared=None, audit_prefix=None):
    """runs the implementation and the oracles; returns the model ops + what to compare them with"""
    from pdtable.io.load import make_location_trees
    from pdtable import BlockType
    if m is None:
        m = c16.materialise(case, root)
    nodes = c16.observe_world(case, m)
    table = c16.resolve_table(case, m, c16.make_mem({}, [])[1]) if want_model else None
    streams = capture_streams(case, m) if case.get("streams") else None
    if case.get("streams"):
        oracle_direct_readers(case, m, out)
    env = case.get("after_load")
    r = c16.run_impl(case, m, after_load=(lambda: env_step(m, env)) if env else None, shared=shared,
                     audit_prefix=audit_prefix)
    impl = r.canon
    if r.canon_error is not None:
        out.fail("inspecting the origins of a finished load raised" +
                 (f" after the files were {env}d" if env else ""), case, r.canon_error, None,
                 key="origin:inspection_raised")
        return None
    if env:
        # "frozen": what the identifiers read right after the load is what they read after the files changed
        now = c16._block_idents(r.blocks)
        for before, after in zip(r.idents_after_load, now):
            if before != after:
                out.fail("a block's load identifier is not the one it had when it was loaded", case,
                         after, before, key="origin:identifier_not_frozen")
                return None
    if streams is not None:
        oracle_streams(case, streams, out)
    if impl["status"] == "runaway":
        out.fail("load_files did not terminate (watchdog)", case, "runaway", None, key="nontermination")
        return None
    oracle_origins(case, m, r, out)
    if not any(sh.get("col_offset") for f in case["files"] for sh in f["sheets"]):
        # "for every loaded input set": the set must load as C16 says (the reachable files' tables are there to
        # have origins at all) — the C16 oracle on the same run
        o16 = Outcome()
        c16.oracle(case, m, impl, o16)
        for f in o16.failures[:1]:
            out.fail("the input set is not loaded as it should be, so its tables get no origin: " + f["what"],
                     case, f["observed"], f["expected"],
                     key=f["key"] if f["key"] == c16.F4_KEY else "load:" + f["key"])
    tables = [b for bt, b in r.blocks if bt == BlockType.TABLE]
    try:
        roots = make_location_trees(tables)
    except Exception as e:  # noqa
        out.fail("make_location_trees raised", case, repr(e), None, key="forest:raised:" + type(e).__name__)
        return None
    oracle_forest(case, m, tables, roots, out)
    oracle_iterables(case, m, tables, roots, out)
    # a selection of the load's tables, in the load's order or shuffled
    srng = make_rng(int(case.get("seed", 0) or 0), f"C18:sub:{case.get('index')}:{case.get('roots')}")
    sel = [k for k in range(len(tables)) if srng.random() < 0.55]
    if len(sel) == len(tables) and sel:
        sel.pop(srng.randrange(len(sel)))
    if srng.random() < 0.4:
        srng.shuffle(sel)
    sub = [tables[k] for k in sel]
    try:
        sub_roots = make_location_trees(sub)
    except Exception as e:  # noqa
        out.fail("make_location_trees raised on a selection of the tables", case, repr(e), None,
                 key="forest:raised:" + type(e).__name__)
        return None
    oracle_forest(dict(case, selection=sel), m, sub, sub_roots, out)
    table_outs = [o for o in impl["out"] if o["ty"] == "TABLE"]
    res = {"m": m, "impl": impl, "ntables": len(tables), "tables": tables, "table_outs": table_outs}
    if want_model:
        res["load_op"] = c16.model_op(case, m, nodes, table, order, impl["reads"], impl["out"])
        res["tree_op"] = {"op": "location_trees",
                          "tables": [{"loc": o["loc"], "sheet": o["sheet"], "row": o["row"], "history": o["history"]}
                                     for o in impl["out"] if o["ty"] == "TABLE"]}
        res["forest"] = canon_forest(m, roots, tables)
        res["sub_op"] = {"op": "location_trees",
                         "tables": [{"loc": o["loc"], "sheet": o["sheet"], "row": o["row"], "history": o["history"]}
                                    for o in (table_outs[k] for k in sel)]}
        res["sub_forest"] = canon_forest(m, sub_roots, sub)
    return res


def run(tier, seed, model_ok, translator, search=False):
    out = Outcome()
    out.rule = ("every include digraph on 1-2 files and a sample (thorough: all) of those on 3 files, plus random input "
                "sets of 1-6 files (csv, multi-sheet xlsx with sheet-name patterns, mem:) in up to 3 folders, files "
                "written with metadata, leading blank rows, comment rows, 0-3 tables per sheet, include directives "
                "anywhere between them; workbooks with include directives on the same row of several sheets; pairs of "
                "consecutive loads over one tree that reach a shared file by different includers. The forest is built "
                "from a list, a dict view, a one-shot iterator, a generator and a TableBundle iterator. "
                "Non-trivial: at least one table was yielded; distinct by file contents.")
    scratch = Path(tempfile.mkdtemp(prefix="c18-")).resolve()
    ops, pend = [], []
    try:
        c16.warm_up(scratch)
        order = c16.probe_order(scratch)
        out.count("worklist_discipline:" + "/".join(order[k] for k in ("pop", "children", "lines")))
        for idx, case in gen_cases(tier, seed, search):
            case["seed"], case["index"] = seed, idx
            res = one_case(case, scratch / str(idx), out, model_ok and not search, order)
            shutil.rmtree(scratch / str(idx), ignore_errors=True)
            out.evaluations += 1
            if len(out.failures) >= 25:
                out.notes.append("stopped generating after 25 oracle failures")
                break
            if res is None:
                continue
            if idx in (3, 80) or (len(out.samples) < 2 and res["ntables"] >= 3):
                out.samples.append(case)
            if res["ntables"]:
                out.nontrivial.add(hash(repr(case["files"]) + repr(case["roots"])))
            out.count("tables_yielded", res["ntables"])
            out.count("after_load:" + str(case.get("after_load")))
            if case.get("streams"):
                out.count("cases_also_read_as_nameless_streams")
            out.count("cases:" + ("graph" if "graph" in case["gen"] else "aligned" if "aligned" in case["gen"]
                                  else "tall" if "tall" in case["gen"] else "random"))
            al = case.get("aligned_includes", [])
            if any(a[0] == b[0] and a[1] != b[1] and a[2] == b[2] for a in al for b in al):
                out.count("cases_with_include_directives_on_the_same_row_of_two_sheets")
            st = res["impl"]["status"]
            out.count("status:" + (st if isinstance(st, str) else st["exc"]))
            depth = max([len(o["history"]) for o in res["impl"]["out"] if o["history"]] or [0])
            out.count("max_history_depth:%d" % depth)
            for f, fid in zip(case["files"], res["m"].file_id):
                out.count("filekind:" + f["kind"])
                if f["kind"] == "xlsx" and f.get("charts"):
                    out.count("workbooks_with_chart_sheets")
                    if any(ix < len(f["sheets"]) for _, ix in f["charts"]):
                        out.count("workbooks_with_a_chart_sheet_before_a_worksheet")
                if f["kind"] == "xlsx":
                    out.count("xlsx_sheets:%d" % len(f["sheets"]))
                    out.count("xlsx_sheets_with_hostile_title",
                              sum(1 for sh in f["sheets"] if any(sh["name"].startswith(h) for h in c16.HOSTILE_TITLES)))
                    for sh, osh in zip(f["sheets"], res["m"].rows.get(fid, [])):
                        if sh.get("col_offset"):
                            out.count("xlsx_sheet_first_column_not_A")
                        lead = 0
                        for r in sh["rows"]:
                            if any(c is not None and c != "" for c in r):
                                break
                            lead += 1
                        if lead and lead < len(sh["rows"]):
                            out.count("xlsx_sheet_leading_empty_rows:%d" % lead)
                            if any(b["ty"] == "TABLE" for b in sh["truth"]):
                                out.count("xlsx_tables_below_leading_empty_rows")
            if model_ok and not search:
                ops += [res["load_op"], res["tree_op"], res["sub_op"]]
                pend.append((case, res))
        for k, calls in enumerate(gen_shared_dict(tier, seed, search)):
            if len(out.failures) >= 25:
                break
            hist_input = {"history": calls, "seed": seed, "index": f"h{k}"}
            results = shared_dict_loads(calls, scratch / f"h{k}", out, hist_input, model_ok and not search, order)
            shutil.rmtree(scratch / f"h{k}", ignore_errors=True)
            out.evaluations += len(calls)
            out.count("loads_sharing_one_protocol_dict", len(calls))
            out.count("shared_dict_histories:" + "/".join(
                ("rooted" if c["root_folder"] else "unrooted") for c in calls))
            if len({c["sep"] for c in calls}) > 1:
                out.count("shared_dict_histories_with_differing_csv_sep")
            for c, res in results:
                if res["ntables"]:
                    out.nontrivial.add(hash(repr(c["files"]) + repr(c["roots"])))
                if model_ok and not search:
                    ops += [res["load_op"], res["tree_op"], res["sub_op"]]
                    pend.append((c, res))
        for k, (first, second) in enumerate(gen_two_loads(tier, seed, search)):
            if len(out.failures) >= 25:
                break
            for c in (first, second):
                c["seed"], c["index"] = seed, f"t{k}"
            results = two_loads(first, second, scratch / f"t{k}", out, model_ok and not search, order)
            shutil.rmtree(scratch / f"t{k}", ignore_errors=True)
            out.evaluations += 2
            out.count("cases:two_loads_over_one_tree")
            shared = [o for o in (results[-1]["impl"]["out"] if len(results) == 2 else [])
                      if o["ty"] == "TABLE" and o["history"] and len(o["history"]) >= 2]
            if shared:
                out.count("second_loads_reaching_an_included_file")
            for c, res in zip((first, second), results):
                if res["ntables"]:
                    out.nontrivial.add(hash(repr(c["files"]) + repr(c["roots"])))
                if model_ok and not search:
                    ops += [res["load_op"], res["tree_op"], res["sub_op"]]
                    pend.append((c, res))
                    if "union_op" in res:
                        ops.append(res["union_op"])
                        out.count("forests_over_the_tables_of_two_loads")
        if model_ok and ops:
            answers = common.run_model(ops)
            pos = 0
            for case, res in pend:
                c16.compare(case, res["m"], res["impl"], answers[pos], out, with_history=True)
                checks = [("make_location_trees: forest differs from the model's", res["forest"], answers[pos + 1]),
                          ("make_location_trees over a selection of the tables: forest differs from the model's",
                           res["sub_forest"], answers[pos + 2])]
                pos += 3
                if "union_op" in res:
                    checks.append(("make_location_trees over the tables of two loads: forest differs from the "
                                   "model's", res["union_forest"], answers[pos]))
                    pos += 1
                for what, want, forest in checks:
                    if isinstance(forest, dict) and "error" in forest:
                        out.mismatch("driver refused the location_trees op", case, want, forest)
                    elif sort_forest(forest) != want:
                        out.mismatch(what, case, want, forest)
    finally:
        shutil.rmtree(scratch, ignore_errors=True)
    out.samples = out.samples[:2]
    return out


def replay(rep):
    case = rep.get("input") or {}
    if "files" not in case and "history" not in case:
        return False, "replay file has no input (no-failing-input-found): " + str(rep.get("broken"))[:300]
    scratch = Path(tempfile.mkdtemp(prefix="c18r-")).resolve()
    try:
        c16.warm_up(scratch)      # earlier uses of the loader in this process (state left behind), judged by nothing
        o = Outcome()
        if "history" in case:
            shared_dict_loads(case["history"], scratch / "h", o, {"history": case["history"]}, False, "lifo")
        elif "first_roots" in case:
            first = dict(case, roots=case["first_roots"], root_targets=case["first_root_targets"])
            two_loads(first, case, scratch / "case", o, False, "lifo")
        else:
            one_case(case, scratch / "case", o, False, "lifo")
        if o.failures:
            return False, o.failures[0]["what"]
        return True, "property holds on this input"
    finally:
        shutil.rmtree(scratch, ignore_errors=True)
