"""C14 — Table.equals is true exactly for the same header and the same cells.

Correspondence: the real `Table.equals` (both argument orders) and `_equal_or_same` vs the Lean model
(`Equals.equals`, `Equals.equalOrSame`) on the same observed tables: public header attributes plus the
scalars `df.itertuples()` yields (index label first).
Oracle: the C14 statement computed from the table *contents* (`df[col].tolist()`, never itertuples, never
pdtable's comparison) by `ref_equal`, plus the verdict known by construction of each single-aspect mutation,
plus reflexivity and symmetry of the implementation's answers.
"""
import copy
import datetime
import logging
import warnings
from fractions import Fraction

from harness import common
from harness.common import Outcome, make_rng, InfraError

logging.disable(logging.CRITICAL)

EXTRA = {
    "assumptions": [
        "cells and index labels are scalars of the StarTable kinds: int / float / bool (numpy or Python), str, "
        "tz-naive and tz-aware Timestamp / datetime (aware ones compare by instant, aware vs naive is unequal), and "
        "the missing flavours None, NaN, NaT, pd.NA; containers (an ndarray cell makes t.equals(t) False through the "
        "`except Exception` arm) and objects with a user-defined __eq__ are outside the statement",
        "equals reads name / units / column names through get_table_info(check_dataframe=True), so on a table whose "
        "column units are inconsistent with its dtypes it raises ColumnUnitException instead of answering; the "
        "tables generated here are consistent (units follow dtypes), such tables are C15's subject",
        "both objects are instances of the same class: `isinstance(other, self.__class__)` makes "
        "Table.equals(sub) True and sub.equals(table) False for an instance `sub` of a Table subclass with the "
        "same content (modelled, proved as `subclass_asymmetric`, compared with the code each run, not part of "
        "the symmetry oracle)",
        "numbers enter the model as the canonical token of their exact value (decimal integer or repr(float)) "
        "computed by CPython in the harness: Python `==` on int/float/bool is exact-value equality",
        "the identity disjunct `a is b` of _equal_or_same is not modelled (for the scalar kinds above identity "
        "implies == or both-missing)",
    ],
    "explanation": "equals_iff / equals_iff_labelled / equals_refl / equals_symm / equals_trans (with trans_needs_rect) / origin_orientation_ignored / "
                   "non_table_false / row_count_matters (Props/C14.lean) hold for tables of every size; the model is "
                   "tied to proxy.py by differential execution of Table.equals and _equal_or_same every run.",
    "trusted_base": ["pandas DataFrame.itertuples() / Series.tolist() as the observation of table contents"],
}

# units / destinations differing only in letter case or surrounding blanks are different units / destinations
NUM_UNITS = ["m", "mm", "-", "kg", "C", "c", " m", "KG", "m "]
NAMES = ["t", "tab", "T", "é_1", "t "]
COLNAMES = ["a", "b", "c", "d", "A", "col é", "x_1"]
# column names that are different strings but collide or break as Python identifiers (namedtuple field names):
# composed / decomposed accents (same identifier after NFKC), full-width vs ASCII, keywords, digit / underscore starts,
# the names namedtuple's rename would invent
CONFUSABLE_PAIRS = [("\u00e9", "e\u0301"), ("\uff41", "a"), ("class", "def"), ("1a", "a"), ("_1", "_2"), ("_0", "a"),
                    ("\u212b", "\u00c5"), ("for", "_3"), ("a b", "a_b"), ("Index", "index")]
COLNAMES = COLNAMES + ["\u00e9", "e\u0301", "\uff41", "class", "1a", "_1", "Index"]
DESTS = [["all"], ["x", "y"], ["y", "x", "z"], ["all", "x"], [], ["All"], ["x ", "y"], ["X", "y"], [" all"]]
# tz-aware instants: {"tsz": [wall-clock iso, zone]}; the first two are the same instant in different zones
TSZ = [{"tsz": ["2020-01-01T12:00:00", "UTC"]}, {"tsz": ["2020-01-01T13:00:00", "Europe/Copenhagen"]},
       {"tsz": ["2020-01-01T12:00:00", "Europe/Copenhagen"]}, {"tsz": ["2020-06-01T12:00:00", "UTC"]},
       # the first instant again, at a non-whole-hour positive and a negative offset
       {"tsz": ["2020-01-01T17:30:00", "Asia/Kolkata"]}, {"tsz": ["2020-01-01T08:30:00", "America/St_Johns"]}]
# instants outside the datetime64[ns] range (pandas 3 keeps them in [s]/[ms]/[us] columns)
FAR = [{"ts": "1500-03-01T00:00:00"}, {"ts": "3000-06-01T12:00:00"}, {"ts": "0001-01-01T00:00:00"},
       {"ts": "9999-12-31T23:59:59"}]
RES = {"dt_s": "s", "dt_ms": "ms", "datetime": "us", "dt_ns": "ns"}
TS = ["2020-01-01T00:00:00", "2020-01-01T00:00:00.000001", "1999-12-31T23:59:59", "2021-06-01T12:00:00"]

# spec values are JSON-native: int, float(finite), bool, str, None, {"v": "nan"|"inf"|"-inf"|"nat"|"na"}, {"ts": iso}
POOL = {
    "int": [0, 1, 2, 3, -1, 7, 10, 2 ** 53, 2 ** 53 + 1, -5],
    "float": [0.0, -0.0, 1.0, 2.0, 2.5, -1.5, 0.1, 1e300, 1.00000000000001, float(2 ** 53), {"v": "nan"},
              {"v": "inf"}, {"v": "-inf"}, 3.0, 7.0],
    "bool": [True, False],
    "text": ["x", "y", "", "X", "1", "nan", "é", None, "x "],
    "object": [1, 1.0, True, "x", "1", None, {"v": "nan"}, {"v": "nat"}, {"v": "na"}, 2.5, {"ts": TS[0]}, "y", 0, False,
               {"tsz": ["2020-01-01T12:00:00", "UTC"]}, {"tsz": ["2020-01-01T13:00:00", "Europe/Copenhagen"]},
               {"tsz": ["2020-01-01T12:00:00", "Europe/Copenhagen"]}, {"ts": "2020-01-01T12:00:00"}],
    "datetime": [{"ts": t} for t in TS] + [{"v": "nat"}] + FAR,                     # datetime64[us]
    "dt_s": [{"ts": "2020-01-01T00:00:00"}, {"ts": "1999-12-31T23:59:59"}, {"v": "nat"}] + FAR,
    "dt_ms": [{"ts": "2020-01-01T00:00:00"}, {"ts": "2020-01-01T00:00:00.123"}, {"v": "nat"}] + FAR,
    "dt_ns": [{"ts": "2020-01-01T00:00:00"}, {"ts": "2020-01-01T00:00:00.000000001"}, {"ts": "1999-12-31T23:59:59"},
              {"ts": "1677-09-22T00:00:00"}, {"ts": "2262-04-11T00:00:00"}, {"ts": "2020-01-01T00:00:00.000001"},
              {"v": "nat"}],
    "dt_utc": TSZ + [{"v": "nat"}],
    "dt_cph": TSZ + [{"v": "nat"}],
    "Int64": [0, 1, 2, 3, -1, {"v": "na"}, 7],
    "Float64": [0.0, 1.0, 2.5, {"v": "na"}, 3.0],
    "boolean": [True, False, {"v": "na"}],
    "string": ["x", "y", "", {"v": "na"}, "1"],
}
KINDS = list(POOL)


def dec(v):
    """spec value -> Python / pandas scalar"""
    import pandas as pd
    if isinstance(v, dict):
        if "ts" in v:
            return pd.Timestamp(v["ts"])
        if "tsz" in v:
            return pd.Timestamp(v["tsz"][0], tz=v["tsz"][1])
        return {"nan": float("nan"), "inf": float("inf"), "-inf": float("-inf"), "nat": pd.NaT, "na": pd.NA}[v["v"]]
    return v


NUMERIC_KINDS = ("int", "float", "datetime", "dt_s", "dt_ms", "dt_ns", "dt_utc", "dt_cph", "Int64", "Float64")


def unit_for(kind, rng):
    if kind in ("bool", "boolean"):
        return "onoff"
    if kind in ("text", "object", "string"):
        return "text"
    if kind in ("datetime", "dt_utc", "dt_cph", "dt_s", "dt_ms", "dt_ns"):
        return "datetime"
    return rng.choice(NUM_UNITS)


def expand_values(col):
    """`{"seq": n, "at": {position: value}}`: n deterministic values with single cells replaced (long tables are
    written down compactly in the case)"""
    v = col["values"]
    if not isinstance(v, dict) or "seq" not in v:
        return v
    n = v["seq"]
    if col["kind"] == "int":
        out = [(i * 37) % 1000 for i in range(n)]
    elif col["kind"] == "float":
        out = [((i * 53) % 4096) / 8.0 for i in range(n)]
    else:
        out = ["r%d" % (i % 7) for i in range(n)]
    for pos, val in (v.get("at") or {}).items():
        out[int(pos)] = val
    return out


def ts_key(x):
    """exact calendar components of a timestamp (UTC for aware ones); no overflow for years 1 … 9999"""
    import pandas as pd
    ts = pd.Timestamp(x)
    if ts.tzinfo is not None:
        ts = ts.tz_convert("UTC")
    return "%d-%d-%d-%d-%d-%d-%d-%d" % (ts.year, ts.month, ts.day, ts.hour, ts.minute, ts.second, ts.microsecond,
                                       ts.nanosecond)


def make_array(col):
    import numpy as np
    import pandas as pd
    k, vals = col["kind"], [dec(v) for v in expand_values(col)]
    if k == "int":
        return np.array(vals, dtype=np.int64)
    if k == "float":
        return np.array(vals, dtype=np.float64)
    if k == "bool":
        return np.array(vals, dtype=bool)
    if k == "text":
        return pd.array(vals, dtype="str")
    if k == "object":
        a = np.empty(len(vals), dtype=object)
        for i, v in enumerate(vals):
            a[i] = v
        return a
    if k in RES:
        return pd.array(vals, dtype="datetime64[%s]" % RES[k])
    if k in ("dt_utc", "dt_cph"):
        # a tz-aware datetime column: every instant expressed in the column's own zone
        zone = "UTC" if k == "dt_utc" else "Europe/Copenhagen"
        return pd.DatetimeIndex([v if v is pd.NaT else v.tz_convert(zone) for v in vals]).as_unit("us").array
    if k in ("Int64", "Float64", "boolean", "string"):
        return pd.array(vals, dtype=k)
    raise InfraError("unknown column kind " + k)


_SUB = []


def sub_class():
    from pdtable import Table
    if not _SUB:
        class SubTable(Table):
            pass
        _SUB.append(SubTable)
    return _SUB[0]


# non-Table arguments that carry the content of the table they are compared with (built from `self`)
NT_CARRIERS = ["own_df", "twin_df", "df_copy", "plain_df", "series", "tuple_name_df", "list_name_df", "duck", "repr",
               "column_proxies", "dict_of_columns", "tdf_subclass_view"]
NT_UNRELATED = ["none", "int", "str", "float", "list", "dict", "df", "tdf", "type"]


def build_non_table(kind, ctx):
    """a non-Table argument; `ctx` = (self table, its spec) for the kinds derived from the table itself"""
    import types
    import pandas as pd
    from pdtable import Table
    if kind in NT_UNRELATED:
        return {"none": None, "int": 42, "str": "a string", "float": 3.5, "list": [1, 2], "dict": {"name": "t"},
                "df": pd.DataFrame({"c": [1, 2]}), "type": Table,
                "tdf": Table(pd.DataFrame({"c": [1, 2]}), name="t", units=["m"]).df}[kind]
    if ctx is None:
        raise InfraError("non-Table argument '" + kind + "' needs the table it is derived from")
    a, a_spec = ctx
    if kind == "own_df":
        return a.df                                   # the table's own backing TableDataFrame
    if kind == "twin_df":
        return build(a_spec).df                       # backing TableDataFrame of an equal table
    if kind == "df_copy":
        return a.df.copy()                            # TableDataFrame copy (metadata travels along)
    if kind == "tdf_subclass_view":
        return a.df.iloc[:, :]                        # TableDataFrame produced by a pandas operation
    if kind == "plain_df":
        return pd.DataFrame(a.df)
    if kind == "series":
        return a.df.iloc[:, 0] if a.df.shape[1] else pd.Series([1, 2], name=a.name)
    if kind == "tuple_name_df":
        return (a.name, a.df)
    if kind == "list_name_df":
        return [a.name, a.df]
    if kind == "duck":
        return types.SimpleNamespace(name=a.name, df=a.df, _df=a.df, metadata=a.metadata, units=a.units,
                                     column_names=a.column_names, destinations=a.destinations,
                                     table_data=a.table_data, equals=a.equals)
    if kind == "repr":
        return repr(a)
    if kind == "column_proxies":
        return a.column_proxies
    if kind == "dict_of_columns":
        return {c: a.df[c].tolist() for c in a.column_names}
    raise InfraError("unknown non-Table kind " + kind)


def build(spec, ctx=None):
    """spec -> real Table (or the non-Table argument)"""
    import pandas as pd
    from pdtable import Table
    if "nt" in spec:
        return build_non_table(spec["nt"], ctx)
    n = spec["nrows"]
    idx = pd.Index(spec["index"]) if spec["index"] is not None else pd.RangeIndex(n)
    # every column as a Series of the final dtype on the final index: no inference, no alignment
    data = {}
    for c in spec["cols"]:
        arr = make_array(c)
        data[c["name"]] = pd.Series(arr, index=idx, dtype=object if c["kind"] == "object" else arr.dtype)
    df = pd.DataFrame(data, index=idx)
    cls = sub_class() if spec["cls"] == "Sub" else Table
    units = [c["unit"] for c in spec["cols"]]
    kw = {"units": units}
    if n == 0 and spec.get("units_mode") == "none":
        kw = {}                                   # a zero-row table built without `units=`: nothing is registered
    elif n == 0 and spec.get("units_mode") == "short":
        kw = {"units": units[: len(units) // 2]}  # units for the first columns only
    with warnings.catch_warnings():
        warnings.simplefilter("ignore")
        t = cls(df, name=spec["name"], destinations=set(spec["dests"]), transposed=spec["transposed"], **kw)
        for c in spec.get("df_added", []):        # columns added through the backing frame afterwards
            arr = make_array(c)
            t.df[c["name"]] = pd.Series(arr, index=idx, dtype=object if c["kind"] == "object" else arr.dtype)
        # display attributes of the column register (not part of the header the statement speaks about)
        from pdtable.table_metadata import ColumnFormat
        cm = t.column_metadata
        for c in spec["cols"]:
            if c["name"] in cm:
                if "display_unit" in c:
                    cm[c["name"]].display_unit = c["display_unit"]
                if "display_format" in c:
                    cm[c["name"]].display_format = ColumnFormat(c["display_format"])
    t.metadata.origin = spec["origin"]
    via = spec.get("via")
    if via:
        # the table is not built directly: its columns are brought into `order` by pandas operations on the
        # backing frame of the table built above
        with warnings.catch_warnings():
            warnings.simplefilter("ignore")
            if via["how"] == "rewrap":
                t = Table(t.df[list(via["order"])])           # column selection, facade re-created
            elif via["how"] == "copywrap":
                t = Table(t.df.copy())                        # a copy of the frame (register copied along), re-wrapped
            elif via["how"] == "inplace":
                _ = t.units                                    # the header has been consulted before
                for nm in via["order"]:                        # move each column to the end, in place
                    ser = t.df.pop(nm)
                    t.df[nm] = ser
            else:
                raise InfraError("unknown derivation " + str(via))
    return t


# ---------------------------------------------------------------- observation -> model input

def sc(x):
    """a scalar as itertuples yields it -> protocol scalar (see lean/Drv/Equals.lean)"""
    import numpy as np
    import pandas as pd
    if x is None:
        return {"m": "none"}
    if x is pd.NA:
        return {"m": "na"}
    if x is pd.NaT:
        return {"m": "nat"}
    if isinstance(x, (bool, np.bool_)):
        return {"n": "1" if x else "0"}
    if isinstance(x, (int, np.integer)):
        return {"n": str(int(x))}
    if isinstance(x, (float, np.floating)):
        x = float(x)
        if x != x:
            return {"m": "nan"}
        if x in (float("inf"), float("-inf")):
            return {"n": "inf" if x > 0 else "-inf"}
        return {"n": str(int(x)) if x.is_integer() else repr(x)}
    if isinstance(x, str):
        return {"s": x}
    if isinstance(x, (pd.Timestamp, datetime.datetime)):
        if x.tzinfo is not None:
            return {"z": ts_key(x)}      # the UTC instant
        return {"t": ts_key(x)}
    raise InfraError(f"scalar outside the modelled kinds: {type(x).__name__}")


def observe(t):
    from pdtable import Table
    if not isinstance(t, Table):
        return {"nt": type(t).__name__}
    return {"sub": type(t) is not Table, "name": t.name, "dests": sorted(t.destinations),
            "cols": list(t.column_names), "units": list(t.units),
            "rows": [[sc(x) for x in row] for row in t.df.itertuples(name=None)],
            "transposed": bool(t.metadata.transposed),
            "origin": t.metadata.origin if isinstance(t.metadata.origin, str) else type(t.metadata.origin).__name__}


# ---------------------------------------------------------------- reference (from the property text)

def ref_missing(x):
    import pandas as pd
    return x is None or x is pd.NA or x is pd.NaT or (isinstance(x, float) and x != x)


def ref_number(x):
    import numpy as np
    return isinstance(x, (bool, int, float, np.bool_, np.integer, np.floating))


def ref_val_eq(x, y):
    """by value, whatever the numeric type; missing equals missing"""
    import math
    import numpy as np
    import pandas as pd
    if type(x) is type(y) and type(x) in (int, str, bool):
        return x == y
    x = x.item() if isinstance(x, np.generic) else x
    y = y.item() if isinstance(y, np.generic) else y
    mx, my = ref_missing(x), ref_missing(y)
    if mx or my:
        return mx and my
    if ref_number(x) and ref_number(y):
        if any(isinstance(v, float) and math.isinf(v) for v in (x, y)):
            return isinstance(x, float) and isinstance(y, float) and x == y
        return Fraction(x) == Fraction(y)
    if isinstance(x, str) and isinstance(y, str):
        return x == y
    if isinstance(x, (pd.Timestamp, datetime.datetime)) and isinstance(y, (pd.Timestamp, datetime.datetime)):
        # "same cells" by ==: pandas' own scalar comparison (instants whatever the resolution or zone; a wall-clock
        # time is never equal to an instant), cross-checked with the exact calendar components
        r = bool(pd.Timestamp(x) == pd.Timestamp(y))
        same_kind = (pd.Timestamp(x).tzinfo is None) == (pd.Timestamp(y).tzinfo is None)
        if r != (same_kind and ts_key(x) == ts_key(y)):
            raise InfraError(f"reference: pandas == and calendar components disagree on {x!r} vs {y!r}")
        return r
    return False


def ref_equal(a, b):
    """the right-hand side of C14's 'if and only if', from the contents of two Tables with default numbering"""
    if a.name != b.name or set(a.destinations) != set(b.destinations):
        return False
    if list(a.column_names) != list(b.column_names):
        return False
    # each column's own unit, looked up by column name (not the positional `units` list equals itself reads)
    ma, mb = a.column_metadata, b.column_metadata
    unit_of = lambda m, c: m[c].unit if c in m else None      # zero-row tables may have unregistered columns
    if [unit_of(ma, c) for c in a.column_names] != [unit_of(mb, c) for c in b.column_names]:
        return False
    if a.df.shape[0] != b.df.shape[0]:
        return False
    for j in range(len(a.column_names)):
        xs, ys = a.df.iloc[:, j].tolist(), b.df.iloc[:, j].tolist()
        if len(xs) != len(ys) or not all(ref_val_eq(x, y) for x, y in zip(xs, ys)):
            return False
    return True


# ---------------------------------------------------------------- generator

def gen_col(rng, name, n, kind=None):
    kind = kind or rng.choice(KINDS)
    pool = POOL[kind][: rng.choice([3, 5, len(POOL[kind])])]
    vals = [copy.deepcopy(rng.choice(pool)) for _ in range(n)]
    return {"name": name, "unit": unit_for(kind, rng), "kind": kind, "values": vals}


def gen_spec(rng, small=False):
    if small:
        # a space small enough for two independent draws to coincide (or differ in numeric type only)
        n = rng.choice([0, 1, 2])
        kind = rng.choice(["int", "float"])
        vals = [rng.choice([0, 1]) for _ in range(n)]
        col = {"name": "a", "unit": rng.choice(["m", "m", "mm"]), "kind": kind,
               "values": [float(v) for v in vals] if kind == "float" else vals}
        return {"cls": "Table", "name": "t", "dests": ["all"], "cols": [col], "nrows": n, "index": None,
                "transposed": rng.random() < 0.5, "origin": rng.choice(["", "a.csv"])}
    n = rng.choice([0, 1, 2, 3, 4, 6])
    ncol = rng.choice([0, 1, 2, 3, 4, 4, 6, 9])
    names = rng.sample(COLNAMES, ncol)
    cols = [gen_col(rng, nm, n, rng.choice(KINDS + ["object", "int", "float"])) for nm in names]
    for c in cols:
        if rng.random() < 0.1:
            c["display_unit"] = rng.choice(["mm", "km"])
        if rng.random() < 0.1:
            c["display_format"] = rng.choice([2, ".3e"])
    if cols and n and rng.random() < 0.3:
        cols[0] = gen_col(rng, cols[0]["name"], n, "object")
        cols[0]["values"][rng.randrange(n)] = rng.choice([None, {"v": "nan"}, {"v": "nat"}, {"v": "na"}])
    return {"cls": "Table", "name": rng.choice(NAMES), "dests": list(rng.choice(DESTS)), "cols": cols, "nrows": n,
            "index": None, "transposed": rng.random() < 0.2, "origin": rng.choice(["", "a.csv", "b.xlsx!Sheet1"])}


def different_value(rng, kind, old):
    """a pool value of the same column kind that is not equal by value to `old`"""
    cands = [v for v in POOL[kind] if not ref_val_eq(dec(v), dec(old))]
    return copy.deepcopy(rng.choice(cands)) if cands else None


# int64 values each exactly representable as float64 whose sum is not (2**53 + 1), or overflows int64 (>= 2**63)
BIG_EXACT = [[2 ** 53, 1, 0], [2 ** 62, 2 ** 62, 1], [2 ** 62, 2 ** 62, 2 ** 62, 2 ** 62], [-2 ** 62, -2 ** 62, -2],
             [2 ** 53, 2 ** 53, 1, 1], [2 ** 60, 1, 2 ** 60, 3], [2 ** 53, -1, 2, 0], [2 ** 62, 2 ** 62]]


MUTATIONS = ["identical", "name", "dests", "dests_reorder", "unit", "colname", "colorder", "cell", "dtype",
             "add_row", "del_row", "add_col", "del_col", "missing_flavour", "missing_dtype", "transposed", "origin",
             "rowswap", "number_type_cell", "subclass", "index", "non_table", "unit_swap", "resolution", "aware_vs_naive",
             "dt_as_int", "display_one_side", "display_both", "copywrap", "near_cell"]


def mutate(rng, spec, kind):
    """returns (mutated spec, expected verdict by construction or None when it depends on the content)"""
    s = copy.deepcopy(spec)
    cols, n = s["cols"], s["nrows"]
    if kind == "identical":
        return s, True
    if kind == "name":
        s["name"] = rng.choice([x for x in NAMES + ["other"] if x != s["name"]])
        return s, False
    if kind == "dests":
        s["dests"] = rng.choice([d for d in DESTS + [["q"]] if set(d) != set(s["dests"])])
        return s, False
    if kind == "dests_reorder":
        s["dests"] = list(reversed(s["dests"]))
        return s, True
    if kind == "transposed":
        s["transposed"] = not s["transposed"]
        return s, True
    if kind == "origin":
        s["origin"] = s["origin"] + "~moved"
        return s, True
    if kind == "subclass":
        s["cls"] = "Sub"
        return s, None
    if kind == "index":
        if n == 0:
            return None, None
        s["index"] = rng.choice([list(range(1, n + 1)), list(reversed(range(n))), [f"r{i}" for i in range(n)],
                                 [float(i) for i in range(n)], [0] * n, list(range(n))])
        return s, None
    if kind == "non_table":
        return {"nt": rng.choice(NT_UNRELATED)}, False
    if kind == "add_row":
        for c in cols:
            c["values"].insert(rng.randint(0, n), copy.deepcopy(rng.choice(POOL[c["kind"]])))
        s["nrows"] = n + 1
        return s, False
    if kind == "del_row":
        if n == 0:
            return None, None
        i = rng.randrange(n)
        for c in cols:
            del c["values"][i]
        s["nrows"] = n - 1
        return s, False
    if kind == "add_col":
        free = [x for x in COLNAMES + ["zz"] if x not in [c["name"] for c in cols]]
        cols.insert(rng.randint(0, len(cols)), gen_col(rng, rng.choice(free), n))
        return s, False
    if not cols:
        return None, None
    want = {"dtype": ("int", "float", "Int64", "dt_utc", "dt_cph"), "missing_dtype": ("Int64", "string", "text"),
            "missing_flavour": ("object",), "number_type_cell": ("object",), "resolution": tuple(RES),
            "aware_vs_naive": ("dt_s", "dt_ms", "datetime"), "dt_as_int": ("dt_ns", "dt_s"),
            "near_cell": ("float", "text", "object")}.get(kind)
    elig = [k for k in range(len(cols)) if want is None or cols[k]["kind"] in want]
    if not elig:
        return None, None
    j = rng.choice(elig)
    c = cols[j]
    if kind == "del_col":
        del cols[j]
        return s, False
    if kind == "unit":
        if c["kind"] in ("bool", "boolean", "text", "object", "string"):
            # special units are forced by the dtype; pick a numeric column instead if there is one
            num = [x for x in cols if x["kind"] in NUMERIC_KINDS]
            if not num:
                return None, None
            c = rng.choice(num)
        c["unit"] = rng.choice([u for u in NUM_UNITS + ["football_fields"] if u != c["unit"]])
        return s, False
    if kind == "unit_swap":
        # the same units on other columns: two numeric columns exchange their (different) units
        num = [x for x in cols if x["kind"] in NUMERIC_KINDS]
        pairs = [(x, y) for x in num for y in num if x is not y and x["unit"] != y["unit"]]
        if not pairs:
            return None, None
        x, y = rng.choice(pairs)
        x["unit"], y["unit"] = y["unit"], x["unit"]
        return s, False
    if kind == "colname":
        c["name"] = rng.choice([x for x in COLNAMES + ["zz"] if x not in [k["name"] for k in cols]])
        return s, False
    if kind == "colorder":
        if len(cols) < 2:
            return None, None
        i = rng.choice([k for k in range(len(cols)) if k != j])
        cols[i], cols[j] = cols[j], cols[i]
        return s, False
    if kind == "dtype":
        if c["kind"] == "int":
            c["kind"] = "float"
            c["values"] = [float(v) for v in c["values"]]      # exact or not: decided by the reference on contents
            return s, None
        if c["kind"] == "float" and all(isinstance(v, float) and v.is_integer() and abs(v) < 2 ** 62 for v in c["values"]):
            c["kind"] = "int"
            c["values"] = [int(v) for v in c["values"]]
            return s, True
        if c["kind"] == "Int64":
            c["kind"] = "Float64"
            c["values"] = [v if isinstance(v, dict) else float(v) for v in c["values"]]
            return s, True
        if c["kind"] in ("dt_utc", "dt_cph"):
            c["kind"] = "dt_cph" if c["kind"] == "dt_utc" else "dt_utc"      # the same instants in another time zone
            return s, True
        return None, None
    if kind == "near_cell":
        # ONE cell that differs "a little": the next float up / down, or the same text in another Unicode normal form
        if n == 0:
            return None, None
        import math
        i = rng.randrange(n)
        base_c = [x for x in spec["cols"] if x["name"] == c["name"]][0]
        if c["kind"] == "float":
            x = rng.choice([0.3, 1.0, 0.1, 1e300, 123456.789, -2.5, 5e-324, 1e-300])
            y = math.nextafter(x, rng.choice([math.inf, -math.inf]))
        else:
            x, y = rng.choice([("caf\u00e9", "cafe\u0301"), ("\u00c5", "A\u030a"), ("\u212b", "\u00c5"), ("\ufb01", "fi"),
                               ("x", "x\u200b"), ("a", "\uff41"), ("1", "\u0661")])
            if rng.random() < 0.5:
                x, y = y, x
        base_c["values"][i] = x           # the base is given the one value, the mutant its near twin
        c["values"][i] = y
        return s, False
    if kind in ("display_one_side", "display_both"):
        # display format / display unit of a column: not header, not cells -> equals must not look at them
        disp = {"display_unit": rng.choice(["mm", "km", c["unit"]]), "display_format": rng.choice([2, 0, "14.3e", ".1f"])}
        if rng.random() < 0.3:
            disp.pop(rng.choice(list(disp)))
        c.update(disp)
        if kind == "display_both":
            # the same display attributes on the base too — as two separately created objects
            [x for x in spec["cols"] if x["name"] == c["name"]][0].update(copy.deepcopy(disp))
        return s, True
    if kind == "copywrap":
        s["via"] = {"how": "copywrap"}
        if rng.random() < 0.5:
            c.update({"display_unit": "mm", "display_format": 3})
        return s, True
    if kind == "resolution":
        # the same instants in a datetime column of another resolution ([s] / [ms] / [us] / [ns])
        def fits(v, unit):
            if isinstance(v, dict) and "v" in v:
                return True
            try:
                dec(v).as_unit(unit, round_ok=False)
                return True
            except Exception:
                return False
        others = [k for k in RES if k != c["kind"] and all(fits(v, RES[k]) for v in c["values"])]
        if not others:
            return None, None
        c["kind"] = rng.choice(others)
        return s, True
    if kind == "aware_vs_naive":
        # the same wall-clock readings, once as instants (UTC), once without a zone: equal only where both are missing
        c["kind"] = "dt_utc"
        c["values"] = [v if "v" in v else {"tsz": [v["ts"], "UTC"]} for v in c["values"]]
        return s, None
    if kind == "dt_as_int":
        # the column's instants as plain integers (epoch counts in the column's own resolution)
        if any("v" in v for v in c["values"]):
            return None, None
        unit = RES[c["kind"]]
        c["values"] = [int(dec(v).as_unit(unit)._value) for v in c["values"]]
        c["kind"] = "int"
        return s, None
    if kind == "missing_dtype":
        # the same values held in another missing-value representation: Int64 <NA> vs float NaN, string vs str
        if c["kind"] == "Int64":
            c["kind"] = "float"
            c["values"] = [{"v": "nan"} if isinstance(v, dict) else float(v) for v in c["values"]]
            return s, True
        if c["kind"] == "string":
            c["kind"] = "text"
            c["values"] = [None if isinstance(v, dict) else v for v in c["values"]]
            return s, True
        if c["kind"] == "text":
            c["kind"] = "object"
            return s, True
        return None, None
    if n == 0:
        return None, None
    i = rng.randrange(n)
    if kind == "cell":
        v = different_value(rng, c["kind"], c["values"][i])
        if v is None:
            return None, None
        c["values"][i] = v
        return s, False
    if kind == "missing_flavour":
        def is_miss(v):
            return v is None or (isinstance(v, dict) and v.get("v") in ("nan", "nat", "na"))
        miss = [k for k in range(n) if is_miss(c["values"][k])]
        if not miss or c["kind"] != "object":
            return None, None
        i = rng.choice(miss)
        c["values"][i] = rng.choice([m for m in (None, {"v": "nan"}, {"v": "nat"}, {"v": "na"}) if m != c["values"][i]])
        return s, True
    if kind == "number_type_cell":
        if c["kind"] != "object":
            return None, None
        nums = [k for k in range(n) if type(c["values"][k]) in (int, float, bool) and c["values"][k] in (0, 1)]
        if not nums:
            return None, None
        i = rng.choice(nums)
        v = c["values"][i]
        c["values"][i] = rng.choice([w for w in ((1, 1.0, True) if v == 1 else (0, 0.0, False)) if type(w) is not type(v)])
        return s, True
    if kind == "rowswap":
        if n < 2:
            return None, None
        k = rng.choice([x for x in range(n) if x != i])
        for cc in cols:
            cc["values"][i], cc["values"][k] = cc["values"][k], cc["values"][i]
        return s, None
    raise InfraError("unknown mutation " + kind)


def scalar_comparator():
    """`pdtable.proxy._equal_or_same` when the library has such a function (it is private: it may be inlined or
    renamed), else the same question asked through the public surface: two one-cell tables"""
    import numpy as np
    import pandas as pd
    from pdtable import Table, proxy
    f = getattr(proxy, "_equal_or_same", None)
    if callable(f):
        return f, "_equal_or_same"

    def one_cell(x):
        a = np.empty(1, dtype=object)
        a[0] = x
        return Table(pd.DataFrame({"c": pd.Series(a, dtype=object)}), name="t", units=["text"])

    return (lambda x, y: one_cell(x).equals(one_cell(y))), "one-cell tables"


def scalar_pool():
    import numpy as np
    import pandas as pd
    return [None, float("nan"), np.nan, pd.NaT, pd.NA, 0, 1, 2, -1, True, False, 0.0, -0.0, 1.0, 2.5, 0.1,
            1.00000000000001, 2 ** 53, 2 ** 53 + 1, float(2 ** 53), 1e300, float("inf"), float("-inf"),
            np.int64(1), np.float64(1.0), np.float64("nan"), np.bool_(True), "x", "", "1", "1.0", "True", "nan",
            "None", "é", pd.Timestamp(TS[0]), pd.Timestamp(TS[1]), datetime.datetime(2020, 1, 1),
            pd.Timestamp(TS[0]).as_unit("ns"), "2020-01-01T00:00:00", "2020-01-01 00:00:00",
            # tz-aware: the same instant in three zones / as a datetime, another instant, the naive wall-clock time
            pd.Timestamp("2020-01-01T12:00:00", tz="UTC"), pd.Timestamp("2020-01-01T13:00:00", tz="Europe/Copenhagen"),
            pd.Timestamp("2020-01-01T13:00:00+01:00"), datetime.datetime(2020, 1, 1, 12, tzinfo=datetime.timezone.utc),
            pd.Timestamp("2020-01-01T12:00:00", tz="Europe/Copenhagen"), pd.Timestamp("2020-01-01T12:00:00"),
            datetime.datetime(2020, 1, 1, 12),
            # near twins: next floats, Unicode normal forms
            0.3, 0.1 + 0.2, 1.0000000000000002, "caf\u00e9", "cafe\u0301", "\u212b", "\u00c5",
            # other resolutions, far years, sub-second parts, odd offsets, epoch integers
            pd.Timestamp("2020-01-01T12:00:00").as_unit("s"), pd.Timestamp("2020-01-01T12:00:00").as_unit("ns"),
            pd.Timestamp("3000-06-01T12:00:00"), pd.Timestamp("0001-01-01T00:00:00"), datetime.datetime(3000, 6, 1, 12),
            pd.Timestamp("2020-01-01T12:00:00.000000001"), pd.Timestamp("2020-01-01T17:30:00+05:30"),
            pd.Timestamp("2020-01-01T08:30:00-03:30"), 1577880000, 1577880000000000000]


# ---------------------------------------------------------------- run

def is_default_index(t):
    idx = t.df.index
    return list(idx) == list(range(len(idx))) and all(type(x) is int for x in idx.tolist())


def apply_edit(a, b, edit):
    """one in-place header edit through the public setters of the Table facade (no new Table object)"""
    t = a if edit["on"] == "a" else b
    op = edit["op"]
    if op == "name":
        t.metadata.name = edit["value"]
    elif op == "dests":
        t.metadata.destinations = set(edit["value"])
    elif op == "unit_proxy":
        t[edit["col"]].unit = edit["value"]                 # Column.unit setter
    elif op == "units_setter":
        t.units = {edit["col"]: edit["value"]}              # Table.units setter
    else:
        raise InfraError("unknown edit " + op)


def judge(a, b, case, step, expected, out, ops, pend, model_ok):
    """asks the implementation about the objects as they are now (both orders, and (a, a)), applies the oracle
    computed from their current public header and contents, queues the model ops on the current observation"""
    from pdtable import Table
    mut = case.get("mutation", "random")
    where = "" if step == 0 else f" [after in-place edit {step}: {case['edits'][step - 1]['op']}]"
    fcase = case if step == 0 else dict(case, step=step)
    with warnings.catch_warnings():
        warnings.simplefilter("ignore")
        try:
            ab = a.equals(b)
            ba = b.equals(a) if isinstance(b, Table) else None
            aa = a.equals(a)
        except Exception as e:  # equals promises a verdict, never an exception
            out.fail("Table.equals raised" + where, fcase, repr(e), None, key="raised:" + type(e).__name__)
            return None
    if type(ab) is not bool or (ba is not None and type(ba) is not bool):
        out.fail("equals did not return a bool" + where, fcase, [repr(ab), repr(ba)], None, key="not-bool")
        return ab
    same_class = isinstance(b, Table) and type(a) is type(b)
    if not isinstance(b, Table):
        if ab is not False:
            out.fail(f"comparison with a non-Table ({type(b).__name__}) is not False", fcase, ab, False,
                     key="non_table:" + case["b"].get("nt", "?"))
    elif same_class:
        if not aa:
            out.fail("equals is not reflexive" + where, fcase, aa, True, key="reflexive")
        if ab != ba:
            out.fail("equals is not symmetric" + where, fcase, [ab, ba], None, key="symmetric")
        if is_default_index(a) and is_default_index(b):
            exp = ref_equal(a, b)
            if ab != exp or ba != exp:
                out.fail("equals differs from 'same header, same number of rows, pairwise equal cells'" + where,
                         fcase, [ab, ba], exp, key="iff:" + mut + ":" + str(exp))
            if expected is not None and ab != expected:
                out.fail(f"equals gives {ab} for the single-aspect mutation '{mut}'" + where, fcase, ab, expected,
                         key="mutation:" + mut)
            if expected is not None and exp != expected:
                out.notes.append(f"harness: reference and construction disagree on {mut} index {case.get('index')}")
    if model_ok and not case.get("nomodel"):
        oa, ob = observe(a), observe(b)
        ops.append({"op": "equals", "self": oa, "other": ob})
        pend.append(("equals(a,b)" + where, fcase, ab))
        ops.append({"op": "equals", "self": oa, "other": oa})
        pend.append(("equals(a,a)" + where, fcase, aa))
        if ba is not None:
            ops.append({"op": "equals", "self": ob, "other": oa})
            pend.append(("equals(b,a)" + where, fcase, ba))
    return ab


def eval_pair(case, out, ops, pend, model_ok, record=True):
    """builds both objects and judges them; a history case (`edits`) then edits one of the two objects in place,
    step by step, judging the same objects again after every edit"""
    from pdtable import Table
    with warnings.catch_warnings():
        warnings.simplefilter("ignore")
        a = build(case["a"])
        b = build(case["b"], ctx=(a, case["a"]))
    mut = case.get("mutation", "random")
    out.count("mutation:" + mut)
    if record:
        out.case(case, nontrivial=isinstance(b, Table) and len(case["a"]["cols"]) > 0)
    else:
        out.evaluations += 1
    ab = judge(a, b, case, 0, case.get("expected"), out, ops, pend, model_ok)
    out.count(f"verdict:{ab}" + (":" + mut if mut.startswith("random") else ""))
    for k, edit in enumerate(case.get("edits", []), 1):
        with warnings.catch_warnings():
            warnings.simplefilter("ignore")
            apply_edit(a, b, edit)
        out.evaluations += 1
        r = judge(a, b, case, k, edit.get("expected"), out, ops, pend, model_ok)
        out.count(f"history_step:{edit['op']}:{r}")


def gen_history(rng, base):
    """(a, b, expected at step 0, edits): a pair that is compared, then one header aspect of one of the two
    objects is changed in place (making them differ / agree), compared, changed back, compared"""
    num = [c for c in base["cols"] if c["kind"] in NUMERIC_KINDS]
    op = rng.choice(["name", "dests"] + (["unit_proxy", "units_setter", "unit_proxy", "units_setter"] if num else []))
    on = rng.choice(["a", "b"])
    a, b = copy.deepcopy(base), copy.deepcopy(base)
    side = a if on == "a" else b
    edit = {"on": on, "op": op}
    if op == "name":
        old, new = base["name"], rng.choice([x for x in NAMES + ["other"] if x != base["name"]])
    elif op == "dests":
        old, new = list(base["dests"]), list(rng.choice([d for d in DESTS + [["q"]] if set(d) != set(base["dests"])]))
    else:
        c = rng.choice(num)
        edit["col"] = c["name"]
        old, new = c["unit"], rng.choice([u for u in NUM_UNITS + ["km"] if u != c["unit"]])
    if rng.random() < 0.6:
        first, seq = True, [(new, False), (old, True)]
    else:
        # the object starts out differing in that aspect; the edit removes the difference, the next restores it
        first, seq = False, [(old, True), (new, False)]
        if op == "name":
            side["name"] = new
        elif op == "dests":
            side["dests"] = new
        else:
            [x for x in side["cols"] if x["name"] == edit["col"]][0]["unit"] = new
    return a, b, first, [dict(edit, value=v, expected=e) for v, e in seq]


LADDER = [60, 63, 64, 65, 127, 128, 129, 255, 256, 257, 1000, 1023, 1024, 1025, 2047, 2048, 2049, 4095, 4096, 4097,
          8191, 8192, 8193, 20001]
LADDER_QUICK = [1025, 4097, 8193, 12289]  # always: a table above 1024, above 4096, above 8192 and above 10000 rows


def ladder_cases(rng, tier, seed):
    """long tables (written down compactly) that differ from their twin in ONE cell, placed at every ladder
    position -1 / 0 / +1 and in the last row; and the identical twin"""
    idx = -1000
    sizes = LADDER if tier == "thorough" else LADDER_QUICK + rng.sample([x for x in LADDER if x < 1025], 2)
    for n in sizes:
        def table(at=None, col=0):
            cols = [{"name": "a", "unit": "m", "kind": "int", "values": {"seq": n}},
                    {"name": "b", "unit": "mm", "kind": "float", "values": {"seq": n}},
                    {"name": "c", "unit": "text", "kind": "text", "values": {"seq": n}}]
            if at is not None:
                cols[col]["values"]["at"] = {str(at): [-7, -7.5, "other"][col]}
            return {"cls": "Table", "name": "long", "dests": ["all"], "cols": cols, "nrows": n, "index": None,
                    "transposed": False, "origin": ""}
        positions = sorted({p for L in LADDER if L <= n + 1 for p in (L - 2, L - 1, L) if 0 <= p < n} | {0, n - 1})
        if tier != "thorough" and n != 8193:
            positions = [p for p in positions if p >= n - 1100]      # the fine sweep is done on the 8193-row table
        if tier != "thorough" and n > 8193:
            positions = [n - 1, 10000, 10001]
        small = n <= 1100
        yield {"seed": seed, "index": idx, "mutation": "ladder:identical", "expected": True, "rows": n,
               "a": table(), "b": table(), "nomodel": not small}
        idx -= 1
        for k, pos in enumerate(positions):
            yield {"seed": seed, "index": idx, "mutation": "ladder:cell", "expected": False, "rows": n, "cell_row": pos,
                   "a": table(), "b": table(pos, k % 3), "nomodel": not ((small and k % 6 == 0) or pos == n - 1)}
            idx -= 1


def cases(rng, tier, seed):
    n = 1500 if tier == "thorough" else 75
    idx = 0
    for rnd in range(n):
        base = gen_spec(rng)
        for kind in MUTATIONS:
            m, exp = mutate(rng, base, kind)
            if m is None:
                continue
            yield {"seed": seed, "index": idx, "mutation": kind, "expected": exp, "a": copy.deepcopy(base), "b": m}
            idx += 1
        # zero-row tables whose columns are (partly) missing from the column register: built without `units=`, with
        # units for the first columns only, or with a column added through the backing frame
        zb = gen_spec(rng)
        while len(zb["cols"]) < 2:
            zb = gen_spec(rng)
        for c in zb["cols"]:
            c["values"] = []
            c.pop("display_unit", None), c.pop("display_format", None)
        zb.update(nrows=0, index=None)
        zmode = rng.choice(["none", "short", "added"])
        if zmode == "added":
            zb["df_added"] = [gen_col(rng, "zz_added", 0)]
        else:
            zb["units_mode"] = zmode
        for kind in ("identical", "colname", "add_col", "del_col", "colorder", "name"):
            m, exp = mutate(rng, zb, kind)
            if m is None:
                continue
            yield {"seed": seed, "index": idx, "mutation": f"zero_rows_{zmode}:{kind}", "expected": exp,
                   "a": copy.deepcopy(zb), "b": m}
            idx += 1
        if zmode == "added":
            m = copy.deepcopy(zb)
            m["df_added"][0]["name"] = "zz_other"
            yield {"seed": seed, "index": idx, "mutation": "zero_rows_added:other_added_name", "expected": False,
                   "a": copy.deepcopy(zb), "b": m}
            idx += 1
            m = copy.deepcopy(zb)
            m["df_added"] = []
            yield {"seed": seed, "index": idx, "mutation": "zero_rows_added:not_added", "expected": False,
                   "a": copy.deepcopy(zb), "b": m}
            idx += 1
        # the same table reached by re-ordering the columns of an existing table's frame (column selection and
        # re-wrap; in-place moves after the header was consulted) versus tables written down directly
        if len(base["cols"]) >= 2:
            names = [c["name"] for c in base["cols"]]
            order = names[:]
            while order == names:
                rng.shuffle(order)
            bycol = {c["name"]: c for c in base["cols"]}
            direct = dict(copy.deepcopy(base), cols=[copy.deepcopy(bycol[nm]) for nm in order])
            # the directly written table that keeps the units in their OLD positions (valid only if the dtypes allow)
            stale = copy.deepcopy(direct)
            for c, old in zip(stale["cols"], base["cols"]):
                c["unit"] = old["unit"]
            forced = lambda c: unit_for(c["kind"], rng) if c["kind"] not in NUMERIC_KINDS else None
            stale_ok = all((c["unit"] == forced(c)) if forced(c) else (c["unit"] not in ("text", "onoff"))
                           for c in stale["cols"]) and \
                [c["unit"] for c in stale["cols"]] != [c["unit"] for c in direct["cols"]]
            for how in ("rewrap", "inplace"):
                derived = dict(copy.deepcopy(base), via={"how": how, "order": order})
                yield {"seed": seed, "index": idx, "mutation": "reorder:" + how, "expected": True,
                       "a": derived, "b": copy.deepcopy(direct)}
                idx += 1
                yield {"seed": seed, "index": idx, "mutation": "reorder_vs_original:" + how, "expected": False,
                       "a": copy.deepcopy(base), "b": copy.deepcopy(derived)}
                idx += 1
                if stale_ok:
                    yield {"seed": seed, "index": idx, "mutation": "reorder_stale_units:" + how, "expected": False,
                           "a": copy.deepcopy(derived), "b": copy.deepcopy(stale)}
                    idx += 1
        # the same numbers as int64 and as float64 where every cell is exact in both types but the column total is
        # not (or overflows int64): numbers compare by value cell by cell, whatever happens to sums
        vals = rng.choice(BIG_EXACT)
        vals = rng.sample(vals, len(vals))
        big = {"cls": "Table", "name": base["name"], "dests": list(base["dests"]), "nrows": len(vals), "index": None,
               "transposed": False, "origin": "",
               "cols": [{"name": "big", "unit": "m", "kind": "int", "values": list(vals)},
                        {"name": "s", "unit": "text", "kind": "text", "values": ["x"] * len(vals)}]}
        asfloat = copy.deepcopy(big)
        asfloat["cols"][0].update(kind="float", values=[float(v) for v in vals])
        yield {"seed": seed, "index": idx, "mutation": "numeric_type_big_exact", "expected": True, "a": big, "b": asfloat}
        idx += 1
        asobj = copy.deepcopy(big)
        asobj["cols"][0].update(kind="Int64")
        yield {"seed": seed, "index": idx, "mutation": "numeric_type_big_exact", "expected": True,
               "a": copy.deepcopy(asfloat), "b": asobj}
        idx += 1
        # column names that collide or are illegal as Python identifiers: reflexivity / iff must not depend on them
        if len(base["cols"]) >= 2:
            pa, pb = rng.choice(CONFUSABLE_PAIRS)
            if rng.random() < 0.5:
                pa, pb = pb, pa
            odd = copy.deepcopy(base)
            for k, c in enumerate(odd["cols"]):
                c["name"] = f"col{k}"
            i, j = rng.sample(range(len(odd["cols"])), 2)
            odd["cols"][i]["name"], odd["cols"][j]["name"] = pa, pb
            yield {"seed": seed, "index": idx, "mutation": "odd_names:identical", "expected": True,
                   "a": odd, "b": copy.deepcopy(odd)}
            idx += 1
            ren = copy.deepcopy(odd)
            ren["cols"][i]["name"], ren["cols"][j]["name"] = pb, pa     # the two names exchanged
            yield {"seed": seed, "index": idx, "mutation": "odd_names:exchanged", "expected": False,
                   "a": copy.deepcopy(odd), "b": ren}
            idx += 1
        # histories: compare, edit one header aspect of one object in place, compare again, edit back, compare
        for _ in range(4):
            ha, hb, first, edits = gen_history(rng, base)
            yield {"seed": seed, "index": idx, "mutation": "history:" + edits[0]["op"], "expected": first,
                   "a": ha, "b": hb, "edits": edits}
            idx += 1
        # non-Table arguments carrying the table's own content: its backing TableDataFrame, copies, wrappers, ducks
        for nt in ["own_df", "twin_df", "df_copy"] + rng.sample(NT_CARRIERS[3:], 3):
            yield {"seed": seed, "index": idx, "mutation": "non_table:" + nt, "expected": False,
                   "a": copy.deepcopy(base), "b": {"nt": nt}}
            idx += 1
        # unrelated pairs from a small space (so that equal ones occur) and from the full space
        yield {"seed": seed, "index": idx, "mutation": "random_small", "a": gen_spec(rng, True), "b": gen_spec(rng, True)}
        idx += 1
        yield {"seed": seed, "index": idx, "mutation": "random", "a": gen_spec(rng), "b": gen_spec(rng)}
        idx += 1
        # non-default index on both sides (general, labelled form of the theorem: correspondence only)
        m, _ = mutate(rng, base, "index")
        if m is not None:
            m2, _ = mutate(rng, m, rng.choice(["identical", "cell", "index", "name"]))
            if m2 is not None:
                yield {"seed": seed, "index": idx, "mutation": "index_both", "a": m, "b": m2}
                idx += 1
        # two columns with the same unit and values under different names, exchanged: differs in column order only
        if len(base["cols"]) >= 2:
            tw = copy.deepcopy(base)
            i, j = rng.sample(range(len(tw["cols"])), 2)
            tw["cols"][i] = dict(copy.deepcopy(tw["cols"][j]), name=tw["cols"][i]["name"])
            sw = copy.deepcopy(tw)
            sw["cols"][i], sw["cols"][j] = sw["cols"][j], sw["cols"][i]
            yield {"seed": seed, "index": idx, "mutation": "colswap_twins", "expected": False, "a": tw, "b": sw}
            idx += 1
        # subclass on the self side / on both sides
        sa = dict(copy.deepcopy(base), cls="Sub")
        yield {"seed": seed, "index": idx, "mutation": "subclass_self", "a": sa, "b": copy.deepcopy(base)}
        idx += 1
        yield {"seed": seed, "index": idx, "mutation": "subclass_both", "a": sa, "b": copy.deepcopy(sa)}
        idx += 1


def run(tier, seed, model_ok, translator, search=False):
    _equal_or_same, how = scalar_comparator()
    out = Outcome()
    out.count("scalar_comparison_via:" + how)
    out.rule = ("pairs (t, mutate t) for every single-aspect mutation of a random table (0-6 rows, 0-4 columns of "
                "kinds int/float/bool/str/object/datetime/Int64/Float64/boolean/string with NaN/None/NaT/pd.NA), "
                "unrelated random pairs from a small and a large space, non-default indexes, one cell differing by one ulp / by Unicode normal form, histories (compare, edit name / "
                "destinations / one unit in place through metadata, Column.unit and Table.units, compare the same "
                "objects again, edit back, compare), tables reached by re-ordering the columns of an existing "
                "table's frame (column selection + re-wrap, in-place moves after a consultation) against directly "
                "written tables with the right and with the stale positional units, columns with display units / display formats on one or both sides and copies of the frame "
                "re-wrapped, zero-row tables with unregistered columns (no units=, short units list, column added "
                "through the frame) differing in a column name or count, datetime columns of every "
                "resolution ([s]/[ms]/[us]/[ns], years 1-9999, NaT) against the same instants in another resolution, as "
                "tz-aware instants and as integer epoch counts, long tables on a size ladder (rows around 64 … 1024, "
                "4096, 8192, 20001) differing in one cell at every ladder position -1/0/+1 and in the last row, "
                "subclass instances and "
                "non-Table arguments (None, scalars, containers, plain DataFrame, and objects carrying the table's own "
                "content: its backing TableDataFrame, a twin's, copies, Series, (name, df) tuples/lists, duck-typed "
                "objects, repr, column proxies); equals evaluated in both orders and on (a, a). Non-trivial: other is a Table "
                "and self has at least one column; distinct by the pair of table specs.")
    rng = make_rng(seed, "C14")
    ops, pend = [], []

    # function level: _equal_or_same on every ordered pair of a scalar pool
    pool = scalar_pool()
    with warnings.catch_warnings():
        warnings.simplefilter("ignore")
        for x in pool:
            for y in pool:
                case = {"equal_or_same": [repr(x), repr(y)]}
                try:
                    r = _equal_or_same(x, y)
                except Exception as e:
                    r = "EXC " + type(e).__name__
                exp = ref_val_eq(x, y)
                out.evaluations += 1
                if r != exp:
                    out.fail("_equal_or_same differs from by-value equality with missing = missing", case,
                             repr(r), exp, key="equal_or_same")
                if model_ok:
                    ops.append({"op": "equal_or_same", "a": sc(x), "b": sc(y)})
                    pend.append(("_equal_or_same", case, r))
    out.count("scalar_pairs", len(pool) ** 2)

    import itertools
    for case in itertools.chain(ladder_cases(make_rng(seed, "C14-ladder"), tier, seed), cases(rng, tier, seed)):
        eval_pair(case, out, ops, pend, model_ok, record=True)
        if case.get("rows"):
            out.count("ladder_rows:%d" % case["rows"])
        if len(out.failures) >= 50:
            break

    if model_ok:
        for (what, case, impl), ans in zip(pend, common.run_model(ops)):
            if isinstance(ans, dict) and "error" in ans:
                out.mismatch("driver error: " + what, case, impl, ans)
            elif ans != impl:
                out.mismatch(f"{what}: Table.equals vs Lean model", case, impl, ans)
    return out


def replay(rep):
    inp = rep.get("input") or {}
    out = Outcome()
    if "a" in inp and "b" in inp:
        eval_pair(inp, out, [], [], False, record=False)
    elif "equal_or_same" in inp:
        _equal_or_same, _ = scalar_comparator()
        pool = {repr(x): x for x in scalar_pool()}
        x, y = pool.get(inp["equal_or_same"][0]), pool.get(inp["equal_or_same"][1])
        with warnings.catch_warnings():
            warnings.simplefilter("ignore")
            try:
                r = _equal_or_same(x, y)
            except Exception as e:
                r = "EXC " + type(e).__name__
        if r != ref_val_eq(x, y):
            return False, "_equal_or_same differs from by-value equality with missing = missing"
        return True, "property holds on this input"
    else:
        return False, "replay file has no input (no-failing-input-found): " + str(rep.get("broken"))[:300]
    if out.failures:
        return False, out.failures[0]["what"]
    return True, "property holds on this input"
