"""C16 — loading reads exactly the reachable files, once each, and always terminates.

Correspondence: the real `load_files` on a generated input set (folders, CSV / xlsx files, an in-memory `mem:`
protocol, include directives in every spelling) vs the Lean `Load.loadFiles` on the *observed world*: the rows
of every sheet as read back by the harness, `iterdir` order, the verdict of the file-name pattern, and the
resolution table computed with the real `_resolve_load_item_path` (path resolution itself is C17's layer).
Compared: the sequence of yielded blocks (location, sheet, origin row, type, name), the end status (exception
class), the tracker contents (which location, which load item), the order of file opens / folder listings
(audit hook).  The work-list discipline (LIFO) is probed once per run and handed to the model.

Oracle (no Lean involved): the C16 statement evaluated from the generator's ground truth — reachable set by
graph search over the *intended* include targets, expected blocks per file, arrivals per location.
"""
import itertools
import logging
import os
import re
import shutil
import signal
import sys
import tempfile
import warnings
from pathlib import Path

from harness import common
from harness.common import Outcome, make_rng, cell_to_json

logging.disable(logging.CRITICAL)

EXTRA = {
    "assumptions": [
        "path resolution (`_resolve_load_item_path`, `Path.resolve`, `is_dir`) is data of the world: the model is "
        "given the resolution table computed with the real code per case (its containment logic is C17)",
        "what exists at a location (folder listing in iterdir order, sheet rows) is observed by the harness, not "
        "re-derived; load identifiers are canonicalised to their path part (the mtime suffix is outside the model; "
        "two versions of one path within a second are not exercised)",
        "a table that does not parse is marked as such by the generator (one illegal numeric cell) — what makes a "
        "table unparsable is C12/C02's matter, the loader model only takes the flag; a directive line that is not a "
        "text cell reaches the model as CPython's str() of the cell; specifications are ASCII (Python str.lower "
        "agrees with the model's ASCII lower-casing there) and hold no NUL",
        "the work-list discipline is a parameter of the model (theorems hold for every discipline); the run uses "
        "the discipline observed on a two-root probe (LIFO for `list.pop()`)",
        "single-threaded load, no file changes during a load",
        "outside the generated domain (reported defects, not judged): a folder entry named exactly `.csv` / `.xlsx` "
        "matches the default file-name pattern and ends the load with ValueError 'Unsupported file extension' without "
        "the tracker being told",
    ],
    "explanation": "Props/C16.lean: terminates (fuel bound from the world), reads_sound_spec / reads_reachable_spec "
                   "(the reachability the loader computes) and reads_sound_partial / reads_reachable_partial (the "
                   "property's reachability, under Spec.entriesFaithful; full strength is false: reads_reachable_fails, "
                   "open finding F6) (work-list "
                   "invariant), at_most_once, blocks_contiguous_in_file_order (+ includes_consumed), duplicate_reported "
                   "(per location: tracker errors = arrivals - 1), default_tracker_completes_only_without_repeats, dup_step, protocol_dispatch "
                   "(+ protocol_dispatch_file_override), bad_table_status — reachability and blocks are taken in "
                   "effWorld (each file cut to what a read under the tracker gets through) — "
                   "for every world, root list, tracker, allow_include and work-list discipline.",
    "trusted_base": ["sys.addaudithook 'open'/'os.listdir' events as the record of what was opened"],
}

SEP = ";"

# known finding F6 (open; the constant names below keep their first name): FolderReader pushes a folder entry's NAME as a specification, so entries named `\x.csv`,
# `file:x.csv`, `FILE:x.csv`, `<registered protocol>:x.csv` are not loaded (another location is resolved instead).
# Such names are generated only once the finding is listed in known_findings.json under this key.
F4_KEY = "folder_entry_read_as_specification"
F4_WHAT = ("a matching folder entry whose name reads like a specification (leading backslash, file:, FILE:, "
           "<registered protocol>:) is not loaded: FolderReader pushes the bare name and it is re-resolved as a "
           "specification")


def f4_listed():
    if os.environ.get("VERIF_F4") == "1":
        return True
    return any(k.get("status") == "open" and k.get("property") == "C16" and k.get("key") == F4_KEY
               for k in common.load_known_findings())


def speclike_entry(case, name):
    low = name.lower()
    return name.startswith(("\\", "/")) or low.startswith("file:") or (case["mem"] and low.startswith("mem:"))
_AUDIT = {"installed": False, "prefix": None, "events": None, "limit": 400}


class Runaway(BaseException):
    """raised from the audit hook / the mem reader / the alarm when a load does not stop"""


def _hook(event, args):
    ev = _AUDIT["events"]
    if ev is None or event not in ("open", "os.listdir", "os.scandir"):
        return
    p = args[0]
    if isinstance(p, bytes):
        p = os.fsdecode(p)
    if not isinstance(p, str) or not p.startswith(_AUDIT["prefix"]):
        return
    ev.append(("list" if event != "open" else "open", p))
    if len(ev) > _AUDIT["limit"]:
        raise Runaway("too many file-system reads")


def install_hook():
    if not _AUDIT["installed"]:
        sys.addaudithook(_hook)
        _AUDIT["installed"] = True


def _alarm(signum, frame):
    raise Runaway("load did not finish in time")


# ------------------------------------------------------------------------------------------------ trackers, mem:

TRACKER_FORMS = ["plain", "sized", "boolish"]


def make_collector(form="plain"):
    """a collecting tracker.  `sized`: list-like, has __len__ (0 while nothing was reported); `boolish`: has a
    __bool__ tied to its issues — both are falsy while empty, which must not make the loader discard them"""
    from pdtable.table_origin import InputIssueTracker

    class Collector(InputIssueTracker):
        def __init__(self):
            self._issues = []

        def add_issue(self, input_issue):
            self._issues.append(input_issue)

        @property
        def issues(self):
            return self._issues

    class SizedCollector(Collector):
        def __len__(self):
            return len(self._issues)

        def __iter__(self):
            return iter(self._issues)

    class BoolishCollector(Collector):
        def __bool__(self):
            return bool(self._issues)

    return {"plain": Collector, "sized": SizedCollector, "boolish": BoolishCollector}[form]()


def make_mem(store, events):
    """an in-memory protocol loader: `mem:<name>`; its files are parsed by the real parse_blocks"""
    from pdtable.table_origin import LocationFile
    from pdtable.io.load._protocol import LoadProxy, LoadError
    from pdtable.io.parsers.blocks import parse_blocks

    class MemLocationFile(LocationFile):
        def __init__(self, name, load_specification):
            self.mem_name = name
            self._spec = load_specification

        @property
        def local_path(self):
            return None

        @property
        def load_specification(self):
            return self._spec

        @property
        def load_identifier(self):
            return "mem:" + self.mem_name

        def interactive_uri(self, sheet=None, row=None, read_only=True):
            return None

    class MemReader:
        def read(self, location, orchestrator):
            events.append(("mem", location.mem_name))
            if len(events) > _AUDIT["limit"]:
                raise Runaway("too many mem reads")
            rows = store[location.mem_name]
            yield from parse_blocks(iter(rows), location_sheet=location.make_location_sheet(),
                                    issue_tracker=orchestrator.issue_tracker)

    class MemLoader:
        def resolve(self, load_item, orchestrator):
            name = load_item.specification[4:]
            if name not in store:
                e = LoadError(f"no such mem file: {name}")
                orchestrator.issue_tracker.add_error(e, load_item=load_item)
                raise e
            return LoadProxy(load_location=MemLocationFile(name, load_item), reader=MemReader())

    return MemLoader(), MemLocationFile


# ------------------------------------------------------------------------------------------------ case → disk

def ref_pattern(start):
    """the folder reader's file-name pattern, written from the make_loader docstring"""
    return re.compile((start if start is not None else r"(?!~\$)") + r".*\.(csv|xlsx)$", re.IGNORECASE)


class Mat:
    """a case materialised under a scratch root: paths, location ids, observed world"""


def materialise(case, root: Path):
    import openpyxl
    m = Mat()
    m.root = root
    root.mkdir(parents=True, exist_ok=True)
    m.ids, m.kind, m.path_of = {}, {}, {}

    def new_id(key, kind):
        i = len(m.ids)
        m.ids[key] = i
        m.kind[i] = kind
        m.path_of[i] = key
        return i

    m.folder_id = {}
    for rel in case["folders"]:
        p = root / rel if rel else root
        p.mkdir(parents=True, exist_ok=True)
        m.folder_id[rel] = new_id(str(p), "folder")
    m.file_id, m.mem_store = [], {}

    def sc(c):
        return c.replace("{RN}", root.name).replace("{R}", str(root)) if isinstance(c, str) else c

    if case.get("sibling"):
        # a folder NEXT TO the root whose name extends the root's name (root 'proj', sibling 'proj_old'):
        # with a root folder set nothing in it is loadable, although its path has the root's path as a string prefix
        sib = root.parent / (root.name + "_old")
        sib.mkdir(parents=True, exist_ok=True)
        (sib / "outside.csv").write_text("author:;outside\n\n**outside_t;\nall\nc\n-\n1\n\n***note\nleaked\n")
        (sib / "in_more.csv").write_text("**outside_u;\nall\nc\n-\n2\n")

    for f in case["files"]:
        if f["kind"] == "mem":
            m.mem_store[f["path"]] = [[sc(c) for c in r] for r in f["sheets"][0]["rows"]]
            m.file_id.append(new_id("mem:" + f["path"], "mem"))
            continue
        p = root / f["path"]
        if f["kind"] == "csv":
            p.write_text("".join(case.get("sep", SEP).join(sc(c) for c in r) + "\n"
                                 for r in f["sheets"][0]["rows"]), newline="")
        elif f["kind"] == "xlsx":
            wb = openpyxl.Workbook()
            wb.remove(wb.active)
            for sh in f["sheets"]:
                ws = wb.create_sheet(sh["name"])
                # cells are written individually and only when they hold a value: leading rows (and, with
                # "col_offset", leading columns) that the generator leaves blank are really absent from the file,
                # so the sheet's first used row / column need not be row 1 / column A
                off = sh.get("col_offset", 0)
                for i, r in enumerate(sh["rows"]):
                    for j, c in enumerate(r):
                        if c is not None and c != "":
                            ws.cell(row=i + 1, column=j + 1 + off, value=sc(c))
            # chart sheets among the worksheets: they are tabs of the workbook, not sheets of cells
            for title, index in f.get("charts", []):
                from openpyxl.chart import BarChart, Reference
                cs = wb.create_chartsheet(title, index)
                ch = BarChart()
                ch.add_data(Reference(wb.worksheets[0], min_col=1, min_row=1, max_row=2))
                cs.add_chart(ch)
            wb.save(p)
        else:
            p.write_text("not a startable file\n")
        m.file_id.append(new_id(str(p), "unreadable" if f["kind"] == "txt" else f["kind"]))
    return m


def observe_world(case, m):
    """what the model is told about the world: rows as read back, folder listings in iterdir order"""
    import openpyxl
    pat = ref_pattern(case["start_pattern"])
    sheet_pat = re.compile(case["sheet_pattern"]) if case.get("sheet_pattern") else None
    nodes = []
    m.listing = {}
    for rel, fid in m.folder_id.items():
        p = Path(m.path_of[fid])
        names = [c.name for c in p.iterdir()]
        m.listing[fid] = names
        nodes.append({"loc": fid, "kind": "folder",
                      "children": [[n, pat.match(n) is not None] for n in names]})
    m.rows = {}
    for f, fid in zip(case["files"], m.file_id):
        if f["kind"] == "txt":
            nodes.append({"loc": fid, "kind": "unreadable"})
            continue
        sheets = []
        if f["kind"] == "mem":
            sheets.append({"name": None, "use": True, "rows": [list(r) for r in m.mem_store[f["path"]]]})
        elif f["kind"] == "csv":
            with open(m.path_of[fid]) as fh:
                sheets.append({"name": None, "use": True,
                               "rows": [ln.rstrip("\n").split(case.get("sep", SEP)) for ln in fh]})
        else:
            wb = openpyxl.load_workbook(m.path_of[fid], read_only=True, data_only=True, keep_links=False)
            try:
                for ws in wb.worksheets:
                    use = sheet_pat is None or sheet_pat.match(ws.title) is not None
                    sheets.append({"name": ws.title, "use": use,
                                   "rows": [list(r) for r in ws.iter_rows(values_only=True)]})
            finally:
                wb.close()
        m.rows[fid] = sheets

        def first_cell(c):
            # a first cell that is not text reaches the model as the text CPython's str() makes of it
            if c is None or isinstance(c, str):
                return cell_to_json(c)
            return {"o": str(c)}

        nodes.append({"loc": fid, "kind": "file",
                      "sheets": [{"name": s["name"], "use": s["use"],
                                  "bad_rows": [b["row"] for b in gs["truth"] if b["ty"] == "TABLE" and b.get("bad")],
                                  "rows": [[first_cell(c) if j == 0 else cell_to_json(c) for j, c in enumerate(r)]
                                           for r in s["rows"]]}
                                 for s, gs in zip(sheets, f["sheets"])]})
    return nodes


def subst(spec, m):
    return spec.replace("{RN}", m.root.name).replace("{R}", str(m.root))


def root_spec(case, m, s):
    """a root as the loader sees it: `LoadItem(str(f), …)` — the text itself, or str(Path(text)) when the caller
    hands in a pathlib.Path"""
    s = subst(s, m)
    return str(Path(s)) if case.get("roots_as_path") else s


def loc_id(m, key):
    """canonical location id of a path / mem identifier; unknown paths get fresh ids (they do not exist)"""
    if key not in m.ids:
        i = 10000 + len(m.ids)
        m.ids[key] = i
        m.kind[i] = "missing"
        m.path_of[i] = key
    return m.ids[key]


def demands(case, m):
    """every (specification, source location id) the loader can be asked to resolve in this world:
    root specifications, folder entries as listed, and the lines of every directive of every file"""
    out = []
    roots = case["roots"] if case["roots"] is not None else ["/"]
    for s in roots:
        out.append((root_spec(case, m, s), None))
    for fid, names in m.listing.items():
        for n in names:
            out.append((n, fid))
    for f, fid in zip(case["files"], m.file_id):
        for sh in f["sheets"]:
            for b in sh["truth"]:
                if b["ty"] == "DIRECTIVE":
                    for ln in b["lines"]:
                        out.append((subst(ln, m), fid))
    seen, res = set(), []
    for d in out:
        if d not in seen:
            seen.add(d)
            res.append(d)
    return res


def resolve_table(case, m, MemLocationFile):
    """loader 0: the real FileSystemLoader._resolve_load_item_path; loader 1: the mem loader's name lookup"""
    from pdtable.io.load._loaders import FileSystemLoader, LocationFolder
    from pdtable.io.load._protocol import LoadError
    from pdtable.table_origin import LoadItem, FilesystemLocationFile
    fs = FileSystemLoader(file_reader=None, folder_reader=None,
                          root_folder=Path(m.root) if case["root_folder"] else None)

    def source_obj(src):
        if src is None:
            return None
        k = m.kind[src]
        if k == "folder":
            return LocationFolder(local_folder_path=Path(m.path_of[src]), load_specification=None)
        if k == "mem":
            return MemLocationFile(m.path_of[src][4:], None).make_location_sheet().make_location_block(0)
        return FilesystemLocationFile(local_path=Path(m.path_of[src])).make_location_sheet().make_location_block(0)

    table = []
    for spec, src in demands(case, m):
        try:
            r = loc_id(m, str(fs._resolve_load_item_path(LoadItem(spec, source_obj(src)))))
        except LoadError:
            r = None
        table.append([0, spec, src, r])
        if case["mem"]:
            name = spec[4:]
            table.append([1, spec, src, m.ids["mem:" + name] if name in m.mem_store else None])
    return table


# ------------------------------------------------------------------------------------------------ implementation

def canon_location(m, loc):
    """LoadLocation object -> (location id, None | [sheet, row])"""
    from pdtable.table_origin import LocationBlock
    if isinstance(loc, LocationBlock):
        return [canon_location(m, loc.file)[0], [loc.sheet_name, loc.row]]
    if hasattr(loc, "mem_name"):
        return [loc_id(m, "mem:" + loc.mem_name), None]
    if getattr(loc, "local_path", None) is not None:
        return [loc_id(m, str(loc.local_path)), None]
    return [loc_id(m, str(loc.local_folder_path)), None]


def canon_history(m, item):
    return [[li.specification, None if li.source is None else canon_location(m, li.source)]
            for li in item.load_history()]


def token_of(grid):
    for row in grid:
        for c in row:
            if isinstance(c, str) and "#f" in c:
                mm = re.search(r"#f(\d+)s(\d+)", c)
                if mm:
                    return int(mm.group(1)), int(mm.group(2))
    return None


class ImplRun:
    pass


class Shared:
    """what several consecutive load_files calls of one *history* share: ONE `additional_protocol_loaders` dict
    object holding one `mem:` registry loader whose store is re-filled before every call"""

    def __init__(self):
        self.store, self.events = {}, []
        self.mem_loader, self.MemLocationFile = make_mem(self.store, self.events)
        self.protocols = {"mem": self.mem_loader}

    def intact(self):
        return list(self.protocols.keys()) == ["mem"] and self.protocols["mem"] is self.mem_loader


def run_impl(case, m, time_limit=20, shared=None, audit_prefix=None, after_load=None):
    from pdtable.io.load import load_files
    from pdtable import BlockType
    install_hook()
    r = ImplRun()
    if shared is None:
        events = []
        mem_loader, MemLocationFile = make_mem(m.mem_store, events)
        protocols = {"mem": mem_loader}
    else:
        events, MemLocationFile, protocols = shared.events, shared.MemLocationFile, shared.protocols
        del events[:]
        shared.store.clear()
        shared.store.update(m.mem_store)
    r.MemLocationFile = MemLocationFile
    tracker = make_collector(case.get("tracker_form", "plain")) if case["tracker"] == "collecting" else None
    kwargs = dict(issue_tracker=tracker, allow_include=case["allow_include"])
    if case["root_folder"]:
        kwargs["root_folder"] = str(m.root) if case.get("root_folder_as_str") else m.root
    mode = case.get("pattern_mode", "start")
    if mode in ("start", "both") and case["start_pattern"] is not None:
        kwargs["file_name_start_pattern"] = case["start_pattern"]
    if mode in ("compiled", "both"):
        kwargs["file_name_pattern"] = ref_pattern(case["start_pattern"])
    if case.get("sheet_pattern"):
        kwargs["sheet_name_pattern"] = re.compile(case["sheet_pattern"])
    if case["mem"]:
        kwargs["additional_protocol_loaders"] = protocols
    if case.get("sep", SEP) != SEP or case.get("csv_sep"):
        kwargs["csv_sep"] = case.get("sep", SEP)
    if case.get("own_file_reader"):
        # the caller builds the FileReader itself (csv_sep / sheet_name_pattern then go there, not to load_files)
        from pdtable.io.load import FileReader
        kwargs["file_reader"] = FileReader(sheet_name_pattern=kwargs.pop("sheet_name_pattern", None),
                                           csv_sep=kwargs.pop("csv_sep", None))
    roots = None if case["roots"] is None else [
        Path(subst(s, m)) if case.get("roots_as_path") else subst(s, m) for s in case["roots"]]
    if roots is not None:
        # the roots collection as a list, a tuple, a one-shot generator or a dict view
        form = case.get("roots_form", "list")
        roots = {"list": lambda x: x, "tuple": tuple, "generator": lambda x: (y for y in x),
                 "dict_keys": lambda x: dict.fromkeys(x).keys() if len(set(x)) == len(x) else x}[form](roots)
    r.blocks, r.exc, r.runaway = [], None, False
    total_rows = sum(len(s["rows"]) for f in case["files"] for s in f["sheets"])
    limit = 50 * (total_rows + 10)
    _AUDIT["prefix"], _AUDIT["events"] = (audit_prefix or str(m.root)), events
    # a load that reads every location at most once cannot need more reads than there are locations
    _AUDIT["limit"] = 4 * (len(case["files"]) + len(case["folders"])) + 12
    old = signal.signal(signal.SIGALRM, _alarm)
    signal.alarm(time_limit)
    try:
        with warnings.catch_warnings():
            warnings.simplefilter("ignore")
            try:
                for bt, b in load_files(roots, **kwargs):
                    r.blocks.append((bt, b))
                    if len(r.blocks) > limit:
                        raise Runaway("too many blocks")
            except Runaway:
                r.runaway = True
            except Exception as e:  # noqa
                r.exc = type(e).__name__
                r.exc_obj = e
    finally:
        signal.alarm(0)
        signal.signal(signal.SIGALRM, old)
        _AUDIT["events"] = None
    events = list(events)
    r.events = events
    r.tracker = tracker
    if after_load is not None:
        # identifiers as they read right after the load …
        r.idents_after_load = _block_idents(r.blocks)
        after_load()          # … then the environment moves on (files touched / deleted) before the inspection
    try:
        _canonical(case, m, r, events, tracker)
        r.canon_error = None
    except Exception as e:  # noqa — inspecting the blocks of a finished load must not raise
        r.canon_error = repr(e)
        r.canon = {"status": {"exc": "inspection:" + type(e).__name__}, "out": [], "reads": [], "issues": []}
    return r


def _block_idents(blocks):
    res = []
    for bt, b in blocks:
        origin = b.metadata.origin if bt.name == "TABLE" else getattr(b, "origin", None)
        il = getattr(origin, "input_location", None)
        res.append(None if il is None else (il.file.load_identifier, il.load_identifier))
    return res


def _canonical(case, m, r, events, tracker):
    from pdtable import BlockType
    out = []
    for bt, b in r.blocks:
        o = {"ty": bt.name, "loc": None, "sheet": None, "row": None, "name": None, "lines": None, "history": None}
        il = None
        if bt == BlockType.TABLE:
            il = b.metadata.origin.input_location
            o["name"] = b.name
            o["uid"] = b.column_names[0] if len(b.column_names) else None
        elif bt == BlockType.DIRECTIVE:
            il = b.origin.input_location
            o["name"], o["lines"] = b.name, [x if isinstance(x, str) else str(x) for x in b.lines]
        elif bt == BlockType.METADATA:
            il = b.origin.input_location
        else:
            tok = token_of(b)
            if tok is not None:
                if tok[0] < len(case["files"]) and tok[1] < len(case["files"][tok[0]]["sheets"]):
                    o["loc"] = m.file_id[tok[0]]
                    o["sheet"] = case["files"][tok[0]]["sheets"][tok[1]]["name"]
                else:
                    o["loc"] = -1          # a block of a file this input set does not contain
        if il is not None:
            o["loc"] = canon_location(m, il.file)[0]
            o["ident"] = il.file.load_identifier
            o["sheet"], o["row"] = il.sheet_name, il.row
            o["history"] = canon_history(m, il.load_specification)
        out.append(o)
    reads = []
    for kind, p in events:
        reads.append(loc_id(m, "mem:" + p if kind == "mem" else p))
    issues = []
    if tracker is not None:
        for i in tracker.issues:
            it = i.load_item
            src = None if it is None or it.source is None else canon_location(m, it.source)[0]
            if i.load_location is not None and type(i.load_location).__name__ == "LocationBlock":
                cl = canon_location(m, i.load_location)
                issues.append(["parse", cl[0], cl[1][0], cl[1][1]])
            elif i.load_location is not None:
                issues.append(["dup", canon_location(m, i.load_location)[0], it.specification, src])
            else:
                issues.append(["resolve", it.specification, src])
    r.canon = {"status": "runaway" if r.runaway else ("done" if r.exc is None else {"exc": r.exc}),
               "out": out, "reads": reads, "issues": issues}


def model_op(case, m, nodes, table, order, reads=None, outs=None):
    if isinstance(order, str):
        order = {"pop": order, "children": "listing", "lines": "forward"}
    m.order = order
    return {"op": "load", "nodes": apply_order(case, m, nodes, table, order, reads or [], outs or ()),
            "protocols": [["mem", 1]] if case["mem"] else None,
            "resolve": table,
            "child_loc": [[fid, n, loc_id(m, str(Path(m.path_of[fid]) / n))] for fid, names in m.listing.items()
                          for n in names],
            "roots": [root_spec(case, m, s) for s in (case["roots"] if case["roots"] is not None else ["/"])],
            "raising": case["tracker"] != "collecting", "allow_include": case["allow_include"], "order": order["pop"],
            "pattern_args": [case.get("pattern_mode", "start") in ("compiled", "both"),
                             case.get("pattern_mode", "start") in ("start", "both")
                             and case["start_pattern"] is not None]}


def compare(case, m, impl, ans, out, with_history=False):
    """model answer vs canonical implementation result; fields the implementation cannot show are skipped"""
    short = {k: v for k, v in case.items() if k != "files"}
    if isinstance(ans, dict) and "error" in ans:
        out.mismatch("driver refused the case", case, impl, ans)
        return
    if ans["status"] != impl["status"]:
        out.mismatch("end status (exception class) differs", case, impl["status"], ans["status"])
        return
    mo = ans["out"]
    if len(mo) != len(impl["out"]):
        out.mismatch("number of yielded blocks differs", case,
                     [(o["ty"], o["loc"], o["row"]) for o in impl["out"]],
                     [(o["ty"], o["loc"], o["row"]) for o in mo])
        return
    for a, b in zip(impl["out"], mo):
        keys = ["ty"]
        if a["loc"] is not None:
            keys += ["loc", "sheet"]
        if a["row"] is not None:
            keys.append("row")
        if a["name"] is not None:
            keys.append("name")
        if a["lines"] is not None:
            keys.append("lines")
        if with_history and a["history"] is not None:
            keys.append("history")
        for k in keys:
            if a[k] != b[k]:
                out.mismatch(f"yielded block differs in '{k}'", case, a, b)
                return
    vis = [v for v in ans["visited"] if m.kind.get(v) != "unreadable"]
    if impl["reads"] != vis:
        out.mismatch("order / set of locations read differs (audit hook vs model `visited`)", case, impl["reads"], vis)
        return
    # which repeated arrival comes first depends on the order of work: the tracker contents are compared as a bag
    if case["tracker"] == "collecting" and sorted(map(repr, impl["issues"])) != sorted(map(repr, ans["issues"])):
        out.mismatch("tracker contents differ", case, impl["issues"], ans["issues"])
        return
    if ans["status"] == "outOfFuel":
        out.mismatch("model ran out of fuel below its proved bound", case, impl["status"], ans)


# ------------------------------------------------------------------------------------------------ oracle

def ground_graph(case):
    """locations and edges from the generator's own knowledge of what each specification means.
    node keys: ("F", i) file i, ("D", rel) folder, ("X", why) a target that cannot be loaded"""
    pat = ref_pattern(case["start_pattern"])
    edges = {}
    for rel in case["folders"]:
        kids = []
        for i, f in enumerate(case["files"]):
            if f["kind"] != "mem" and os.path.dirname(f["path"]) == rel and pat.match(os.path.basename(f["path"])):
                kids.append(("F", i))
        for sub in case["folders"]:
            if sub and os.path.dirname(sub) == rel and pat.match(os.path.basename(sub)):
                kids.append(("D", sub))
        edges[("D", rel)] = kids
    for i, f in enumerate(case["files"]):
        tg = []
        if case["allow_include"] and f["kind"] != "txt":
            for sh in f["sheets"]:
                if not sh.get("use", True):
                    continue
                for b in sh["truth"]:
                    if b["ty"] == "DIRECTIVE" and b["name"] == "include":
                        tg += [tuple(t) for t in b["targets"]]
        edges[("F", i)] = tg
    return edges


def oracle(case, m, impl, out):
    """the C16 statement on the implementation's result"""
    short = case
    edges = ground_graph(case)
    root_targets = [tuple(t) for t in case["root_targets"]]
    seen, order, arrivals = set(), [], {}
    work = list(root_targets)
    fatal = set()
    while work:
        n = work.pop()
        arrivals[n] = arrivals.get(n, 0) + 1
        if n in seen:
            continue
        seen.add(n)
        if n[0] == "X":
            fatal.add(n[1])
            continue
        if n[0] == "F" and case["files"][n[1]]["kind"] == "txt":
            fatal.add("unsupported")
            continue
        work += edges[n]
    reach_files = {n[1] for n in seen if n[0] == "F" and case["files"][n[1]]["kind"] != "txt"}
    repeated = {n: c - 1 for n, c in arrivals.items() if c > 1 and n[0] != "X"}
    raising = case["tracker"] != "collecting"
    st = impl["status"]
    if case.get("pattern_mode") == "both" and case["start_pattern"] is not None:
        # make_loader refuses file_name_pattern together with file_name_start_pattern
        if st != {"exc": "ValueError"} or impl["out"] or impl["reads"]:
            out.fail("file_name_pattern together with file_name_start_pattern was not refused with ValueError "
                     "before anything was read", short, {"status": st, "reads": impl["reads"]}, {"exc": "ValueError"},
                     key="pattern_args")
        return
    # tables that do not parse, in the sheets that are read of the reachable files
    bad_at = {}
    for i in reach_files:
        for sh in case["files"][i]["sheets"]:
            if sh.get("use", True):
                for b in sh["truth"]:
                    if b["ty"] == "TABLE" and b.get("bad"):
                        bad_at.setdefault(i, []).append((sh["name"], b["row"]))
    if raising and bad_at:
        fatal.add("badtable")
    complete = not fatal and not (raising and repeated)

    f4 = [case["files"][n[1]]["path"] for n in seen if n[0] == "F"
          and speclike_entry(case, os.path.basename(case["files"][n[1]]["path"]))]

    def fail(what, key, observed=None, expected=None):
        if f4:
            # known finding F6: whatever goes wrong in a load that lists such an entry is reported under its key
            out.fail(F4_WHAT, short, {"entries": f4, "seen_as": what,
                                      "observed": observed if observed is not None else impl["status"]},
                     expected, key=F4_KEY)
            return
        out.fail(what, short, observed if observed is not None else impl["status"], expected, key=key)

    if st == "runaway":
        fail("load_files did not terminate (watchdog)", "nontermination")
        return
    # expected blocks per file (ground truth), include directives consumed
    exp = {}
    for i in reach_files:
        f = case["files"][i]
        lst, stop = [], False
        for si, sh in enumerate(f["sheets"]):
            if not sh.get("use", True) or stop:
                continue
            for b in sh["truth"]:
                if b["ty"] == "TABLE" and b.get("bad"):
                    if raising:          # the default tracker raises here: nothing after it is delivered
                        stop = True
                        break
                    continue             # a collecting tracker is told; the table is dropped
                if case["allow_include"] and b["ty"] == "DIRECTIVE" and b["name"] == "include":
                    continue
                lst.append((b["ty"], sh["name"], b["row"]))
        exp[m.file_id[i]] = lst
    got, seq = {}, []
    for o in impl["out"]:
        if o["loc"] is None:
            continue                      # blank rows of a workbook: no origin, no token
        if o["ty"] == "DIRECTIVE" and o["name"] == "include" and case["allow_include"]:
            fail("an include directive was yielded instead of consumed", "include_yielded", o)
            return
        key = (o["ty"], o["sheet"], o["row"]) if o["row"] is not None else (o["ty"], o["sheet"], None)
        got.setdefault(o["loc"], []).append(key)
        if not seq or seq[-1] != o["loc"]:
            seq.append(o["loc"])
    if len(seq) != len(set(seq)):
        fail("a file's blocks are not contiguous / a file was yielded twice", "not_contiguous", seq)
        return

    def strip_rows(lst):  # BLANK / TEMPLATE blocks have no origin row on the implementation side
        return [(t, s, None if t in ("BLANK", "TEMPLATE_ROW") else r) for t, s, r in lst]

    for loc, lst in got.items():
        if loc not in exp:
            fail("blocks of a location that is not reachable from the roots were yielded", "unreachable_read",
                 {"loc": m.path_of.get(loc), "blocks": lst})
            return
        if lst != strip_rows(exp[loc]):
            if True:
                fail("a file's yielded blocks differ from its blocks in file order (include directives removed)",
                     "file_blocks", {"loc": m.path_of.get(loc), "got": lst}, strip_rows(exp[loc]))
                return
    reads = impl["reads"]
    if len(reads) != len(set(reads)):
        fail("a location was opened more than once", "read_twice", [m.path_of.get(x) for x in reads])
        return
    reach_ids = {m.file_id[i] for i in reach_files} | {m.folder_id[n[1]] for n in seen if n[0] == "D"}
    extra = [x for x in reads if x not in reach_ids]
    if extra:
        fail("a location outside the reachable set was opened", "unreachable_open", [m.path_of.get(x) for x in extra])
        return
    if complete:
        if st != "done":
            fail("load raised although every reachable target is loadable and nothing is repeated "
                 "(or the tracker collects)", "unexpected_exception", st, "done")
            return
        missing = [m.path_of[l] for l in exp if exp[l] and l not in got]
        if missing:
            fail("blocks of a reachable file are missing", "reachable_not_read", missing)
            return
        if set(reads) != reach_ids:
            fail("set of locations opened differs from the reachable set", "reads_ne_reachable",
                 sorted(m.path_of[x] for x in reads), sorted(m.path_of[x] for x in reach_ids))
            return
        if not raising:
            named, parse = {}, []
            for i in impl["issues"]:
                if i[0] == "parse":
                    parse.append((i[1], i[2], i[3]))
                    continue
                if i[0] != "dup":
                    fail("tracker holds an issue that is neither a repeated-location error nor a table that does "
                         "not parse", "foreign_issue", i)
                    return
                named[i[1]] = named.get(i[1], 0) + 1
            want_parse = sorted((m.file_id[i], sn, r) for i, lst in bad_at.items() for sn, r in lst)
            if sorted(parse, key=repr) != sorted(want_parse, key=repr):
                fail("the tables that do not parse are not reported once each, at their location", "bad_table_reports",
                     sorted(parse, key=repr), sorted(want_parse, key=repr))
                return
            want = {}
            for n, c in repeated.items():
                want[m.file_id[n[1]] if n[0] == "F" else m.folder_id[n[1]]] = c
            if named != want:
                fail("tracker errors do not name each repeated location once per repeated arrival",
                     "duplicate_reports", {m.path_of[k]: v for k, v in named.items()},
                     {m.path_of[k]: v for k, v in want.items()})
                return
    else:
        allowed = set()
        if raising and (repeated or "loaderror" in fatal or "badtable" in fatal):
            allowed.add("InputError")
        if not raising and "loaderror" in fatal:
            allowed.add("LoadError")
        if "missing" in fatal:
            allowed.add("FileNotFoundError")
        if "unsupported" in fatal:
            allowed.add("ValueError")
        if st == "done" or st.get("exc") not in allowed:
            fail("load did not stop with the error its reachable input calls for", "wrong_exception", st,
                 sorted(allowed))
            return


def _is_prefix(a, b):
    return len(a) <= len(b) and b[:len(a)] == a


# ------------------------------------------------------------------------------------------------ generators

TOK = "#f{}s{}"


# characters str.splitlines() treats as line boundaries but text-file iteration does not: legitimate inside a cell
ODD = ["\x0b", "\x0c", "\x1c", "\x1d", "\x1e", "\x85", "\u2028", "\u2029"]


# U+FEFF inside a value, astral characters: ordinary text as far as the loader is concerned
UNI = ["\ufeff", "\U0001F600", "\U0001D538", "\U00020000", "\u00e9"]


def gen_sheet(rng, fi, si, name, elements, xlsx, offsets=True, lead_fixed=None):
    """rows + ground truth of one sheet.  elements: ("meta",) ("table", nm) ("include", [(spec, target)…])
    ("directive", nm, [lines]) ("template",) — separated by blank rows / a comment row / nothing"""
    rows, truth = [], []
    blank = [None] if xlsx else [""]
    tok = TOK.format(fi, si)

    def cells(*xs):
        return list(xs)

    def odd():
        # workbooks cannot hold control characters (openpyxl refuses them); CSV and mem: files can
        if not offsets:
            return ""
        u = rng.choice(UNI) if rng.random() < 0.12 else ""
        if xlsx or rng.random() > 0.3:
            return u
        return u + rng.choice(ODD) + (rng.choice(ODD) if rng.random() < 0.2 else "")

    first = True
    if lead_fixed is not None:
        rows += [list(blank) for _ in range(lead_fixed)]
    elif offsets:
        lead = rng.choice([0, 0, 1, 2, 3, 4])
        if lead and rng.random() < 0.3 and not (elements and elements[0][0] == "meta"):
            truth.append({"ty": "BLANK", "row": 0, "name": None})
            rows.append(cells(None if xlsx else "", "comment " + odd() + tok))
            lead -= 1
        if not (elements and elements[0][0] == "meta"):
            rows += [list(blank) for _ in range(lead)]
    for k, el in enumerate(elements):
        kind = el[0]
        if kind == "meta":
            truth.append({"ty": "METADATA", "row": len(rows), "name": None})
            rows.append(cells("author:", "a " + odd() + tok))
            if rng.random() < 0.5:
                rows.append(cells("purpose:", "p" + odd() + "q"))
        elif kind == "table":
            bad = len(el) > 2 and el[2]
            uid = el[3] if len(el) > 3 else None
            truth.append({"ty": "TABLE", "row": len(rows), "name": el[1], "bad": bool(bad),
                          "uid": None if uid is None else "k%d" % uid})
            ncol = rng.choice([1, 2])
            rows.append(cells("**" + el[1], "") if not xlsx else cells("**" + el[1]))
            rows.append(cells("all"))
            cols = ["c%d" % j for j in range(ncol)]
            if uid is not None:
                cols[0] = "k%d" % uid       # table NAMES may repeat over the input set; the first column name does not
            rows.append(cells(*cols))
            units = [rng.choice(["-", "m", "text"]) for _ in cols]
            if bad:
                units[0] = "m"
            rows.append(cells(*units))
            if bad:
                # one cell that does not parse: the table handler raises ValueError
                rows.append(cells("xx", *[("v" if u == "text" else (1 if xlsx else "1")) for u in units[1:]]))
            for _ in range(rng.choice([0, 1, 2])):
                vals = []
                for u in units:
                    if u == "text":
                        vals.append("v" + odd() + str(rng.randint(0, 9)))
                    elif xlsx:
                        vals.append(rng.choice([1, 2.5, 3]))
                    else:
                        vals.append(str(rng.choice([1, 2.5, 3])))
                rows.append(cells(*vals))
        elif kind == "include":
            # a line that is not a text cell (a number typed into a workbook) is the specification str(cell)
            truth.append({"ty": "DIRECTIVE", "row": len(rows), "name": "include",
                          "lines": [s if isinstance(s, str) else
                                    (str(int(s)) if isinstance(s, float) and s.is_integer() else str(s))
                                    for s, _ in el[1]],      # a workbook hands 2024.0 back as the int 2024
                          "targets": [t for _, t in el[1]]})
            rows.append(cells("***include", "") if (not xlsx and rng.random() < 0.5) else cells("***include"))
            for s, _ in el[1]:
                rows.append(cells(s))
        elif kind == "directive":
            truth.append({"ty": "DIRECTIVE", "row": len(rows), "name": el[1], "lines": list(el[2])})
            rows.append(cells("***" + el[1]))
            for s in el[2]:
                rows.append(cells(s))
        elif kind == "template":
            truth.append({"ty": "TEMPLATE_ROW", "row": len(rows), "name": None})
            rows.append(cells(":t " + tok))
        # terminator
        last = k == len(elements) - 1
        nxt_marker = (not last) and elements[k + 1][0] in ("table", "include", "directive", "template")
        term = rng.choice(["blank", "blank", "comment", "none"] if nxt_marker else ["blank", "blank", "comment"])
        if last and rng.random() < 0.4:
            term = "none"
        if term == "comment":
            truth.append({"ty": "BLANK", "row": len(rows), "name": None})
            rows.append(cells(None if xlsx else "", "comment " + odd() + tok))
            rows += [list(blank) for _ in range(rng.choice([1, 1, 2]))]
        elif term == "blank":
            rows += [list(blank) for _ in range(rng.choice([1, 1, 2, 3]) if offsets else 1)]
    return {"name": name, "rows": rows, "truth": truth}


HOSTILE_TITLES = ["in a b", "it's", "x!A3", "s#", "\u00e9_\u00fc", "in_'q'!A7", " lead", "#'x'!A1", "'q", "set_q'",
                  "in_tab\t", "x'!A"]

FOLDER_LAYOUTS = [[""], ["", "p"], ["", "p", "p/q"], ["", "p", "r"], ["", "in_d.csv"], ["", "p", "q", "q/p"],
                  ["", "p", "p_old"], ["", "pq", "p"]]   # folders whose names extend each other


def spec_for(rng, case, src, target, style=None):
    """a specification string written in file `src` (index, or None for a root / mem source) that means `target`.
    Returns (spec, ground-truth target)."""
    files = case["files"]
    rooted = case["root_folder"]
    if target[0] == "F" and files[target[1]]["kind"] == "mem":
        spec = rng.choice(["mem:", "MEM:", "Mem:"]) + files[target[1]]["path"]
        if not case["mem"]:
            # no protocol loader registered: the file-system loader takes the text for a path
            if src is None or files[src]["kind"] == "mem":
                return spec, ("X", "loaderror")
            return spec, ("X", "missing")
        return spec, target
    rel = files[target[1]]["path"] if target[0] == "F" else target[1]
    src_fs = src is not None and files[src]["kind"] != "mem"
    styles = []
    if src_fs:
        styles += ["rel", "rel", "dotrel"]
    if rooted:
        styles += ["rootabs", "rootabs", "backslash"]
    else:
        styles += ["abs"]
    style = style or rng.choice(styles)
    if style in ("rel", "dotrel"):
        base = os.path.dirname(files[src]["path"])
        s = os.path.relpath("/" + rel, "/" + base) if rel else os.path.relpath("/", "/" + base)
        if style == "dotrel":
            s = "./" + s
    elif style == "rootabs":
        s = "/" + rel
    elif style == "backslash":
        s = "\\" + rel
    else:
        s = "{R}/" + rel if rel else "{R}"
    if target[0] == "D" and rng.random() < 0.3 and rel:
        s += "/"
    if rng.random() < 0.2:
        s = rng.choice(["file:", "FILE:", "File:"]) + s
    return s, target


def bad_spec(rng, case, src, kind=None):
    """a specification that cannot be loaded, with the reason"""
    files = case["files"]
    rooted = case["root_folder"]
    src_fs = src is not None and files[src]["kind"] != "mem"
    if kind == "sibling" and rooted and case.get("sibling"):
        # into the folder next to the root whose name extends the root's: outside the root, a reported load error
        name = rng.choice(["outside.csv", "in_more.csv", ""])
        opts = ["/../{RN}_old/" + name, "\\../{RN}_old/" + name, "file:/../{RN}_old/" + name]
        if src_fs:
            depth = files[src]["path"].count("/") + 1
            opts += ["../" * depth + "{RN}_old/" + name] * 3
        return rng.choice(opts), ("X", "loaderror")
    opts = []
    if src_fs:
        opts.append(("nope_%d.csv" % rng.randint(0, 9), ("X", "missing")))
        depth = files[src]["path"].count("/") + 1
        up = "../" * (depth + 1) + "zz_outside.csv"
        opts.append((up, ("X", "loaderror" if rooted else "missing")))
    else:
        opts.append(("rel_from_nowhere.csv", ("X", "loaderror")))
    if rooted:
        opts.append(("/nope/none.csv", ("X", "missing")))
    else:
        opts.append(("\\not_absolute.csv", ("X", "loaderror")))
        opts.append(("{R}/nope.csv", ("X", "missing")))
    if case["mem"]:
        opts.append(("mem:nothing", ("X", "loaderror")))
    return rng.choice(opts)


def build_case(rng, n_files, edges, *, folders, kinds, root_folder, roots_mode, start_pattern, tracker,
               allow_include, mem, extra_edges=(), rich=True, sheet_pattern=None, names=None, opts=None):
    """edges: set of (i, j) file→file includes; extra_edges: (i, target) with target a ("D", rel) or a bad marker"""
    prefixes = ["in_", "set_", "x_", "In_"]
    files = []
    reuse_names = rich and len(set(folders)) > 1 and rng.random() < 0.4
    for i in range(n_files):
        kind = kinds[i]
        folder = folders[i % len(folders)] if kind != "mem" else ""
        if names:
            base = names[i]
        else:
            pre = prefixes[i % len(prefixes)] if start_pattern is not None else rng.choice(prefixes + prefixes + ["", "~$"])
            base = f"{pre}f{i}"
        if (opts or {}).get("hostile_entry", (None,))[0] == i and kind in ("csv", "xlsx"):
            base = opts["hostile_entry"][1] + base
        ext = {"csv": rng.choice([".csv", ".csv", ".CSV"]), "xlsx": rng.choice([".xlsx", ".xlsx", ".XLSX"]), "txt": ".txt",
               "mem": ""}[kind]
        path = (folder + "/" if folder else "") + base + ext if kind != "mem" else f"m{i}"
        if kind != "mem" and reuse_names:
            # the same base name again in another folder: a file is its path, not its name
            twins = [g for g in files if g["kind"] == kind and os.path.dirname(g["path"]) != folder]
            if twins:
                cand = (folder + "/" if folder else "") + os.path.basename(rng.choice(twins)["path"])
                if all(g["path"] != cand for g in files):
                    path = cand
        files.append({"path": path, "kind": kind, "sheets": []})
    case = {"sibling": bool((opts or {}).get("sibling")),
            "folders": sorted(set(folders) | {""}), "files": files, "root_folder": root_folder,
            "start_pattern": start_pattern, "tracker": tracker, "allow_include": allow_include, "mem": mem,
            "sheet_pattern": sheet_pattern, "roots": None, "root_targets": []}
    tno = 0
    used_names = []
    for i, f in enumerate(files):
        if f["kind"] == "txt":
            f["sheets"] = [{"name": None, "rows": [], "truth": []}]
            continue
        inc = [("F", j) for (a, j) in sorted(edges) if a == i] + [t for (a, t) in extra_edges if a == i]
        rng.shuffle(inc)
        xlsx = f["kind"] == "xlsx"
        opts = opts or {}
        nsheets = rng.choice([1, 2, 3]) if xlsx else 1
        nsheets = max(nsheets, opts.get("min_sheets", 1)) if xlsx else 1
        per_sheet = [[] for _ in range(nsheets)]
        # distribute include targets over sheets / directives
        groups = []
        while inc:
            k = (1 if opts.get("split_groups") else rng.choice([1, 1, 2, 3])) if rich else len(inc)
            groups.append(inc[:k])
            inc = inc[k:]
        # workbooks: include directives on different sheets that start on the same 0-based row
        aligned = xlsx and nsheets >= 2 and len(groups) >= 2 and rng.random() < opts.get("aligned_p", 0.5)
        front = {}
        for gi, g in enumerate(groups):
            lines = []
            for t in g:
                if t[0] == "NUMDIR":
                    # a number cell that names an existing all-digit folder next to this workbook (a date stamp,
                    # epoch seconds): the specification is str(cell)
                    if xlsx and "/" not in f["path"]:
                        v = int(t[1])
                        lines.append((float(v) if (v < 10000 and rng.random() < 0.5) else v, ("D", t[1])))
                    else:
                        lines.append(spec_for(rng, case, i, ("D", t[1])))
                elif t[0] == "BAD":
                    lines.append(bad_spec(rng, case, i, t[1] if len(t) > 1 else None))
                else:
                    lines.append(spec_for(rng, case, i, t))
            if xlsx and rich and lines and rng.random() < 0.12:
                lines.insert(rng.randrange(len(lines) + 1), (rng.choice([12, 12.5, True, 7]), ("X", "missing")))
            # the same specification listed again in the same directive (adjacent or not): equal LoadItems
            if lines and rng.random() < (0.3 if rich else 0.15):
                j = rng.randrange(len(lines))
                lines.insert(rng.choice([j + 1, len(lines), 0]), lines[j])
                if rng.random() < 0.2:
                    lines.insert(rng.randrange(len(lines) + 1), lines[j])
            el = ("include", lines)
            si_ = gi if (aligned and gi < nsheets) else rng.randrange(nsheets)
            if aligned and gi < nsheets:
                front[si_] = el
            per_sheet[si_].append(el)
        lead_common = rng.choice([0, 1, 2, 3]) if aligned else None
        for si in range(nsheets):
            els = per_sheet[si]
            ntab = rng.choice([0, 1, 1, 2, 3]) if rich else 1
            for _ in range(ntab):
                nm = f"t{i}_{tno}"
                if rich and used_names and rng.random() < 0.2:
                    nm = rng.choice(used_names)          # the same table name again, in another sheet / file
                used_names.append(nm)
                els.append(("table", nm, rich and rng.random() < opts.get("bad_p", 0.05), tno))
                tno += 1
            if rich:
                if rng.random() < 0.35:
                    els.append(("directive", rng.choice(["note", "includes", "Include", "include ", "inc"]),
                                ["l%d" % rng.randint(0, 9) for _ in range(rng.choice([0, 1, 2]))]))
                if rng.random() < 0.25:
                    els.append(("template",))
            rng.shuffle(els)
            if si in front:
                els.remove(front[si])
                els.insert(0, front[si])
            elif rich and rng.random() < 0.3:
                els.insert(0, ("meta",))
            sname = None if not xlsx else rng.choice(["in_", "set_", "x_"]) + "s%d" % si
            if xlsx and rich and rng.random() < 0.3:
                # titles that show up verbatim inside load identifiers: blanks, quotes, '!A3', '#', non-ASCII
                sname = rng.choice(HOSTILE_TITLES) + str(si)
            sh = gen_sheet(rng, i, si, sname, els, xlsx, offsets=rich,
                           lead_fixed=lead_common if si in front else None)
            if xlsx and rich and si == 0 and rng.random() < 0.35:
                f["charts"] = [["chart%d_%d" % (i, c), rng.randrange(0, nsheets + c + 1)]
                               for c in range(rng.choice([1, 1, 2]))]
            if si in front:
                case.setdefault("aligned_includes", []).append([i, si, sh["truth"][0]["row"]])
            if sheet_pattern and xlsx:
                sh["use"] = re.compile(sheet_pattern).match(sname) is not None
            f["sheets"].append(sh)
    # roots
    if roots_mode == "default" and root_folder:
        case["roots"] = None
        case["root_targets"] = [("D", "")]
    elif roots_mode == "empty":
        # an explicitly empty roots collection: nothing is asked for, nothing is read — root folder or not
        case["roots"] = []
        case["root_targets"] = []
    else:
        if roots_mode == "folder":
            tg = [("D", "")]
        elif roots_mode == "two":
            tg = [("F", 0), ("F", min(1, n_files - 1))]
        else:
            tg = [("F", 0)]
        specs = []
        for t in tg:
            if t[0] == "F" and files[t[1]]["kind"] == "mem" and not mem:
                t = ("F", next((k for k, f in enumerate(files) if f["kind"] != "mem"), 0))
            specs.append(spec_for(rng, case, None, t))
        case["roots"] = [s for s, _ in specs]
        case["root_targets"] = [t for _, t in specs]
    return case


def digraphs(n):
    pairs = [(i, j) for i in range(n) for j in range(n)]
    for bits in range(1 << len(pairs)):
        yield {p for k, p in enumerate(pairs) if bits >> k & 1}


def digraphs4_reduced():
    """digraphs on 4 nodes (loops allowed) in which every node is reachable from node 0, one per class under
    renaming of nodes 1..3"""
    n = 4
    pairs = [(i, j) for i in range(n) for j in range(n)]
    perms = [dict(zip(range(4), (0,) + p)) for p in itertools.permutations((1, 2, 3))]
    idx = {p: k for k, p in enumerate(pairs)}
    for bits in range(1 << 16):
        es = [p for k, p in enumerate(pairs) if bits >> k & 1]
        seen, work = {0}, [0]
        while work:
            a = work.pop()
            for (x, y) in es:
                if x == a and y not in seen:
                    seen.add(y)
                    work.append(y)
        if len(seen) < 4:
            continue
        canon = min(sum(1 << idx[(pm[x], pm[y])] for x, y in es) for pm in perms)
        if canon == bits:
            yield set(es)


def gen_cases(tier, seed, search=False):
    """yields (index, case).  Deterministic in (tier, seed)."""
    rng = make_rng(seed, "C16")
    idx = 0
    thorough = tier == "thorough"
    # (a) exhaustive small include graphs
    graphs = []
    for n in (1, 2, 3):
        for es in digraphs(n):
            graphs.append((n, es))
    if thorough:
        for es in digraphs4_reduced():
            graphs.append((4, es))
    for gi, (n, es) in enumerate(graphs):
        trackers = ["default", "collecting"] if n <= 3 else [("default", "collecting")[gi % 2]]
        for tracker in trackers:
            crng = make_rng(seed, f"C16:g:{gi}:{tracker}")
            mem = crng.random() < 0.3
            kinds = ["csv"] * n
            if mem and n > 1:
                kinds[crng.randrange(1, n)] = "mem"
            root_folder = crng.random() < 0.6
            case = build_case(crng, n, es, folders=crng.choice(FOLDER_LAYOUTS[:4]), kinds=kinds,
                              root_folder=root_folder, roots_mode="file",
                              start_pattern=None, tracker=tracker,
                              allow_include=crng.random() < 0.9, mem=mem, rich=False)
            case["gen"] = {"graph": sorted(es), "n": n}
            case["tracker_form"] = crng.choice(TRACKER_FORMS)
            yield idx, case
            idx += 1
    # (b) random input sets
    n_rand = 3000 if thorough else 350
    if search:
        n_rand = 6000
    for k in range(n_rand):
        crng = make_rng(seed, f"C16:r:{k}")
        yield idx, random_case(crng)
        idx += 1
    # (c') one folder with more entries than any cap a reader might have: 70 matching files, listed as the root
    crng = make_rng(seed, "C16:wide")
    case = build_case(crng, 70, set(), folders=["w"], kinds=["csv"] * 70, root_folder=True, roots_mode="file",
                      start_pattern=None, tracker="collecting", allow_include=True, mem=False, rich=False)
    case["roots"], case["root_targets"] = ["/w"], [("D", "w")]
    case["gen"] = {"chain": 70, "wide": True}
    yield idx, case
    idx += 1
    # (c) long include chains: file i includes file i+1 (the last one closes the cycle half the time)
    for n in ([64, 130] if not thorough else [64, 130, 257, 600]):
        crng = make_rng(seed, f"C16:chain:{n}")
        es = {(i, i + 1) for i in range(n - 1)}
        if crng.random() < 0.5:
            es.add((n - 1, crng.randrange(n)))
        case = build_case(crng, n, es, folders=crng.choice(FOLDER_LAYOUTS[:4]), kinds=["csv"] * n,
                          root_folder=crng.random() < 0.5, roots_mode="file", start_pattern=None,
                          tracker="collecting", allow_include=True, mem=False, rich=False)
        case["gen"] = {"chain": n}
        yield idx, case
        idx += 1


def random_case(crng, xlsx_share=0.2, force_mem=False, force_default_roots=False):
    n = crng.choice([1, 2, 3, 3, 4, 4, 5, 6])
    mem = (crng.random() < 0.35) or force_mem
    kinds = []
    for i in range(n):
        r = crng.random()
        kinds.append("mem" if (mem and r < 0.25) else "xlsx" if r < 0.25 + xlsx_share else
                     "txt" if r < 0.29 + xlsx_share else "csv")
    if all(k in ("mem", "txt") for k in kinds):
        kinds[0] = "csv"
    if not mem and "mem" in kinds:
        kinds = ["csv" if k == "mem" else k for k in kinds]
    if crng.random() < 0.08 and n >= 2 and kinds[1] == "csv":
        kinds[1] = "mem"        # a mem file although the protocol may not be registered
    dens = crng.choice([0.1, 0.2, 0.35, 0.5])
    es = {(i, j) for i in range(n) for j in range(n) if crng.random() < dens}
    folders = crng.choice(FOLDER_LAYOUTS)
    extra = []
    hostile = None
    if f4_listed() and n >= 2 and crng.random() < 0.04:
        # known finding F6: one file, reachable only through the listing of its folder, gets a name that reads
        # like a specification
        j = crng.randrange(1, n)
        hostile = (j, crng.choice(["\\", "file:", "FILE:", "mem:", "File:"]))
        es = {(a, b) for (a, b) in es if b != j}
        extra.append((0, ("D", folders[j % len(folders)])))
        if kinds[j] in ("mem", "txt"):
            kinds[j] = "csv"
        if kinds[0] in ("mem", "txt"):
            kinds[0] = "csv"
    elif crng.random() < 0.18:
        # all-digit folder names, included from the root workbook by NUMBER cells
        folders = crng.choice([["", "20240115"], ["", "1700000000"], ["", "2024", "20240115"], ["", "12345678"],
                               ["", "999999", "1000000"], ["", "4102444800"]])
        kinds[0] = "xlsx"
        for rel in folders[1:]:
            extra.append((0, ("NUMDIR", rel)))
    for i in range(n):
        if crng.random() < 0.15:
            extra.append((i, ("D", crng.choice(folders))))
        if crng.random() < 0.07:
            extra.append((i, ("BAD",)))
    root_folder = crng.random() < 0.55
    sibling = root_folder and crng.random() < 0.35
    if sibling:
        for i in range(n):
            if crng.random() < 0.5:
                extra.append((i, ("BAD", "sibling")))
    roots_mode = crng.choice(["default", "folder", "file", "file", "two", "file", "two", "empty"])
    if force_default_roots:
        root_folder, roots_mode = True, "default"        # `roots` left at its default: the root folder is the root
    start = crng.choice([None, None, "in_", "(in|set)_", "(?!x_)"])
    case = build_case(crng, n, es, folders=folders, kinds=kinds, root_folder=root_folder,
                      roots_mode=roots_mode, start_pattern=start,
                      tracker=crng.choice(["default", "collecting", "collecting"]),
                      allow_include=crng.random() < 0.85, mem=mem, extra_edges=extra, rich=True,
                      sheet_pattern=crng.choice([None, None, "in_", "(in|set)_"]), opts={"sibling": sibling, "hostile_entry": hostile or (None,)})
    case["gen"] = {"random": True}
    if hostile:
        case["gen"]["f4"] = True
    case["tracker_form"] = crng.choice(TRACKER_FORMS)
    case["roots_form"] = crng.choice(["list", "list", "tuple", "generator", "dict_keys"])
    case["sep"] = crng.choice([";", ";", ","])
    case["csv_sep"] = case["sep"] == ";" and crng.random() < 0.3          # the default separator passed explicitly
    # a Path root: only for plain absolute / relative path texts (str(Path(x)) keeps those readable)
    case["roots_as_path"] = crng.random() < 0.3 and all(
        not s.lower().startswith("file:") and not s.startswith("\\") and ":" not in s for s in (case["roots"] or []))
    case["root_folder_as_str"] = crng.random() < 0.4
    case["own_file_reader"] = crng.random() < 0.15
    r = crng.random()
    case["pattern_mode"] = "compiled" if r < 0.45 else "both" if (r < 0.5 and start is not None) else "start"
    return case


# ------------------------------------------------------------------------------------------------ run / replay

def _probe_case(files, roots, root_folder):
    tab = lambda n: [["**" + n, ""], ["all"], ["c"], ["-"], ["1"], [""]]
    return {"folders": [""], "files": [
        {"path": p, "kind": "csv", "sheets": [{"name": None, "rows": tab(p[:2]) + extra, "truth": truth}]}
        for p, extra, truth in files],
        "root_folder": root_folder, "roots": roots, "start_pattern": None, "tracker": "default",
        "allow_include": True, "mem": False, "sheet_pattern": None, "root_targets": []}


def probe_order(scratch):
    """the order in which the loader works through what it is given is not part of C16 (nothing is promised
    between files): it is observed on three tiny inputs and handed to the model —
      pop:      two plain root files; which one is opened first?           lifo | fifo
      children: a listed folder; entries pushed as listed, sorted, …?      listing | sorted | reverse | sorted_desc
      lines:    two lines of one include directive; pushed in which order?  forward | reverse"""
    case = _probe_case([("pa.csv", [], []), ("pb.csv", [], [])], ["{R}/pa.csv", "{R}/pb.csv"], False)
    m = materialise(case, scratch / "probe")
    r = run_impl(case, m)
    names = [o["name"] for o in r.canon["out"] if o["ty"] == "TABLE"]
    order = {"pop": "fifo" if names == ["pa", "pb"] else "lifo", "children": "listing", "lines": "forward"}
    # children
    for attempt, stems in enumerate([["qd", "qa", "qe", "qb", "qc", "qf"], ["m3", "m1", "m9", "m2", "m7", "m0", "m5"]]):
        case = _probe_case([(st + ".csv", [], []) for st in stems], None, True)
        m = materialise(case, scratch / f"probe_c{attempt}")
        observe_world(case, m)
        listing = [n for n in m.listing[m.folder_id[""]]]
        r = run_impl(case, m)
        read = [Path(m.path_of[x]).name for x in r.canon["reads"] if m.kind.get(x) == "csv"]
        pushed = read[::-1] if order["pop"] == "lifo" else read
        cands = {"listing": listing, "sorted": sorted(listing), "reverse": listing[::-1],
                 "sorted_desc": sorted(listing, reverse=True)}
        hits = [k for k, v in cands.items() if v == pushed]
        if len(hits) == 1 or (hits and attempt == 1):
            order["children"] = hits[0]
            break
    # lines of one directive
    inc = [["***include"], ["pb.csv"], ["pc.csv"], [""]]
    case = _probe_case([("pa.csv", inc, []), ("pb.csv", [], []), ("pc.csv", [], [])], ["{R}/pa.csv"], False)
    m = materialise(case, scratch / "probe_l")
    r = run_impl(case, m)
    names = [o["name"] for o in r.canon["out"] if o["ty"] == "TABLE"]
    doc_order_read = names == ["pa", "pb", "pc"]
    order["lines"] = "forward" if doc_order_read == (order["pop"] == "fifo") else "reverse"
    return order


def apply_order(case, m, nodes, table, order, reads, outs=()):
    """the world as the model is told it.  Nothing is promised about the order in which the entries of one folder
    (or the lines of one directive) are worked through, so that order is taken from THIS run: the entries /
    lines are handed over in the order that, under the observed pop discipline, gives the observed sequence of
    reads.  What was not read (already visited, or the load stopped first) keeps its listed order."""
    import copy
    pos = {}
    for k, l in enumerate(reads):
        pos.setdefault(l, k)
    target = {}
    for h, spec, src, loc in table:
        if loc is not None and ((spec, src) not in target or loc in pos):
            target[(spec, src)] = loc
    lifo = order["pop"] == "lifo"
    used = {}            # location -> the specification it was actually loaded by (from the blocks' load histories)
    for o in outs:
        if o.get("history"):
            used.setdefault(o["loc"], o["history"][0][0])

    def arrange(items, key_of, src):
        # only a read that came AFTER the read of the folder / file the item was found in can be due to it
        seen_, obs, rest = set(), [], []
        after = pos.get(src, -1)
        cand = {}
        for it in items:
            loc = target.get(key_of(it))
            if loc in pos and pos[loc] > after:
                cand.setdefault(loc, []).append(it)
        chosen = {}
        for loc, its in cand.items():
            # the item the location was loaded by, if its blocks tell (load history); when they tell and it is
            # none of these items the read was caused elsewhere; unknown → the one popped first
            # (a location whose blocks tell nothing — no table, directive or metadata block — stays as listed)
            its = [it for it in its if key_of(it)[0] == used[loc]] if loc in used else \
                (its if m.kind.get(loc) == "folder" else [])
            if its:
                chosen[loc] = id(its[-1 if lifo else 0])
        slots = []
        for k, it in enumerate(items):
            loc = target.get(key_of(it))
            if loc in chosen and chosen[loc] == id(it) and loc not in seen_:
                seen_.add(loc)
                obs.append((pos[loc], it))
                slots.append(k)
        obs = [it for _, it in sorted(obs, key=lambda x: x[0])]
        if lifo:
            obs = obs[::-1]
        # what was read goes, in the derived push order, into the places the read items have in the listing; what was
        # not read stays where it is listed (with the order as listed this is the identity)
        res = list(items)
        for k, it in zip(slots, obs):
            res[k] = it
        return res

    nodes = copy.deepcopy(nodes)
    file_nodes = [n for n in nodes if n["kind"] != "folder"]
    for n in nodes:
        if n["kind"] == "folder":
            fid = n["loc"]
            ch = n["children"]
            # first the order seen on the probe (decides where entries that were NOT read go), then this run's reads
            n["children"] = {"listing": ch, "sorted": sorted(ch), "reverse": ch[::-1],
                             "sorted_desc": sorted(ch, reverse=True)}[order.get("children", "listing")]
            match = [c for c in n["children"] if c[1]]
            n["children"] = arrange(match, lambda c: (c[0], fid), fid) + [c for c in n["children"] if not c[1]]
    if case["allow_include"]:
        for f, fid, n in zip(case["files"], m.file_id, file_nodes):
            if n["kind"] != "file":
                continue
            for gs, sh in zip(f["sheets"], n["sheets"]):
                for b in gs["truth"]:
                    if b["ty"] == "DIRECTIVE" and b["name"] == "include" and len(b["lines"]) > 1:
                        lo, hi = b["row"] + 1, b["row"] + 1 + len(b["lines"])
                        rows = sh["rows"][lo:hi]
                        if len(rows) == len(b["lines"]):
                            base = list(range(len(rows)))
                            if order.get("lines") == "reverse":
                                base = base[::-1]
                            idx = arrange(base, lambda k: (subst(b["lines"][k], m), fid), fid)
                            sh["rows"][lo:hi] = [rows[k] for k in idx]
    return nodes


def short_case(case):
    return case


def classify(case, impl, out):
    g = case.get("gen", {})
    out.count("gen:" + ("graph%d" % g["n"] if "graph" in g else "chain%d" % g["chain"] if "chain" in g
                        else "history" if "history" in g else "random"))
    out.count("tracker:" + case["tracker"] +
              (":" + case.get("tracker_form", "plain") if case["tracker"] == "collecting" else ""))
    out.count("root_folder:" + str(case["root_folder"]))
    out.count("allow_include:" + str(case["allow_include"]))
    out.count("mem:" + str(case["mem"]))
    out.count("pattern:" + str(case["start_pattern"]))
    out.count("pattern_mode:" + case.get("pattern_mode", "start"))
    for flag in ("roots_as_path", "root_folder_as_str", "own_file_reader", "csv_sep"):
        if case.get(flag):
            out.count("arg:" + flag)
    out.count("arg:sep=" + case.get("sep", SEP))
    if any(f["path"].endswith(".XLSX") for f in case["files"]):
        out.count("cases_with_an_upper_case_xlsx_extension")
    if len({os.path.basename(f["path"]) for f in case["files"] if f["kind"] != "mem"}) < \
            sum(1 for f in case["files"] if f["kind"] != "mem"):
        out.count("cases_with_one_base_name_in_two_folders")
    if case.get("sibling") and any("{RN}_old" in ln for f in case["files"] for sh in f["sheets"] for b in sh["truth"]
                                   if b["ty"] == "DIRECTIVE" for ln in b["lines"]):
        out.count("cases_with_an_include_into_a_sibling_whose_name_extends_the_root")
    if any(isinstance(r[0], (int, float)) and not isinstance(r[0], bool) and abs(r[0]) >= 1000000
           for f in case["files"] if f["kind"] == "xlsx" for sh in f["sheets"] for r in sh["rows"] if r):
        out.count("cases_with_a_7_to_10_digit_number_cell_as_include_line")
    if any(f.get("charts") for f in case["files"]):
        out.count("cases_with_chart_sheets_in_a_workbook")
    if any(b.get("bad") for f in case["files"] for sh in f["sheets"] for b in sh["truth"]):
        out.count("cases_with_a_table_that_does_not_parse:" + case["tracker"])
    if any(not isinstance(r[0], (str, type(None))) for f in case["files"] if f["kind"] == "xlsx"
           for sh in f["sheets"] for b in sh["truth"] if b["ty"] == "DIRECTIVE" and b["name"] == "include"
           for r in sh["rows"][b["row"] + 1: b["row"] + 1 + len(b["lines"])] if r):
        out.count("cases_with_a_non_text_include_line")
    out.count("roots:" + ("default" if case["roots"] is None else str(len(case["roots"]))) +
              ("" if case["roots"] is None else ":" + case.get("roots_form", "list")) +
              (":rooted" if case["root_folder"] else ":unrooted"))
    if any(len(b["lines"]) != len(set(b["lines"])) for f in case["files"] for sh in f["sheets"]
           for b in sh["truth"] if b["ty"] == "DIRECTIVE" and b["name"] == "include"):
        out.count("cases_with_a_specification_repeated_in_one_directive:" + case["tracker"])
    if any(c in cell for f in case["files"] if f["kind"] == "csv" for sh in f["sheets"] for r in sh["rows"]
           for cell in r if isinstance(cell, str) for c in ODD):
        out.count("cases_with_splitlines_only_characters_in_csv_cells")
    st = impl["status"]
    out.count("status:" + (st if isinstance(st, str) else st["exc"]))
    if impl["issues"]:
        out.count("cases_with_tracker_issues")
    for f in case["files"]:
        out.count("filekind:" + f["kind"])


def dispatch_stream(tier, seed, out, ops, pend, only=None):
    """function level: make_loader(additional_protocol_loaders=d) builds the ProtocolLoader; which loader does
    `.resolve` hand a specification to?  Dicts of 1-3 names, possibly with their own "file" entry, a name that is
    a prefix of another, names with a colon; specifications in mixed case.  Compared with driver op `dispatch`;
    the oracle is the C16 sentence: a registered prefix selects that loader, anything else the file-system
    loader (the caller's own "file" loader when one is registered)."""
    from pdtable.io.load._loaders import make_loader
    from pdtable.table_origin import LoadItem
    rng = make_rng(seed, "C16:dispatch")
    names_pool = ["mem", "me", "memo", "file", "fil", "db", "d", "a:b", "a", "x-y", "files"]
    bodies = ["x.csv", "/x.csv", "", ":", "a:b", "mem:y", "file:/z"]
    n = 3000 if tier == "thorough" else 400

    class Stub:
        def __init__(self, no, log):
            self.no, self.log = no, log

        def resolve(self, load_item, orchestrator):
            self.log.append(self.no)
            return None

    def one(names, spec, k):
        log = []
        add = {nm: Stub(i + 1, log) for i, nm in enumerate(names)}
        number = {nm: i + 1 for i, nm in enumerate(names)}
        loader = make_loader(additional_protocol_loaders=add, allow_include=False)
        handlers = loader.protocol_handlers
        case = {"dispatch": {"additional": [[nm, i + 1] for i, nm in enumerate(names)], "spec": spec},
                "seed": seed, "index": f"d{k}"}
        if list(add.keys()) != names:
            out.fail("make_loader changed the caller's additional_protocol_loaders dict", case,
                     sorted(map(str, add.keys())), names, key="caller_dict_modified")
            return
        if "file" not in names:
            handlers["file"].resolve = Stub(0, log).resolve        # the built-in file-system loader is loader 0
        try:
            loader.resolve(LoadItem(spec, None), None)
            got = log[-1] if log else None
        except Exception as e:  # noqa
            got = {"exc": type(e).__name__}
        out.evaluations += 1
        out.count("dispatch:" + ("file_overridden" if "file" in names else "file_builtin"))
        # oracle
        low = spec.lower()
        file_no = number.get("file", 0)
        table = [("file", file_no)] + [(nm, number[nm]) for nm in names if nm != "file"]
        carried = [no for nm, no in table if low.startswith(nm + ":")]
        ok = (got == file_no) if not carried else (got in carried)
        if len(set(carried)) > 1:
            out.count("dispatch:several_prefixes_carried")
        if not ok:
            out.fail("a specification was not handed to the loader registered for the prefix it carries "
                     "(or, carrying none, to the file-system loader)", case, got,
                     sorted(set(carried)) or [file_no], key="dispatch")
        if ops is not None:
            ops.append({"op": "dispatch", "additional": case["dispatch"]["additional"], "spec": spec})
            pend.append(("dispatch", case, got))

    if only is not None:
        one([nm for nm, _ in only["additional"]], only["spec"], 0)
        return
    for k in range(n):
        names = rng.sample(names_pool, rng.choice([1, 2, 2, 3]))
        pick = rng.choice(names + ["file", "FILE", "nothing", ""])
        pre = "".join(ch.upper() if rng.random() < 0.4 else ch for ch in pick)
        spec = (pre + ":" if rng.random() < 0.8 else pre) + rng.choice(bodies)
        one(names, spec, k)


def warm_up(scratch):
    """earlier uses of the loader in this process, judged by nothing: a default-roots load run to exhaustion, one
    abandoned after its first block, one that fails (default tracker, a file including itself), and one with
    explicit roots and a shared protocol dict — so that whatever is judged afterwards is a SECOND use"""
    from pdtable.io.load import load_files
    root = Path(scratch) / "warmup"
    shutil.rmtree(root, ignore_errors=True)
    (root / "sub").mkdir(parents=True)
    tab = "**w{0};\nall\nc\n-\n1\n\n"
    (root / "in_a.csv").write_text(tab.format("a") + "***include\nsub/in_b.csv\n")
    (root / "sub" / "in_b.csv").write_text(tab.format("b"))
    loop = root / "loop"
    loop.mkdir()
    (loop / "in_l.csv").write_text(tab.format("l") + "***include\nin_l.csv\n")
    protocols = {}
    with warnings.catch_warnings():
        warnings.simplefilter("ignore")
        for kind in ("exhaust", "abandon", "fail", "explicit"):
            try:
                if kind == "exhaust":
                    list(load_files(root_folder=root))
                elif kind == "abandon":
                    g = load_files(root_folder=root)
                    next(g)
                    g.close()
                elif kind == "fail":
                    list(load_files(root_folder=loop))
                else:
                    list(load_files([str(root / "in_a.csv")], additional_protocol_loaders=protocols))
            except Exception:  # noqa — the warm-up judges nothing
                pass
    shutil.rmtree(root, ignore_errors=True)


def gen_histories(tier, seed, search=False):
    """two or three consecutive load_files calls in one process that are handed the SAME
    additional_protocol_loaders dict object, over different scratch trees / roots / root_folder settings /
    file-name patterns"""
    n = 500 if (tier == "thorough" or search) else 60
    for k in range(n):
        crng = make_rng(seed, f"C16:h:{k}")
        calls = []
        # every third history: all calls leave `roots` at its default (state the library may keep between such calls)
        for j in range(crng.choice([2, 2, 3])):
            c = random_case(crng, xlsx_share=0.1, force_mem=True, force_default_roots=(k % 3 == 0))
            c["gen"] = {"history": k, "call": j}
            calls.append(c)
        yield calls


def run_history(calls, base: Path, out, hist_input, order=None, ops=None, pend=None):
    """runs the calls of one history in order; oracle per call (this call's ground truth: every block comes from a
    location reachable from this call's roots under this call's root_folder and pattern) + the caller's dict is
    left as it was"""
    shared = Shared()
    for j, case in enumerate(calls):
        m = materialise(case, base / f"call{j}")
        nodes = observe_world(case, m)
        r = run_impl(case, m, shared=shared, audit_prefix=str(base))
        o = Outcome()
        oracle(case, m, r.canon, o)
        if not shared.intact():
            o.fail("load_files changed the caller's additional_protocol_loaders dict", case,
                   sorted(map(str, shared.protocols.keys())), ["mem"], key="caller_dict_modified")
        for f in o.failures:
            out.fail(f"call {j + 1} of {len(calls)} sharing one protocol dict: " + f["what"],
                     dict(hist_input, failing_call=j), f["observed"], f["expected"],
                     key=f["key"] if f["key"] == F4_KEY else "history:" + f["key"])
        if any(f["key"] != "caller_dict_modified" for f in o.failures):
            return False
        if ops is not None:
            table = resolve_table(case, m, r.MemLocationFile)
            ops.append(model_op(case, m, nodes, table, order, r.canon["reads"], r.canon["out"]))
            pend.append((dict(hist_input, failing_call=j), m, r.canon, case))
    return True


def run(tier, seed, model_ok, translator, search=False):
    out = Outcome()
    out.rule = ("(a) every digraph on 1..3 files (thorough: plus every 4-node digraph reachable from the root, up to "
                "renaming) as an include graph, each under both trackers, files spread over folder layouts, include "
                "spellings (relative, ./, root-anchored /, backslash, absolute, file:/FILE: prefixes, mem:) drawn per "
                "edge; (b) random input sets of 1-6 files (csv, multi-sheet xlsx, mem:, unsupported .txt) in up to 3 "
                "folders with folder includes, unloadable targets, name patterns, sheet patterns, several roots; "
                "(c) histories of 2-3 consecutive load_files calls over different trees that are handed the same "
                "additional_protocol_loaders dict object; (d) function level: ProtocolLoader.resolve on dicts of "
                "1-3 protocol names (own \"file\" entry, prefix-of-another names) x mixed-case specifications. "
                "Non-trivial: at least one include edge or folder root; distinct by full case content.")
    scratch = Path(tempfile.mkdtemp(prefix="c16-")).resolve()
    ops, pend = [], []
    try:
        warm_up(scratch)         # everything below is at least the second use of the loader in this process
        order = probe_order(scratch)
        out.count("worklist_discipline:" + "/".join(order[k] for k in ("pop", "children", "lines")))
        out.notes.append(f"observed order of work (not part of the property, handed to the model): {order}")
        for idx, case in gen_cases(tier, seed, search):
            case["seed"], case["index"] = seed, idx
            m = materialise(case, scratch / str(idx))
            nodes = observe_world(case, m)
            r = run_impl(case, m)
            impl = r.canon
            nontrivial = any(b["ty"] == "DIRECTIVE" and b["name"] == "include"
                             for f in case["files"] for s in f["sheets"] for b in s["truth"]) \
                or ("D", "") in [tuple(t) for t in case["root_targets"]]
            out.evaluations += 1
            if (len(out.samples) == 0 and case["gen"].get("n") == 3 and len(case["gen"]["graph"]) >= 4) or \
                    (len(out.samples) == 1 and "random" in case["gen"] and len(case["files"]) >= 3):
                out.samples.append(case)
            if nontrivial:
                out.nontrivial.add(hash(repr(case["files"]) + repr(case["roots"])))
            classify(case, impl, out)
            oracle(case, m, impl, out)
            if sum(1 for f in out.failures if f["key"] != F4_KEY) >= 25:
                out.notes.append("stopped generating after 25 oracle failures")
                shutil.rmtree(m.root, ignore_errors=True)
                break
            if model_ok and not search:
                table = resolve_table(case, m, r.MemLocationFile)
                ops.append(model_op(case, m, nodes, table, order, r.canon["reads"], r.canon["out"]))
                pend.append((case, m, impl, case))
            shutil.rmtree(m.root, ignore_errors=True)
        # (c) histories: consecutive calls sharing one protocol dict
        for k, calls in enumerate(gen_histories(tier, seed, search)):
            if len(out.failures) >= 25:
                break
            hist_input = {"history": calls, "seed": seed, "index": f"h{k}"}
            base = scratch / f"h{k}"
            use_model = model_ok and not search
            run_history(calls, base, out, hist_input, order, ops if use_model else None, pend if use_model else None)
            out.evaluations += len(calls)
            out.nontrivial.add(hash(repr([c["files"] for c in calls])))
            out.count("history_calls", len(calls))
            out.count("histories:" + "/".join("rooted" if c["root_folder"] else "unrooted" for c in calls))
            if sum(1 for c in calls if c["roots"] is None) >= 2:
                out.count("histories_with_two_or_more_default_roots_calls")
            if len({c["start_pattern"] for c in calls}) > 1:
                out.count("histories_with_differing_name_pattern")
            shutil.rmtree(base, ignore_errors=True)
        use_model = model_ok and not search
        dispatch_stream(tier, seed, out, ops if use_model else None, pend if use_model else None)
        if model_ok and ops:
            for pe, ans in zip(pend, common.run_model(ops)):
                if pe[0] == "dispatch":
                    if ans != pe[2]:
                        out.mismatch("ProtocolLoader.resolve picks another loader than the model's dispatch",
                                     pe[1], pe[2], ans)
                    continue
                (inp, m, impl, case) = pe
                n_before = len(out.mismatches)
                compare(case, m, impl, ans, out)
                if inp is not case:
                    for mm in out.mismatches[n_before:]:
                        mm["input"] = inp
                if isinstance(ans, dict) and "status" in ans:
                    out.count("model_status:" + (ans["status"] if isinstance(ans["status"], str)
                                                 else ans["status"]["exc"]))
    finally:
        shutil.rmtree(scratch, ignore_errors=True)
    return out


def replay(rep):
    case = rep.get("input") or {}
    wscratch = Path(tempfile.mkdtemp(prefix="c16w-")).resolve()
    try:
        # a failure may need state an earlier load left behind in the library: recreate earlier uses first
        warm_up(wscratch)
    finally:
        shutil.rmtree(wscratch, ignore_errors=True)
    if "dispatch" in case:
        o = Outcome()
        dispatch_stream("quick", 0, o, None, None, only=case["dispatch"])
        return (False, o.failures[0]["what"]) if o.failures else (True, "property holds on this input")
    if "history" in case:
        scratch = Path(tempfile.mkdtemp(prefix="c16r-")).resolve()
        try:
            o = Outcome()
            run_history(case["history"], scratch / "h", o, {"history": case["history"]})
            if o.failures:
                return False, o.failures[0]["what"]
            return True, "property holds on this history"
        finally:
            shutil.rmtree(scratch, ignore_errors=True)
    if "files" not in case:
        return False, "replay file has no input (no-failing-input-found): " + str(rep.get("broken"))[:300]
    scratch = Path(tempfile.mkdtemp(prefix="c16r-")).resolve()
    try:
        m = materialise(case, scratch / "case")
        observe_world(case, m)
        r = run_impl(case, m)
        o = Outcome()
        oracle(case, m, r.canon, o)
        if o.failures:
            return False, o.failures[0]["what"]
        return True, "property holds on this input"
    finally:
        shutil.rmtree(scratch, ignore_errors=True)
