"""C02 — cells are typed by their column's unit exactly as the StarTable rules say.

Correspondence (model vs code), function level and table level:
  parse_column            vs  Lean `parseColumn`       (per-kind spelling lists, native cells, three fixers)
  make_table_json_precursor vs Lean `makePrecursor`   (random grids: header shapes x kinds x spellings x orientation)
  make_table              vs  Lean `makeTable`
Oracle: an independent reference interpreter written from the property text, applied to well-formed
grids (cell by cell), plus the locality rewrite (changing a cell outside column j leaves column j unchanged)
and the "nothing else becomes missing" rule.
"""
import datetime
import itertools
import math
import warnings

from harness import common, reader_common as rc
from harness.common import Outcome, make_rng, grid_to_json, float_tok

EXTRA = {
    "assumptions": [
        "CPython float() and pandas.to_datetime are external: the model takes their results per string from an "
        "oracle table computed by the harness with the primitives themselves (never through pdtable)",
        "str.lower(): no non-ASCII code point lowers to a letter of a marker / boolean word (checked each run on all "
        "code points), so ASCII lower-casing decides marker membership",
        "well-formed grids only for the oracle (defective grids are covered by correspondence and by C12/C13)",
    ],
    "explanation": "Props/C02.lean: typing rules per unit, column locality (parseColumn_values, parseColumns_local), "
                   "header rules (names_until_first_blank, layout_rowwise, layout_transposed), "
                   "strict_success_repairs_nothing, numeric_missing_only_from — for all grids and all ext.",
}

MARKER_WORD_LETTERS = set("-nantruefalse01")


def check_lower_table(out):
    bad = [cp for cp in range(128, 0x110000)
           if not (0xD800 <= cp <= 0xDFFF) and any(ch in MARKER_WORD_LETTERS for ch in chr(cp).lower())]
    # U+212A KELVIN SIGN lowers to 'k', U+0130 to 'i̇' — neither letter occurs in a marker word
    out.case({"check": "str.lower table", "non_ascii_lowering_into_marker_letters": bad})
    if bad:
        out.mismatch("a non-ASCII code point lowers into a marker-word letter; ASCII lower is not enough",
                     "all code points", bad, [])


# ---------------------------------------------------------------- reference interpreter (property text)

def ref_is_blank(c):
    return c is None or (isinstance(c, str) and all(ord(ch) in rc.SPACE_CPS for ch in c))


def ref_strip(s):
    i, j = 0, len(s)
    while i < j and ord(s[i]) in rc.SPACE_CPS:
        i += 1
    while j > i and ord(s[j - 1]) in rc.SPACE_CPS:
        j -= 1
    return s[i:j]


def ref_is_marker(s):
    return ref_strip(s).lower() in ("-", "nan")


def ref_type_cell(unit, cell):
    """-> ("text", str) | ("onoff", bool) | ("num", float) | ("dt", token) ; raises KeyError on a defect"""
    import pandas as pd
    if unit == "text":
        return ("text", cell if isinstance(cell, str) else str(cell))
    if unit == "onoff":
        if isinstance(cell, str):
            return ("onoff", {"0": False, "1": True, "false": False, "true": True}[ref_strip(cell).lower()])
        if isinstance(cell, (bool, int, float)) and cell in (0, 1):
            return ("onoff", bool(cell))
        raise KeyError(cell)
    if unit == "datetime":
        if isinstance(cell, datetime.datetime):
            return ("dt", rc.ts_tok(cell))
        if isinstance(cell, str) and ref_is_marker(cell):
            return ("dt", "NaT")
        if isinstance(cell, str) and ref_strip(cell)[:1].isdigit():
            return ("dt", rc.ts_tok(pd.to_datetime(ref_strip(cell))))
        raise KeyError(cell)
    # every other unit: floating-point numbers
    if cell is None:
        return ("num", float("nan"))
    if isinstance(cell, (bool, int, float)):
        return ("num", float(cell))
    if isinstance(cell, str):
        if ref_is_marker(cell):
            return ("num", float("nan"))
        return ("num", float(ref_strip(cell)))
    raise KeyError(cell)


def ref_table(grid):
    head = grid[0][0]
    name = head[2:]
    transposed = name.endswith("*")
    if transposed:
        name = name[:-1]
    dests = set(ref_strip(grid[1][0] if isinstance(grid[1][0], str) else str(grid[1][0])).split(" "))
    if len(grid) < 3:
        return {"name": name, "transposed": transposed, "destinations": sorted(dests), "names": [], "units": [],
                "columns": []}
    if transposed:
        lines = grid[2:]
        names = [ref_strip(l[0]) for l in itertools.takewhile(lambda l: not ref_is_blank(l[0]), lines)]
        units = [ref_strip(l[1]) for l in lines[: len(names)]]
        vals = [l[2:] for l in lines[: len(names)]]
        n = 0
        longest = max((len(v) for v in vals), default=0)
        for i in range(longest):
            if any(len(v) > i and not ref_is_blank(v[i]) for v in vals):
                n = i + 1
            else:
                break
        cols = [[(v[i] if i < len(v) else None) for i in range(n)] for v in vals]
    else:
        names = [ref_strip(c) for c in itertools.takewhile(lambda c: not ref_is_blank(c), grid[2])]
        units = [ref_strip(u) for u in grid[3][: len(names)]]
        rows = [r[: len(names)] for r in grid[4:]]
        cols = [[r[j] for r in rows] for j in range(len(names))]
    typed = [[ref_type_cell(u, c) for c in col] for u, col in zip(units, cols)]
    return {"name": name, "transposed": transposed, "destinations": sorted(dests), "names": names, "units": units,
            "columns": typed}


def same_value(kind, ref, got):
    if kind == "num":
        g = float(got)
        return (math.isnan(ref) and math.isnan(g)) or ref == g
    return ref == got


def compare_with_ref(ref, impl, out, case, what="table differs from the StarTable typing rules"):
    """impl = canon_table dict"""
    for k in ("name", "transposed", "destinations", "names", "units"):
        if ref[k] != impl[k]:
            out.fail(f"header field '{k}' is not what the header rows say", case, impl[k], ref[k], key="header:" + k)
            return False
    for j, (rcol, icol) in enumerate(zip(ref["columns"], impl["columns"])):
        if not rcol and icol["k"] == "raw":
            continue
        if len(rcol) != len(icol["v"]):
            out.fail("column length differs", case, icol, None, key="collen")
            return False
        for i, ((kind, val), got) in enumerate(zip(rcol, icol["v"])):
            if kind != icol["k"] or not same_value(kind, val, got):
                if (kind == "text" and icol["k"] == "text" and isinstance(val, str) and val.endswith("\x00")
                        and got == val.rstrip("\x00")):
                    # numpy's fixed-width string array drops trailing NUL characters (known finding F3)
                    out.fail("a text cell ending in NUL characters is not kept unchanged (the NULs are dropped)",
                             dict(case, column=j, row=i), {"k": "text", "v": got}, [kind, val], key="text_trailing_nul")
                    continue        # recorded (F3); the other cells and the other checks of this grid go on
                out.fail(what, dict(case, column=j, row=i), {"k": icol["k"], "v": got}, [kind, str(val)],
                         key="typing:" + ref["units"][j if ref["units"][j] in ("text", "onoff", "datetime") else j]
                         if False else "typing:" + (ref["units"][j] if ref["units"][j] in ("text", "onoff", "datetime") else "numeric"))
                return False
    return True


# ---------------------------------------------------------------- well-formed grids

WF_SPELL = {
    "text": ["", "a", " a ", "-", "nan", "None", "1.5", "é µ", "*", "x" * 12, " ", "TRUE", "k:", "a\x00b", "z\x00",
             # characters str.splitlines() breaks at, but which do not end a line of a text file
             "a\x0cb", "p\u2028q", "p\u2029q", "u\x85v", "r\x1cs", "r\x1ds", "r\x1es", "v\x0bw",
             "y" * 256, "long text " * 120],
    "onoff": ["0", "1", "true", "false", "True", "FALSE", " tRuE ", " 0 ", "TRUE\n"] + rc.BOOL_CASES,
    "datetime": ["2020-01-02", "2020-01-02 03:04:05", "2020-01-02T03:04:05.000006", "2020-1-2", "20200102", "-", "nan",
                 "NaN", " NAN ", " - ", "2262-04-12", "1677-01-01", "2020",
                 # UTC designator / offsets: the parsed value is the zone-aware instant (a column mixing zones is an
                 # input error and is skipped by the oracle)
                 "2020-08-04T08:00:00Z", "2020-08-04 08:00:00+01:00", "2020-08-04T08:00:00z"] + rc.OFFSET_SPELL,
    "num": ["0", "1", "-1", "1.5", "-0.0", "1e3", "1E-3", ".5", "5.", "+2", "1_000", "inf", "-inf", "Infinity", "1e400",
            "nan", "NaN", "-", " - ", " NAN ", "3.14159265358979", "123456789012345678", "1e-400", " 7 ", "１２", "١٢"]
           + rc.NAN_CASES,
}
WF_SPELL["datetime"] = WF_SPELL["datetime"] + rc.NAN_CASES
# nanosecond precision (7-9 fractional digits): every digit is part of the timestamp
NS_SPELL = ["2021-03-04 05:06:07.123456789", "2021-03-04T05:06:07.000000001", "2020-01-02 03:04:05.1234567"]
WF_SPELL["datetime"] = WF_SPELL["datetime"] + NS_SPELL
WF_NATIVE = {
    "text": ["s", "", 5, 1.5, True, None, datetime.datetime(2020, 1, 2)],
    "onoff": [True, False, 0, 1, 0.0, 1.0, -0.0, "true"],
    "datetime": [datetime.datetime(2020, 1, 2), datetime.datetime(2020, 1, 2, 3, 4, 5, 6), "2020-01-02", "-",
                 datetime.datetime(1999, 12, 31, 23, 59, 59, 999999)],
    "num": [0, 1, -3, 1.5, float("nan"), float("inf"), True, False, None, 10 ** 20, "1.5", "-", -0.0,
            # doubles whose shortest repr has 16-17 significant digits: compared bit for bit
            1 / 3, math.pi, 0.1 + 0.2, 2.0 ** 53 + 2.0, 960.3363318270713, 5e-324, 1.7976931348623157e308],
}


LONG_COLUMN = [63, 64, 65, 127, 128, 129, 255, 256, 257, 999, 1000, 1001, 1024, 1025, 1101, 2049, 4097, 8193]
_NAIVE_DT = None


def wf_grid(rng, native=False, n_row=None):
    n_col = rng.choice([1, 1, 2, 3, 4]) if rng.random() < 0.97 else rng.choice([6, 9, 17])
    if n_row is None:
        n_row = rng.choice([0, 1, 2, 3, 5])
    transposed = rng.random() < 0.45
    kinds = [rng.choice(["text", "onoff", "datetime", "num", "num"]) for _ in range(n_col)]
    names = []
    while len(names) < n_col:
        nm = rc.rand_text(rng, rc.NAME_ALPHA, 1, 4).strip()
        if nm and nm not in names and not nm.startswith("**"):
            names.append(nm)
    units = [rc.unit_for(rng, k) for k in kinds]

    def pad(s):
        return (rng.choice(["", " ", "\t", "  "]) + s + rng.choice(["", " ", "  "])) if rng.random() < 0.4 else s

    # one zone per datetime column (a column mixing UTC offsets, or zone-aware with naive values, is an input
    # error): naive spellings only, or one offset spelling next to missing-value markers
    def is_zoned(x):
        import re
        return isinstance(x, str) and re.search(r"(Z|z|[+-]\d\d:?\d\d)\s*$", x) is not None
    zone_of = {}
    for j, k in enumerate(kinds):
        if k == "datetime":
            zoned = [x for x in WF_SPELL["datetime"] if is_zoned(x)]
            zone_of[j] = rng.choice(zoned) if rng.random() < 0.2 else None

    def cell(k, j=None):
        if k == "datetime" and j is not None:
            if zone_of[j] is not None:
                return zone_of[j] if rng.random() < 0.7 else rng.choice(["-", "nan", " NaN "])
            if native and rng.random() < 0.6:
                return rng.choice([x for x in WF_NATIVE[k] if not (isinstance(x, datetime.datetime) and x.tzinfo)])
            return rng.choice([x for x in WF_SPELL[k] if not is_zoned(x)])
        if native and rng.random() < 0.6:
            return rng.choice(WF_NATIVE[k])
        return rng.choice(WF_SPELL[k])
    data = [[cell(k, j) for j, k in enumerate(kinds)] for _ in range(n_row)]
    if transposed:
        # every value row needs a non-blank cell, else the reader stops there (DESIGN §3.5)
        for r in data:
            if all(rc_blank(c) for c in r):
                r[0] = "x" if kinds[0] == "text" else cell_nonblank(rng, kinds[0])
    name = rc.rand_text(rng, rc.NAME_ALPHA, 1, 5).rstrip("*") or "t"
    head = "**" + name + ("*" if transposed else "")
    dest = rng.choice(["all", "a b", " all ", "x a x", "your_farm my_farm"])
    # only the first cell of the first two rows means anything: further cells there are ignored
    grid = [[head] + ([""] if rng.random() < 0.5 else []) + (["", "x", " "][: rng.randint(0, 3)] if rng.random() < 0.15 else []),
            [dest] + (["", "all", "**z"][: rng.randint(1, 3)] if rng.random() < 0.15 else [])]
    if transposed:
        for j in range(n_col):
            line = [pad(names[j]), pad(units[j])] + [r[j] for r in data]
            if rng.random() < 0.3:
                line += [rng.choice(["", None] if native else [""])] * rng.randint(1, 3)
            grid.append(line)
        if n_col and rng.random() < 0.25:
            # a line with a blank name cell ends the columns: it and everything after it is comment
            grid.append([rng.choice(["", " ", None] if native else ["", " "])] +
                        ([rng.choice(["comment", 7, 0.5, False, datetime.datetime(2024, 1, 15)]) for _ in range(3)]
                         if native else ["comment", "more", "x"]))
            for _ in range(rng.randint(0, 2)):
                grid.append([rng.choice(["note", "zz"]), rng.choice(["-", "text", "kg"])]
                            + [rng.choice(WF_SPELL["num"]) for _ in range(rng.randint(0, n_row + 1))])
    else:
        nrow = [pad(n) for n in names]
        if rng.random() < 0.3:
            # everything after the first blank cell of the name row is comment — whatever it is (in a native grid a
            # revision number, a date stamp, a flag typed next to the header)
            nrow += [rng.choice(["", " ", None] if native else ["", " "])] + \
                    ([rng.choice(["comment", 3, 2.5, True, datetime.datetime(2024, 1, 15), None]) for _ in range(rng.randint(1, 3))]
                     if native else ["comment", "more"])
        grid.append(nrow)
        grid.append([pad(u) for u in units] + [""] * rng.randint(0, 2))
        for r in data:
            grid.append(list(r) + [""] * (rng.randint(1, 2) if rng.random() < 0.2 else 0))
    return grid, {"transposed": transposed, "kinds": kinds, "n_row": n_row}


def check_csv_route(grid, want, out, case, i):
    """join the text cells with a separator that occurs in none of them, read the text with read_csv (stream or file)
    and require the table make_table gives for the same cells"""
    import io
    import os
    import tempfile
    import pdtable
    from harness.props.c03 import ref_kind
    cells = [c for r in grid for c in r]
    if any(not isinstance(c, str) or "\n" in c or "\r" in c for c in cells):
        return True
    if ref_kind(grid[0]) != "table" or any(ref_kind(list(r)) != "plain" for r in grid[1:]):
        return True     # inside a stream a blank or marker first cell would end the block: not this table's text
    sep = next((s for s in (";", ",", "|", "~") if not any(s in c for c in cells)), None)
    if sep is None:
        return True
    text = "".join(sep.join(r) + "\n" for r in grid) + "\n"
    tmp = None
    try:
        with warnings.catch_warnings():
            warnings.simplefilter("ignore")
            if i % 4 == 0:
                fd, tmp = tempfile.mkstemp(prefix="pdt-c02-", suffix=".csv")
                with os.fdopen(fd, "w", newline="") as fh:
                    fh.write(text)
                src = tmp
            else:
                src = io.StringIO(text)
            tabs = [b for bt, b in pdtable.read_csv(src, sep=sep) if bt.name == "TABLE"]
    except Exception as e:  # noqa: BLE001
        out.fail("read_csv rejects the text of a well-formed grid", dict(case, sep=sep), type(e).__name__, None,
                 key="csv_route:" + type(e).__name__)
        return False
    finally:
        if tmp:
            os.unlink(tmp)
    got = rc.canon_table(tabs[0]) if len(tabs) == 1 else None
    exp = {k: v for k, v in want.items() if k != "fixer"}
    if got != exp:
        out.fail("read_csv types the cells differently than make_table on the same cells", dict(case, sep=sep), got, exp,
                 key="csv_route")
        return False
    return True


def check_json_form(grid, ref, out, case):
    from pdtable.io.parsers.blocks import make_table_json_data
    try:
        with warnings.catch_warnings():
            warnings.simplefilter("ignore")
            j = make_table_json_data([list(r) for r in grid], None, rc.make_fixer("strict"))
    except Exception as e:  # noqa: BLE001
        out.fail("well-formed grid rejected in the JSON form", case, type(e).__name__, None,
                 key="json_form_rejected:" + type(e).__name__)
        return False
    cols = list(j.get("columns", {}).items())
    if [n for n, _ in cols] != ref["names"][: len(cols)] or (ref["columns"] and any(c for c in ref["columns"])
                                                               and len(cols) != len(ref["names"])):
        out.fail("JSON form has other columns than the header rows say", case, [n for n, _ in cols], ref["names"],
                 key="json_form:names")
        return False
    for jc, ((name, col), u, rcol) in enumerate(zip(cols, ref["units"], ref["columns"])):
        if col.get("unit") != u:
            out.fail("JSON form has another unit than the header rows say", dict(case, column=jc), col.get("unit"), u,
                     key="json_form:unit")
            return False
        vals = col.get("values", [])
        if not rcol and not vals:
            continue
        if len(vals) != len(rcol):
            out.fail("JSON form column length differs", dict(case, column=jc), vals, None, key="json_form:collen")
            return False
        for i, ((kind, val), got) in enumerate(zip(rcol, vals)):
            if kind == "num":
                ok = (got is None) if math.isnan(val) else (isinstance(got, (int, float)) and not isinstance(got, bool)
                                                            and float(got) == val)
            elif kind == "onoff":
                ok = got is val or got == val and isinstance(got, bool)
            elif kind == "text":
                ok = got == val or (isinstance(val, str) and val.endswith("\x00") and got == val.rstrip("\x00"))
            else:   # dt: the token of the timestamp, None for NaT
                ok = (got is None) if val == "NaT" else (got is not None and rc.ts_tok(__import__("pandas").Timestamp(got)) == val)
            if not ok:
                out.fail("a cell of the JSON form is not what the typing rules say (e.g. a value turned into a "
                         "missing one)", dict(case, column=jc, row=i), repr(got), [kind, str(val)],
                         key="json_form:" + kind)
                return False
    return True


def ns_out_of_range(ref):
    """does some datetime column hold a nanosecond-precision timestamp next to a date outside the ns range?"""
    import re
    for u, col in zip(ref["units"], ref["columns"]):
        if u == "datetime":
            toks = [tok for k, tok in col if k == "dt" and tok != "NaT"]
            has_ns = any(re.search(r"\.\d{7,9}", t) for t in toks)
            far = any(int(t[:4]) < 1678 or int(t[:4]) > 2261 for t in toks if t[:4].isdigit())
            if has_ns and far:
                return True
    return False


def mixed_offsets(ref):
    """does some datetime column of the reference table hold timestamps with two different UTC offsets?"""
    import re
    for u, col in zip(ref["units"], ref["columns"]):
        if u == "datetime":
            offs = set()
            for k, tok in col:
                if k == "dt" and tok != "NaT":
                    m = re.search(r"T.*?([+-]\d\d:\d\d|Z)$", tok)
                    offs.add(m.group(1) if m else "")
            if len(offs) > 1:
                return True
    return False


def rc_blank(c):
    return ref_is_blank(c)


def cell_nonblank(rng, kind):
    return rng.choice([s for s in WF_SPELL[kind] if not ref_is_blank(s)])


# ---------------------------------------------------------------- run

def run(tier, seed, model_ok, translator, search=False):
    from pdtable.io.parsers.columns import parse_column
    out = Outcome()
    out.rule = ("(a) parse_column on every spelling of the per-kind lists (text and native) x {strict, lenient, custom}; "
                "(b) random table grids (possibly defective) through make_table_json_precursor and make_table vs the "
                "model; (c) well-formed grids (text and native cells, both orientations, comments, padding) vs the "
                "reference interpreter, with a one-cell locality rewrite each. Non-trivial: at least one column and "
                "one row; distinct by grid content.")
    rng = make_rng(seed, "C02")
    thorough = tier == "thorough"
    ops, pend = [], []
    check_lower_table(out)

    # (a) function level: parse_column
    units = {"text": "text", "onoff": "onoff", "datetime": "datetime", "num": "kg"}
    n_a = 0
    for kind, unit in units.items():
        spell = {"text": rc.TEXT_SPELL, "onoff": rc.ONOFF_SPELL, "datetime": rc.DT_SPELL + NS_SPELL,
                 "num": rc.NUM_SPELL}[kind]
        cells_all = list(spell) + list(rc.NATIVE)
        chunks = [cells_all[i:i + 7] for i in range(0, len(cells_all), 7)] + [[c] for c in cells_all]
        for cells in chunks:
            for fk in ("strict", "lenient", "custom"):
                f = rc.make_fixer(fk)
                try:
                    with warnings.catch_warnings():
                        warnings.simplefilter("ignore")
                        arr = parse_column(unit, list(cells), f)
                    impl = {"ok": rc.canon_values(arr), "fixer": rc.canon_fixer(f)}
                except Exception as e:  # noqa: BLE001
                    impl = {"exc": type(e).__name__}
                n_a += 1
                out.evaluations += 1
                out.nontrivial.add(hash(("pc", kind, repr(cells), fk)))
                if "exc" in impl:
                    out.count("parse_column exc:" + impl["exc"])
                if model_ok:
                    ops.append({"op": "parse_column", "unit": unit, "cells": [common.cell_to_json(c) for c in cells],
                                "ext": rc.ext_tables([cells]), "fixer": rc.FIXERS[fk]})
                    pend.append(("parse_column", {"unit": unit, "cells": grid_to_json([cells])[0], "fixer": fk}, impl))
    out.count("parse_column calls", n_a)

    # (b) random grids, possibly defective: model vs code
    n_b = 6000 if thorough else 700
    for i in range(n_b):
        native = rng.random() < 0.4
        grid, info = rc.rand_grid(rng, native=native, malformed=0.25)
        fk = rng.choice(["strict", "strict", "lenient", "custom"])
        which = "precursor" if i % 2 == 0 else "make_table"
        impl = rc.impl_precursor(grid, fk) if which == "precursor" else rc.impl_make_table(grid, fk)
        case = {"seed": seed, "index": i, "stream": "b", "op": which, "fixer": fk, "cells": grid_to_json(grid)}
        if i < 2:
            out.case(case, nontrivial=True)
        else:
            out.evaluations += 1
            out.nontrivial.add(hash(repr(grid)))
        out.count("b:" + ("exc:" + impl["exc"] if "exc" in impl else "ok"))
        out.count("b:orientation:" + ("transposed" if info["transposed"] else "rowwise"))
        for k in info["kinds"]:
            out.count("b:kind:" + k)
        if model_ok:
            ops.append(rc.model_op(which, grid, fk))
            pend.append((which, case, impl))

    # (c) well-formed grids vs the reference interpreter (+ locality)
    n_c = 4000 if thorough else 500
    for i in range(n_c):
        native = rng.random() < 0.4
        # a few long columns per run (nothing may change at a column length: 128, 1000, 1024 …)
        long_rows = None
        if i < (len(LONG_COLUMN) if thorough else 4):
            long_rows = LONG_COLUMN[i] if thorough else [129, 1101, 4097, rng.choice(LONG_COLUMN)][i]
            out.count("c:long-column")
        grid, info = wf_grid(rng, native, n_row=long_rows)
        case = {"seed": seed, "index": i, "stream": "c", "cells": grid_to_json(grid), "info": info, "native": native}
        check_wf(grid, info, native, case, i, out, rng, ops, pend, model_ok)

    # very wide tables (more columns than CPython's cached small integers): both orientations
    for tr in (False, True):
        n = 300
        names = [f"c{k}" for k in range(n)]
        units = [["m", "text", "onoff", "datetime", "kg"][k % 5] for k in range(n)]
        vals = [{"m": "1.5", "text": "x", "onoff": "1", "datetime": "2020-01-02", "kg": "-"}[u] for u in units]
        if tr:
            grid = [["**wide*"], ["all"]] + [[nm, u, v, v] for nm, u, v in zip(names, units, vals)]
        else:
            grid = [["**wide"], ["all"], names, units, vals, vals]
        case = {"seed": seed, "index": "wide-" + ("t" if tr else "r"), "stream": "c", "cells": grid_to_json(grid)}
        impl = rc.impl_make_table(grid, "strict")
        out.evaluations += 1
        out.count("c:wide-table")
        if "exc" in impl:
            out.fail("well-formed grid rejected", case, impl, None, key="wf_rejected:" + impl["exc"])
        else:
            compare_with_ref(ref_table(grid), impl["ok"], out, case)

    if model_ok:
        for (what, case, impl), ans in zip(pend, common.run_model(ops)):
            if isinstance(ans, dict) and "error" in ans:
                out.mismatch("driver error", case, impl, ans)
                continue
            if what == "make_table":
                ans = rc.model_table_canon(ans)
                if "ok" in impl and "ok" in ans:
                    ans["ok"].setdefault("fixer", impl["ok"].get("fixer"))
            if ans != impl:
                out.mismatch(f"{what}: pdtable vs Lean model", case, impl, ans)
    return out


def check_wf(grid, info, native, case, i, out, rng, ops, pend, model_ok):
    """everything stream (c) asks of one well-formed grid (also the body of `replay`)"""
    impl = rc.impl_make_table(grid, "strict")
    try:
        with warnings.catch_warnings():
            warnings.simplefilter("ignore")
            ref = ref_table(grid)
    except (KeyError, ValueError):
        out.count("c:reference-interpreter-rejects (not well formed after all, e.g. out-of-range timestamp)")
        return            # generator produced a defect after all (e.g. out-of-range timestamp): not WF
    out.evaluations += 1
    out.nontrivial.add(hash(repr(grid)))
    if i < 2:
        out.samples.append(case)
    out.count("c:orientation:" + ("transposed" if info["transposed"] else "rowwise"))
    if "exc" in impl:
        if impl["exc"] == "ColumnUnitException" and (mixed_offsets(ref) or ns_out_of_range(ref)):
            out.count("c:mixed-utc-offsets-or-ns-range-skipped")
            return        # mixed UTC offsets (or ns precision next to a date outside the ns range) in one
            #                 datetime column: an input error (C12), not a typing matter
        out.fail("well-formed grid rejected", case, impl, None, key="wf_rejected:" + impl["exc"])
        return
    if not compare_with_ref(ref, impl["ok"], out, case):
        return
    # "every other unit yields floating-point numbers": the dtype, not only the values
    kinds = dtype_kinds(grid)
    bad = [(n, u, k) for n, u, k in zip(impl["ok"]["names"], impl["ok"]["units"], kinds)
           if info["n_row"] and ((u == "text" and k not in "OUST") or (u == "onoff" and k != "b")
                                 or (u == "datetime" and k != "M")
                                 or (u not in ("text", "onoff", "datetime") and k != "f"))]
    if bad:
        out.fail("a column's data type is not the one its unit prescribes", case, bad, None, key="dtype")
        return
    if model_ok:
        ops.append(rc.model_op("make_table", grid, "strict"))
        pend.append(("make_table", case, impl))
    # the same cells through read_csv (text cells only): the CSV reader hands the splitter exactly these cells
    if not native and not check_csv_route(grid, impl["ok"], out, case, i):
        return
    # the JSON form of the same table (make_table_json_data): same typing rules, nothing else turned into a
    # missing value — numbers by value (infinities stay infinities), NaN / NaT as None
    if not check_json_form(grid, ref, out, case):
        return
    # the same block inside a stream, after a defective table, read with a collecting tracker:
    # it is typed by its own unit rows and cells only — nothing carries over from an earlier block
    from harness.props.c03 import ref_kind
    if i % 3 == 0 and ref_kind(grid[0]) == "table" and all(ref_kind(list(r)) == "plain" for r in grid[1:]):
        from harness import blocks_common as bc
        bad = [["**bad"], ["all"], ["a", "b"], ["-", "onoff"], ["oops", "maybe"], ["1"], []]
        res = bc.impl_parse_blocks(bad + [list(r) for r in grid], to="pdtable", tracker="collecting")
        tabs = [b["val"]["table"] for b in res["blocks"] if b["ty"] == "TABLE"]
        want = {k: v for k, v in impl["ok"].items() if k != "fixer"}
        if res["ending"] != "exhausted" or not tabs or tabs[-1] != want:
            out.fail("a well-formed table is typed differently (or rejected) when it follows a defective "
                     "block in the same stream", case, {"ending": res["ending"], "issues": res["issues"],
                                                        "last_table": tabs[-1] if tabs else None}, want,
                     key="stream_context")
            return
    # the entry points without a fixer argument, used after a parse that was rightly refused: nothing of the refused
    # table (counters, messages) may carry over — a well-formed grid is typed as before
    if i % 4 == 1:
        from pdtable.io.parsers.blocks import make_table
        bad = [["**bad"], ["all"], ["a", "b"], ["-", "onoff"], ["oops", "maybe"], ["1", "2"]]
        with warnings.catch_warnings():
            warnings.simplefilter("ignore")
            try:
                make_table([list(r) for r in bad])
                refused = False
            except Exception:  # noqa: BLE001
                refused = True
            try:
                again = rc.canon_table(make_table([list(r) for r in grid]))
            except Exception as e:  # noqa: BLE001
                again = {"exc": type(e).__name__, "msg": str(e)[:160]}
        out.count("c:default-fixer-after-refusal")
        want = {k: v for k, v in impl["ok"].items() if k != "fixer"}
        if not refused or again != want:
            out.fail("make_table without a fixer types a well-formed grid differently (or refuses it) after an earlier "
                     "table was refused in the same process", case, again, want, key="state_after_refusal")
            return
    # missing values only from markers / empty native cells / float() itself
    check_missing_sources(grid, ref, impl["ok"], out, case)
    # locality: change one cell outside column j (keeping its own column well formed)
    locality(rng, grid, info, impl["ok"], out, case)


def dtype_kinds(grid):
    from pdtable.io.parsers.blocks import make_table
    with warnings.catch_warnings():
        warnings.simplefilter("ignore")
        t = make_table([list(r) for r in grid], fixer=rc.make_fixer("strict"))
    return [t.df[c].dtype.kind for c in t.df.columns]


def raw_columns(grid, info, n_names):
    if info["transposed"]:
        return [list(l[2:]) for l in grid[2: 2 + n_names]]
    return [[r[j] if j < len(r) else None for r in grid[4:]] for j in range(n_names)]


def check_missing_sources(grid, ref, impl, out, case):
    info = {"transposed": impl["transposed"]}
    cols = raw_columns(grid, info, len(impl["names"]))
    for j, col in enumerate(impl["columns"]):
        if col["k"] not in ("num", "dt"):
            continue
        for i, v in enumerate(col["v"]):
            if v not in ("nan", "NaT"):
                continue
            raw = cols[j][i] if i < len(cols[j]) else None
            ok = raw is None or (isinstance(raw, float) and math.isnan(raw)) or (isinstance(raw, str) and ref_is_marker(raw))
            if not ok and col["k"] == "num" and isinstance(raw, str):
                try:
                    ok = math.isnan(float(ref_strip(raw)))      # "+nan" etc.: float() itself says NaN
                except ValueError:
                    ok = False
            if not ok:
                out.fail("a cell that is neither a marker nor empty became a missing value", dict(case, column=j, row=i),
                         v, repr(raw), key="silent_missing")
                return


def locality(rng, grid, info, base, out, case):
    n = len(base["names"])
    if n < 2 or info["n_row"] == 0:
        return
    j = rng.randrange(n)
    other = rng.choice([k for k in range(n) if k != j])
    g2 = [list(r) for r in grid]
    kind = info["kinds"][other]
    newcell = rng.choice([s for s in WF_SPELL[kind] if not ref_is_blank(s)])
    row = rng.randrange(info["n_row"])
    if info["transposed"]:
        g2[2 + other][2 + row] = newcell
    else:
        g2[4 + row][other] = newcell
    impl2 = rc.impl_make_table(g2, "strict")
    if "exc" in impl2:
        if impl2["exc"] == "ColumnUnitException" and kind == "datetime":
            return      # the rewritten cell carries another UTC offset than its column: an input error (C12)
        out.fail("rewriting a cell of another column made the table unreadable", dict(case, rewritten=grid_to_json(g2)),
                 impl2, None, key="locality_exc")
        return
    a, b = base["columns"][j], impl2["ok"]["columns"][j]
    if a != b and not (a["k"] == b["k"] and len(a["v"]) == len(b["v"]) and all(
            x == y for x, y in zip(a["v"], b["v"]))):
        out.fail("changing a cell outside column j changed column j", dict(case, column=j, rewritten=grid_to_json(g2)),
                 b, a, key="locality")


def replay(rep):
    inp = rep.get("input") or {}
    if "cells" not in inp:
        return False, "replay file has no input (no-failing-input-found): " + str(rep.get("broken"))[:300]
    grid = common_rows_from_json(inp["cells"])
    o = Outcome()
    if inp.get("stream") == "c" and "info" in inp:
        # the well-formed-grid checks, under every routing the stream index selects (file / stream, in-stream context)
        for i in range(12):
            check_wf([list(r) for r in grid], inp["info"], bool(inp.get("native")), dict(inp), i, o,
                     make_rng(int(inp.get("seed", 0)), "C02-replay"), [], [], False)
            if o.failures:
                return False, o.failures[0]["what"]
        return True, "property holds on this input"
    impl = rc.impl_make_table(grid, "strict")
    try:
        with warnings.catch_warnings():
            warnings.simplefilter("ignore")
            ref = ref_table(grid)
    except (KeyError, ValueError):
        return True, "not a well-formed grid: " + ("ok" if "ok" in impl else impl["exc"])
    if "exc" in impl:
        if impl["exc"] == "ColumnUnitException" and (mixed_offsets(ref) or ns_out_of_range(ref)):
            return True, "input error (mixed offsets / ns range)"
        return False, "well-formed grid rejected: " + impl["exc"]
    if not compare_with_ref(ref, impl["ok"], o, inp):
        return False, o.failures[0]["what"]
    return True, "property holds on this input"


def common_rows_from_json(rows):
    def cell(c):
        if isinstance(c, dict):
            if "i" in c:
                return int(c["i"])
            if "f" in c:
                return float(c["f"])
            if "d" in c:
                return datetime.datetime.fromisoformat(c["d"])
            return object()
        return c
    return [[cell(c) for c in r] for r in rows]


def shrink(inp, fails, budget_s):
    """row-wise well-formed grids: fewer data rows (the four header rows stay) with the same verdict"""
    info = inp.get("info")
    if inp.get("stream") != "c" or not info or info.get("transposed") or len(inp["cells"]) <= 5:
        return None

    def mk(data):
        return dict(inp, cells=inp["cells"][:4] + data, info=dict(info, n_row=len(data)))
    data = common.ddmin(inp["cells"][4:], lambda d: fails(mk(d)), budget_s)
    return mk(data)
