"""C06, bulk conversion while reading: pdtable/utils.py

  normalized_table_generator(block_gen, convert_units_to, unit_converter)   <->  Convert.normGen
  read_bundle_from_csv(input_path, sep, convert_units_to, unit_converter)    <->  Convert.readBundle  (+ TableBundle)

Three judges per case:
  * an 8-line reference loop (`ref_stream`) over twin tables: each table block is what `convert_units` of a twin of
    the incoming table gives for the dispatcher its own name selects (convert_units itself is judged by the main part
    of this check), everything else passes by identity, the first exception ends the stream;
  * the Lean model (`bulk_convert` op), fed with the incoming tables and the converter's per-block call log;
  * the incoming tables compared with their snapshots afterwards (the original is not modified).
"""
import io
import warnings

from harness.common import InfraError


def _c06():
    from harness.props import c06
    return c06


TABLE_NAMES = ["t", "tab", "T", "u", "t "]


def gen_bulk_case(rng, seed, idx):
    c06 = _c06()
    family = rng.choice(["affine", "affine", "demo", "ident", "memo"])
    api = rng.choice(["gen", "gen", "bundle"])
    blocks = []
    for _ in range(rng.choice([0, 1, 2, 2, 3, 3, 4, 5])):
        k = rng.choice(["table", "table", "table", "meta", "directive", "blank", "none_table", "template"])
        if api == "bundle" and k in ("none_table", "blank", "template"):
            k = "meta"
        if k == "table":
            t = c06.gen_table(rng, family)
            t["name"] = rng.choice(TABLE_NAMES)
            if api == "bundle":
                t["index"], t["index_kind"] = None, "default"
                t["name"] = t["name"].strip()
                if not t["cols"]:
                    continue
            blocks.append({"kind": "table", "table": t})
        else:
            blocks.append({"kind": k})
    names = []
    for b in blocks:
        if b["kind"] == "table" and b["table"]["name"] not in names:
            names.append(b["table"]["name"])
    dk = rng.choice(["dict", "dict", "dict", "fn", "fn", "other", "none", "empty_dict"])
    m = []
    if dk in ("dict", "fn"):
        for nm in names:
            r = rng.random()
            tab = next(b["table"] for b in blocks if b["kind"] == "table" and b["table"]["name"] == nm)
            if r < 0.65:
                m.append([nm, c06.gen_to(rng, tab, family)])
            elif r < 0.8:
                m.append([nm, None])
        if rng.random() < 0.4:
            m.append(["no such table", {"kind": "str", "s": "base"}])
        # a key that differs from a table name in letter case / blanks only: another name
        for nm in names:
            if rng.random() < 0.25 and nm.swapcase() not in names and all(nm.swapcase() != k for k, _ in m):
                m.append([nm.swapcase(), {"kind": "str", "s": "base"}])
        rng.shuffle(m)
    disp = {"kind": dk, "m": m}
    if dk == "other":
        disp["what"] = rng.choice(["int", "zero", "list", "empty_list", "str", "set"])
    r = rng.random()
    if r < 0.6:
        conv = {"kind": "pure", "pure": family}
    elif r < 0.8:
        conv = {"kind": "fail", "pure": family, "fail_at": rng.choice([0, 1, 1, 2, 3, 4])}
    elif r < 0.9:
        conv = {"kind": "default", "pure": family}          # no explicit converter; a module default is installed
    else:
        conv = {"kind": "none"}
    return {"bulk": True, "seed": seed, "index": idx, "family": family, "api": api, "blocks": blocks, "disp": disp,
            "conv": conv, "sep": rng.choice([";", ";", ",", "\t", "|"]) if api == "bundle" else None}


def fixed_bulk_cases(seed):
    tab = lambda name, unit="u2": {"name": name, "dests": ["all"], "nrows": 2, "index": None, "index_kind": "default",
                                   "cols": [{"name": "a", "kind": "float", "unit": unit, "values": [1.0, 2.5]},
                                            {"name": "b", "kind": "text", "unit": "text", "values": ["x", "y"]}]}
    base = {"kind": "str", "s": "base"}
    out = []
    for api in ("gen", "bundle"):
        sep = ";" if api == "bundle" else None
        # two tables of the same name, a third one without entry, a metadata block in between
        out.append({"api": api, "blocks": [{"kind": "table", "table": tab("t")}, {"kind": "meta"},
                                           {"kind": "table", "table": tab("u")}, {"kind": "table", "table": tab("t", "uh")}],
                    "disp": {"kind": "dict", "m": [["t", base]]}, "conv": {"kind": "pure", "pure": "affine"}})
        # the second table fails (text column asked for a unit): the first was delivered converted
        out.append({"api": api, "blocks": [{"kind": "table", "table": tab("t")}, {"kind": "table", "table": tab("u")},
                                           {"kind": "table", "table": tab("v")}],
                    "disp": {"kind": "fn", "m": [["t", base], ["u", {"kind": "dict", "m": [["b", "u1"]]}], ["v", base]]},
                    "conv": {"kind": "pure", "pure": "affine"}})
        # converter failing on its 2nd call overall (the 1st call of the 2nd table)
        out.append({"api": api, "blocks": [{"kind": "table", "table": tab("t")}, {"kind": "table", "table": tab("t")}],
                    "disp": {"kind": "dict", "m": [["t", base]]}, "conv": {"kind": "fail", "pure": "affine", "fail_at": 1}})
        # dispatcher without converter; empty dict without converter; no dispatcher at all
        out.append({"api": api, "blocks": [{"kind": "table", "table": tab("t")}],
                    "disp": {"kind": "dict", "m": [["t", base]]}, "conv": {"kind": "none"}})
        out.append({"api": api, "blocks": [{"kind": "table", "table": tab("t")}],
                    "disp": {"kind": "empty_dict", "m": []}, "conv": {"kind": "none"}})
        out.append({"api": api, "blocks": [{"kind": "meta"}, {"kind": "table", "table": tab("t")}],
                    "disp": {"kind": "none", "m": []}, "conv": {"kind": "pure", "pure": "affine"}})
        # not a dispatcher: TypeError at the first table, not before
        out.append({"api": api, "blocks": [{"kind": "meta"}, {"kind": "table", "table": tab("t")}],
                    "disp": {"kind": "other", "m": [], "what": "int"}, "conv": {"kind": "pure", "pure": "affine"}})
        out.append({"api": api, "blocks": [{"kind": "meta"}],
                    "disp": {"kind": "other", "m": [], "what": "zero"}, "conv": {"kind": "pure", "pure": "affine"}})
    for i, c in enumerate(out):
        c.update({"bulk": True, "seed": seed, "index": -1 - i, "family": "affine",
                  "sep": ";" if c["api"] == "bundle" else None})
    return out


# ---------------------------------------------------------------- building the real objects

def _non_table_value(kind):
    from pdtable import BlockType
    from pdtable.auxiliary import MetadataBlock, Directive
    if kind == "meta":
        mb = MetadataBlock()
        mb["author"] = "me"
        return BlockType.METADATA, mb
    if kind == "directive":
        return BlockType.DIRECTIVE, Directive("include", ["a.csv"])
    if kind == "blank":
        return BlockType.BLANK, None
    if kind == "template":
        return BlockType.TEMPLATE_ROW, [":", "x"]
    if kind == "none_table":
        return BlockType.TABLE, None
    raise InfraError("unknown block kind " + kind)


def _disp_objects(case, names):
    """-> (python object, model encoding, lookup(name) -> column-dispatcher spec or None, is_dispatcher)"""
    c06 = _c06()
    d = case["disp"]
    # (column names matter only for tabulating a callable column dispatcher for the model: every column name of
    # every table of the stream, since several tables may share a name)
    every = []
    for b in case["blocks"]:
        if b["kind"] == "table":
            every += [c["name"] for c in b["table"]["cols"] if c["name"] not in every]

    class _All(dict):
        def get(self, k, default=None):
            return every
    cols_of = _All()
    if d["kind"] == "none":
        return None, {"kind": "none"}, None, False
    if d["kind"] == "other":
        obj = {"int": 5, "zero": 0, "list": ["base"], "empty_list": [], "str": "base", "set": {"base"}}[d["what"]]
        return obj, {"kind": "other", "truthy": bool(obj)}, None, False
    table = {}
    for k, spec in d["m"]:
        # a column dispatcher that is the object None is "no entry" at the table level
        table[k] = None if (spec is not None and spec.get("kind") == "other" and spec.get("what") == "none") else spec
    pyd = {k: (None if spec is None else c06.build_to(spec, cols_of.get(k, []))[0]) for k, spec in table.items()}

    def enc(name):
        spec = table.get(name)
        return None if spec is None else _enc_to(c06, spec, cols_of.get(name, []))
    model_m = [[nm, enc(nm)] for nm in sorted(set(names) | set(table))]
    if d["kind"] == "fn":
        return (lambda name: pyd.get(name)), {"kind": "fn", "m": model_m}, table, True
    return pyd, {"kind": "dict", "m": [[k, enc(k)] for k in table]}, table, True


def _enc_to(c06, spec, colnames):
    return c06.build_to(spec, colnames)[1]


class _Marks:
    """hands the blocks out one by one and notes how many converter calls had been made before each"""

    def __init__(self, blocks, rec):
        self.blocks, self.rec, self.marks = blocks, rec, []

    def __iter__(self):
        for b in self.blocks:
            self.marks.append(len(self.rec.log) if self.rec is not None else 0)
            yield b


def _csv_text(case):
    """the blocks of the case as StarTable CSV text: tables through the library's own writer, the rest by hand"""
    import pdtable
    c06 = _c06()
    sep = case["sep"]
    parts = []
    for b in case["blocks"]:
        if b["kind"] == "table":
            buf = io.StringIO()
            with warnings.catch_warnings():
                warnings.simplefilter("ignore")
                pdtable.write_csv(c06.build(b["table"]), buf, sep=sep)
            parts.append(buf.getvalue())
        elif b["kind"] == "directive":
            parts.append("***include\na.csv\n\n")
        else:
            parts.append("author:" + sep + "me\n\n")
    return "".join(parts)


class _Skip(Exception):
    pass


def _snap_block(c06, bt, val, ident):
    from pdtable import BlockType, Table
    is_table = bt == BlockType.TABLE
    if is_table and isinstance(val, Table):
        return {"is_table": True, "table": c06.model_table(c06.snapshot(val)), "tok": ident}
    return {"is_table": is_table, "table": None, "tok": ident}


def run_bulk_impl(case):
    import pdtable
    import pdtable.utils as utils
    from pdtable import BlockType, Table
    c06 = _c06()
    cv = case["conv"]
    rec = None
    pure = None
    if cv["kind"] != "none":
        pure = c06.make_converter(cv["pure"])
        rec = c06.Recorder(pure, fail_at=cv.get("fail_at"))
    # incoming blocks (and their twins for the reference loop)
    if case["api"] == "bundle":
        try:
            text = _csv_text(case)
            with warnings.catch_warnings():
                warnings.simplefilter("ignore")
                blocks = list(pdtable.read_csv(io.StringIO(text), case["sep"]))
                twins = list(pdtable.read_csv(io.StringIO(text), case["sep"]))
        except Exception as e:
            # the generated table does not survive CSV (a name or unit holding the separator, …): C01's subject
            raise _Skip(type(e).__name__)
    else:
        text = None
        blocks, twins = [], []
        for b in case["blocks"]:
            if b["kind"] == "table":
                blocks.append((BlockType.TABLE, c06.build(b["table"])))
                twins.append((BlockType.TABLE, c06.build(b["table"])))
            else:
                blocks.append(_non_table_value(b["kind"]))
                twins.append(blocks[-1])
    names = [v.name for bt, v in blocks if bt == BlockType.TABLE and isinstance(v, Table)]
    disp_obj, disp_model, table_of, is_disp = _disp_objects(case, names)
    before = [_snap_block(c06, bt, v, "b%d" % i) for i, (bt, v) in enumerate(blocks)]
    marks = _Marks(blocks, rec)
    obs = {"before": before, "disp_model": disp_model, "text": text}
    explicit = rec if cv["kind"] in ("pure", "fail") else None
    old_default = pdtable.units.default_converter
    yielded, exc = [], None
    try:
        with warnings.catch_warnings():
            warnings.simplefilter("ignore")
            if cv["kind"] == "default":
                pdtable.units.default_converter = rec
            if case["api"] == "gen":
                try:
                    for item in utils.normalized_table_generator(iter(marks), disp_obj, explicit):
                        yielded.append(item)
                except Exception as e:
                    exc = type(e).__name__
            else:
                real_read = utils.read_csv
                seen = {}

                def marked_read(*a, **k):
                    seen["args"] = (len(a), sorted(k))
                    marks.blocks = list(real_read(*a, **k))
                    return iter(marks)
                utils.read_csv = marked_read
                try:
                    bundle = utils.read_bundle_from_csv(io.StringIO(text), case["sep"], disp_obj, explicit)
                    yielded = [(BlockType.TABLE, t) for t in bundle]
                    obs["bundle_names"] = [[nm, len(bundle.all(nm))] for nm in sorted(set(names))]
                    obs["bundle_len"] = len(bundle)
                except Exception as e:
                    exc = type(e).__name__
                finally:
                    utils.read_csv = real_read
    finally:
        pdtable.units.default_converter = old_default
    obs["exc"] = exc
    log = [{k: v for k, v in e.items() if k != "nargs"} for e in (rec.log if rec is not None else [])]
    ms = marks.marks + [len(log)]
    obs["logs"] = [log[ms[i]:ms[i + 1]] for i in range(len(marks.marks))] + [[] for _ in range(len(before) - len(marks.marks))]
    obs["log_all"] = log
    # what was yielded: identity against the incoming objects, snapshots of tables
    src = marks.blocks          # (bundle api: the blocks the library's own read_csv call delivered)
    out = []
    for j, (bt, v) in enumerate(yielded):
        same = next((i for i, (_, w) in enumerate(src) if w is v and v is not None), None)
        ident = ("b%d" % same) if same is not None else ("same-none" if v is None else "new")
        out.append(dict(_snap_block(c06, bt, v, ident), type=bt.name))
    obs["out"] = out
    obs["after"] = [_snap_block(c06, bt, v, "b%d" % i) for i, (bt, v) in enumerate(src)]
    # reference loop over the twins, with its own converter of the same kind
    ref_rec = c06.Recorder(c06.make_converter(cv["pure"]), fail_at=cv.get("fail_at")) if cv["kind"] != "none" else None
    obs["ref"] = ref_stream(c06, case, twins, table_of, is_disp, ref_rec)
    return obs


def ref_stream(c06, case, twins, table_of, is_disp, conv):
    from pdtable import BlockType, Table
    out = []
    for i, (bt, v) in enumerate(twins):
        if bt == BlockType.TABLE and v is not None:
            if not is_disp:
                return out, "TypeError"
            spec = table_of.get(v.name)
            if spec is None:
                out.append({"is_table": True, "table": c06.model_table(c06.snapshot(v)), "same": True})
                continue
            to_obj = c06.build_to(spec, list(v.column_names))[0]
            try:
                with warnings.catch_warnings():
                    warnings.simplefilter("ignore")
                    if conv is None:
                        raise _Missing()
                    r = v.convert_units(to_obj, conv)
            except _Missing:
                return out, "MissingUnitConverterError"
            except Exception as e:
                return out, type(e).__name__
            out.append({"is_table": True, "table": c06.model_table(c06.snapshot(r)), "same": False})
        else:
            out.append({"is_table": bt == BlockType.TABLE, "table": None, "same": True})
    return out, None


class _Missing(Exception):
    pass


# ---------------------------------------------------------------- judging

def eval_bulk(case, out, ops, pend, model_ok, record=True):
    c06 = _c06()
    try:
        obs = run_bulk_impl(case)
    except _Skip as e:
        out.count("bulk:skipped_not_csv_able:" + str(e))
        return None
    out.count("bulk:api:" + case["api"])
    out.count("bulk:disp:" + case["disp"]["kind"])
    out.count("bulk:conv:" + case["conv"]["kind"])
    out.count("bulk:outcome:" + str(obs["exc"] or "ok"))
    out.count("bulk:blocks:%d" % min(len(case["blocks"]), 5))
    nontrivial = bool(obs["log_all"]) or obs["exc"] is not None
    if record:
        out.case(case, nontrivial=nontrivial)
    else:
        out.evaluations += 1

    def fail(what, observed, expected, key):
        out.fail(what, case, observed, expected, key=key)

    d, cv = case["disp"], case["conv"]
    ref_out, ref_exc = obs["ref"]
    truthy = {"none": False, "empty_dict": False}.get(d["kind"], None)
    if truthy is None:
        truthy = bool(d["m"]) if d["kind"] in ("dict",) else True
        if d["kind"] == "other":
            truthy = obs["disp_model"]["truthy"]
    explicit = cv["kind"] in ("pure", "fail")
    if case["api"] == "bundle":
        if truthy and not explicit:
            want_exc, want = "ValueError", None
        elif d["kind"] == "none":
            want_exc, want = None, [b for b in obs["before"]]
            want = [{"is_table": b["is_table"], "table": b["table"], "same": True} for b in want]
        else:
            want_exc, want = ref_exc, ref_out
        if want_exc == "MissingUnitConverterError" and cv["kind"] == "default":
            want_exc = None       # unreachable: the default converter is installed
    else:
        want_exc, want = ref_exc, ref_out
    if obs["exc"] != want_exc:
        fail("bulk conversion: the caller gets another outcome than converting the tables one by one",
             obs["exc"], want_exc, "bulk_outcome")
        return obs
    if case["api"] == "gen":
        got = obs["out"]
        if len(got) != len(want):
            fail("bulk conversion: number of blocks yielded", len(got), len(want), "bulk_count")
            return obs
        for j, (g, w) in enumerate(zip(got, want)):
            if g["is_table"] != w["is_table"] or g["type"] != _type_name(case, obs, j):
                fail("bulk conversion: block type changed at position %d" % j, g["type"], _type_name(case, obs, j), "bulk_type")
            if w["same"] and g["tok"] not in ("b%d" % j, "same-none"):
                fail("bulk conversion: a block that is not converted is not passed on as it came (position %d)" % j,
                     g["tok"], "b%d" % j, "bulk_identity")
            if not w["same"] and g["tok"] != "new":
                fail("bulk conversion: a converted table is not a new table (position %d)" % j, g["tok"], "new",
                     "bulk_not_new")
            if not _same_table(c06, g["table"], w["table"]):
                fail("bulk conversion: table at position %d differs from convert_units of the incoming table" % j,
                     g["table"], w["table"], "bulk_values")
    elif want_exc is None:
        got = [g["table"] for g in obs["out"]]
        wt = [w["table"] for w in want if w["is_table"] and w["table"] is not None]
        if len(got) != len(wt):
            fail("read_bundle_from_csv: number of tables in the bundle", len(got), len(wt), "bundle_count")
        else:
            for j, (g, w) in enumerate(zip(got, wt)):
                if not _same_table(c06, g, w):
                    fail("read_bundle_from_csv: table %d differs from convert_units of the table as read" % j, g, w,
                         "bundle_values")
        if obs.get("bundle_len") != len(wt):
            fail("read_bundle_from_csv: len(bundle)", obs.get("bundle_len"), len(wt), "bundle_len")
    # the incoming tables are not modified
    if len(obs["before"]) != len(obs["after"]):
        fail("read_bundle_from_csv read other blocks than read_csv on the same text", len(obs["after"]), len(obs["before"]),
             "bundle_other_blocks")
    else:
        for b, a in zip(obs["before"], obs["after"]):
            if not _same_table(c06, b["table"], a["table"]):
                fail("bulk conversion modified an incoming table", a["table"], b["table"], "bulk_original_modified")
    if model_ok:
        blocks = [dict(b, log=obs["logs"][i] if i < len(obs["logs"]) else []) for i, b in enumerate(obs["before"])]
        dflt = obs["log_all"] if cv["kind"] == "default" else None
        ops.append({"op": "bulk_convert", "api": case["api"], "blocks": blocks, "disp": obs["disp_model"],
                    "has_conv": explicit, "dflt": dflt})
        pend.append((case, obs))
    return obs


def _type_name(case, obs, j):
    kinds = {"table": "TABLE", "none_table": "TABLE", "meta": "METADATA", "directive": "DIRECTIVE", "blank": "BLANK",
             "template": "TEMPLATE_ROW"}
    return kinds[case["blocks"][j]["kind"]]


def _same_table(c06, a, b):
    if a is None or b is None:
        return a is None and b is None
    if (a["name"], a["dests"], len(a["cols"])) != (b["name"], b["dests"], len(b["cols"])):
        return False
    if not c06.same_toks(a["index"], b["index"]):
        return False
    return all(x["name"] == y["name"] and x["unit"] == y["unit"] and c06.same_toks(x["vals"], y["vals"])
               for x, y in zip(a["cols"], b["cols"]))


def compare_bulk(case, obs, ans, out):
    c06 = _c06()
    if not isinstance(ans, dict) or "error" in ans:
        out.mismatch("driver error: bulk_convert", case, obs.get("exc"), ans)
        return
    if ans.get("exc") != obs["exc"]:
        # a converter call the real run never made is answered "<oracle-miss>" by the model's converter
        out.mismatch("bulk conversion outcome: utils vs Lean model", case, obs["exc"], ans.get("exc"))
        return
    if case["api"] == "gen" or obs["exc"] is None:
        m_out = ans.get("out") or []
        if case["api"] == "bundle":
            m_tabs = [b["table"] for b in m_out if b["is_table"] and b["table"] is not None]
            g_tabs = [g["table"] for g in obs["out"]]
        else:
            m_tabs = [b["table"] for b in m_out]
            g_tabs = [g["table"] for g in obs["out"]]
        if len(m_tabs) != len(g_tabs) or not all(_same_table(c06, g, m) for g, m in zip(g_tabs, m_tabs)):
            out.mismatch("bulk conversion stream: utils vs Lean model", case, g_tabs, m_tabs)
            return
        if case["api"] == "gen":
            if [b["is_table"] for b in m_out] != [g["is_table"] for g in obs["out"]]:
                out.mismatch("bulk conversion block flags: utils vs Lean model", case,
                             [g["is_table"] for g in obs["out"]], [b["is_table"] for b in m_out])
