"""C15 — special units always match the data: text is strings, onoff is booleans.

Same engine as C04 (`harness/props/c04.py`: histories on real Tables replayed on the Lean model of the column
register, every step carrying the observed frame), with weights shifted to type-changing actions (astype, fillna /
replace with foreign types, row append via loc, cell assignment, column overwrite through the facade and directly,
construction and re-wrapping with wrong units, empty <-> non-empty transitions, copies, unit relabelling).

Oracle (no model involved), after every step, on the real table: if the table is strict-typed, has at least one row
and the consultation succeeded, then for every dataframe column  unit == 'text' <=> dtype.kind in {O,S,U}  and
unit == 'onoff' <=> dtype.kind == 'b'; columns created without an explicit unit carry 'text' / 'onoff' / '-' by
dtype kind (strict or not).  The check is suspended between a unit-setter call that involves a special unit
(the statement's "pure metadata edit outside this guarantee") and the next full validation.
"""
import logging

from harness.props import c04 as engine

logging.disable(logging.CRITICAL)

EXTRA = {
    "assumptions": engine.EXTRA["assumptions"] + [
        "the guarantee is not claimed between a unit-setter call (Table.units = ..., Table[c].unit = ..., set_all_units) "
        "that puts or removes a special unit and the next full validation of the table (statement: relabelling through "
        "the unit setter is outside the guarantee); relabelling among non-special units is inside and is exercised",
        "tables with strict_types=False are only covered by the default-unit clause",
        "'building a Table' is a consultation only when keyword arguments are given (`Table(tdf, units=…)` re-validates); "
        "`Table(tdf)` without keyword arguments validates nothing (proxy.py), the first checked access afterwards does",
        "after an excluded relabelling the oracle claims the guarantee again only on evidence that the library validated "
        "the table again (add_column, a consultation that raised, a re-wrap or a derived frame); it assumes nothing about "
        "what the library remembers between consultations",
    ],
    "explanation": "check_establishes / shortcut_sound / default_units / reachable_cons (Props/C15.lean) hold for every "
                   "history with arbitrary dtype behaviour; constants _unit_from_dtype_kind and _units_special are pinned "
                   "by theorems over the regenerated translation; the model is tied to the code by differential "
                   "execution of histories.",
    "trusted_base": engine.EXTRA["trusted_base"],
}


def run(tier, seed, model_ok, translator, search=False):
    out = engine.run(tier, seed, model_ok, translator, search=search, prop="C15", weights=engine.C15_WEIGHTS)
    out.rule = "C15 weighting (type-changing actions) of: " + out.rule
    # oracle health: the consistency clause must actually have been evaluated on most successful consultations of
    # strict tables with rows; a suspension (taint) that never ends would show up here, not as silence
    checked = out.dist.get("c15_checked", 0)
    suspended = out.dist.get("c15_not_claimed:relabelled", 0)
    floor = 800 if tier == "quick" and not search else 0
    if checked < floor or suspended > max(200, checked // 2):
        out.mismatch("oracle health: the C15 consistency clause was evaluated too rarely", {"tier": tier, "seed": seed},
                     {"c15_checked": checked, "suspended_after_relabelling": suspended}, {"floor": floor})
    out.notes.append(f"C15 clause evaluated on {checked} successful consultations; suspended (unit setter with a special "
                     f"unit, until re-validation) on {suspended}")
    return out


def replay(rep):
    return engine.replay(rep, prop="C15", weights=engine.C15_WEIGHTS)
