"""C12 — malformed input is reported as a located input error, never an internal crash.

Cases: valid multi-block inputs (metadata, directives, template rows, row-wise and transposed tables, blank lines)
x systematic corruptions:
  * truncation after every row, and (text) after every character — a writer that died mid-file;
  * every (cell, fault) pair from a fault alphabet: emptied, blanked, mistyped, replaced by a block marker
    (`**x`, `***d`, `:t`, `::x`, `k:`), and — native grids — given another native type (None, int, float, NaN,
    bool, datetime, date, time, an int beyond float range); a cell appended to the row;
  * every row deleted, duplicated, shortened by one cell, emptied;
through `read_csv(io.StringIO(text))` and `read_csv(path)` (text grids), `parse_blocks(rows)` with rows as lists and
as tuples (native grids) and `read_excel(path)` on workbooks with and without their <dimension> record, with the default
(raising) and a collecting tracker, output forms pdtable / jsondata / cellgrid, default and lenient fixer.

Correspondence: every run against Lean `parseBlocks` / `readCsv` (ops "parse_blocks", "read_csv_blocks"): how
the read ends (exhausted / InputError row / escaped class), the issue rows, every delivered block (canonical).

Oracle (no model involved), per corrupted input D of an undamaged input U:
  no exception class other than InputError leaves the reader;
  the InputError row / every collected issue row is the row of a `**` table marker of D;
  (collecting) every table marker row of D is either delivered with that origin row or reported, never both,
  and the read runs to the end; (raising) the blocks delivered are an initial segment of the collecting run's,
  all table rows before the error row were delivered, and the error is the collecting run's first issue;
  blocks completed before the first damaged row are delivered unchanged, first (compared with the undamaged read
  and with the read of the common prefix alone);
  (collecting) every undamaged table that starts after the damaged row is delivered unchanged (origin row shifted
  by the number of rows inserted / removed).
External law checked on every generated string: pandas.to_datetime fails only with ValueError (subclasses).
"""
import contextlib
import datetime
import io
import logging
import os
import re
import shutil
import tempfile
import warnings
import zipfile

from harness import common, reader_common as rc, blocks_common as bc
from harness.common import Outcome, make_rng, grid_to_json

logging.disable(logging.CRITICAL)

EXTRA = {
    "assumptions": [
        "external law DtLaw: pandas.to_datetime(str) fails only with ValueError or a subclass (checked on every string "
        "of every generated case; a different class is reported as a failure, not assumed away)",
        "a tracker / fixer object handed to the reader is used whatever its truth value: collecting trackers that are falsy "
        "while empty (sized, __bool__) or always falsy, and a falsy lenient fixer, are part of the configurations",
        "cells are scalars of the native types a reader produces: str, None, int, float, bool, datetime, date/time "
        "(kept as opaque `other`); rows are lists. Unhashable cells (list, dict) in an onoff column raise TypeError in "
        "the dictionary lookup — outside the input domain of every reader",
        "read_csv is exercised on io.StringIO and on a file on disk (locale encoding, lines end in \\n); separator ';'; "
        "the file route also reads by RELATIVE path while the environment changes after the first delivered block (the "
        "working directory moves away, the file is unlinked or renamed — POSIX: an open file stays readable): the "
        "verdict must not change",
        "truncation is at CHARACTER granularity (the property's quantifier). A file cut inside a multi-byte UTF-8 "
        "character makes the text decoder raise UnicodeDecodeError in `for line in f`, before any row reaches the reader: "
        "byte granularity is outside the quantifier and not exercised",
        "a workbook (.xlsx is a zip archive) cut at a byte position is not a workbook any more: openpyxl raises "
        "BadZipFile before any row exists — like the UTF-8 byte cut this is byte granularity, outside the quantifier "
        "(grids truncated at row / character granularity), and not exercised",
        "the external law is exercised on a deterministic stream of ~2000 digit-leading strings per quick run (6000 "
        "thorough) over the alphabet 0-9-/:. TZ+eE,_apm plus Unicode digits, also injected as cells of datetime columns",
        "read_excel: workbooks written by openpyxl from the (storable) damaged grid, read back with and without the "
        "<dimension> record; the rows handed to the model are those openpyxl's read-only reader yields",
        "the origin row of a delivered jsondata / cellgrid table is observed through the public surface only: a second "
        "pass over the same rows with parse_blocks_stable and a handler dict of our own built from the public "
        "DEFAULT_HANDLERS / TABLE_HANDLERS (nothing in the library is modified)",
        "CPython float(), pandas.to_datetime and numpy/pandas dtype inference are external parameters of the model",
        "DataFrame / Table construction on top of a successfully parsed precursor raises only ValueError or "
        "ColumnUnitException (modelled: unequal column lengths, mixed UTC offsets); compared on every case",
    ],
    "explanation": "Props/C12.lean: handleR_errors / verdict_errors (totality analysis: exactly which exception classes "
                   "a handler can raise and why IndexError/TypeError cannot come from a block cut by the splitter), "
                   "only_input_error, never_escapes, readCsv_only_input_error, located (error row = origin row of a "
                   "failing TABLE block = index of its ** row, via C03), earlier_blocks_delivered / "
                   "damaged_and_undamaged_agree_on_prefix (via C03 prefix stability), collecting_continues, "
                   "raising_stops_at_first — for every sequence of rows of arbitrary native cells, every output form, "
                   "filter, fixer; corruption operators need no theorem of their own.",
    "trusted_base": [
        "CPython float(), pandas.to_datetime, numpy/pandas dtype inference and DataFrame construction "
        "(modelled as parameters / outcome classes; sampled every run)",
    ],
}

TEXT_FAULTS = ["", " ", "abc", "**x", "***d", ":t", "::x", "k:", "a:b:", "1", "-", "nan", "2020-13-45", "2020-01-02T00:00:00Z",
               "*", "**", "****", "1e400", "x;y",
               # an unfilled template placeholder / format directive is a realistic mistyped cell, name or table name
               "{mass}", "{}", "{0}", "{", "}", "${mass}", "%s", "%(x)s", "\\", "**{t}", "**t{0}*", "{a}:"]
NATIVE_FAULTS = [None, 0, 5, -1, 1.5, float("nan"), float("inf"), True, False, datetime.datetime(2020, 1, 2),
                 datetime.datetime(2020, 1, 2, tzinfo=datetime.timezone.utc), datetime.date(2020, 1, 2),
                 datetime.time(1, 2), datetime.timedelta(hours=1, minutes=30), 2 ** 1024, -2 ** 1024, 10 ** 20]
NAMES = ["a", "b", "c", "é", "x1", "T_2", "col", "dd", "q", "Z", "m{x}", "{}", "p%s"]
LEGAL = {
    "text": ["a", " a ", "-", "nan", "None", "1.5", "é µ", "TRUE", "k", "b c"],
    "onoff": ["0", "1", "true", "false", "True", " tRuE "],
    "datetime": ["2020-01-02", "2020-01-02 03:04:05", "2020-1-2", "-", "nan", "2021-12-31 23:59:59"],
    "num": ["0", "1", "-1", "1.5", "1e3", ".5", "inf", "nan", "-", " 7 "],
}
UNITS = {"text": ["text"], "onoff": ["onoff"], "datetime": ["datetime"], "num": ["-", "m", "kg", "°C"]}


# --------------------------------------------------------------------------- valid inputs

def gen_base(rng):
    """-> rows (all str), list of (type, start) of its blocks"""
    rows, blocks = [], []
    if rng.random() < 0.7:
        blocks.append(("METADATA", 0))
        rows.append(["author:", "me"])
        if rng.random() < 0.5:
            rows.append(["purpose:", "test", "extra"])
        rows.append([])
    n_items = rng.choice([2, 3, 3, 4])
    kinds_seq = ["table"] * n_items
    for _ in range(rng.choice([0, 1, 2])):
        kinds_seq.insert(rng.randrange(len(kinds_seq) + 1), rng.choice(["directive", "template"]))
    t_idx = 0
    for item in kinds_seq:
        start = len(rows)
        if item == "directive":
            blocks.append(("DIRECTIVE", start))
            rows.append(["***include"])
            for k in range(rng.choice([1, 2])):
                rows.append([f"file{k}.csv"])
        elif item == "template":
            blocks.append(("TEMPLATE_ROW", start))
            rows.append(["::tpl", "x"])
            rows.append([":c", "y"])
        else:
            blocks.append(("TABLE", start))
            n_col = rng.choice([1, 2, 3, 3])
            n_row = rng.choice([1, 2, 3])
            transposed = rng.random() < 0.35
            kinds = [rng.choice(["text", "onoff", "datetime", "num", "num"]) for _ in range(n_col)]
            pool = list(NAMES)
            rng.shuffle(pool)
            names = pool[:n_col]
            units = [rng.choice(UNITS[k]) for k in kinds]
            data = [[rng.choice(LEGAL[k]) for k in kinds] for _ in range(n_row)]
            tname = f"t{t_idx}" + rng.choice(["", "", "", "{0}", "{n}", "%d"])
            rows.append([f"**{tname}" + ("*" if transposed else "")] + ([""] if rng.random() < 0.4 else []))
            rows.append([rng.choice(["all", "a b", "your_farm"])])
            if transposed:
                for j in range(n_col):
                    rows.append([names[j], units[j]] + [r[j] for r in data])
            else:
                rows.append(list(names))
                rows.append(list(units))
                rows.extend(list(r) for r in data)
            t_idx += 1
        if rng.random() < 0.9:
            rows.append([] if rng.random() < 0.7 else [""])
    return rows, blocks


def to_text(rows):
    return "".join(";".join(r) + "\n" for r in rows)


def split_text(text):
    return [l.rstrip("\n").split(";") for l in text.splitlines(True)]


# --------------------------------------------------------------------------- running the real code

def collecting(kind="plain"):
    """a collecting issue tracker; `kind` varies what Python's truth test says about it — a tracker object handed to
    the reader is THE tracker, whatever `bool(tracker)` / `len(tracker)` are:
      plain   an ordinary object (truthy)
      sized   defines __len__ over its issues: falsy while empty
      never   __bool__ always False
      hasany  __bool__ is "has issues": falsy while empty"""
    from pdtable.table_origin import InputIssueTracker

    class Collecting(InputIssueTracker):
        def __init__(self):
            self._issues = []

        def add_issue(self, input_issue):
            self._issues.append(input_issue)

        @property
        def issues(self):
            return self._issues

    class Sized(Collecting):
        def __len__(self):
            return len(self._issues)

    class Never(Collecting):
        def __bool__(self):
            return False

    class HasAny(Collecting):
        def __bool__(self):
            return bool(self._issues)
    return {"plain": Collecting, "sized": Sized, "never": Never, "hasany": HasAny}[kind]()


def make_fixer(kind):
    """fixer for the reader: the shared configurations, plus `lenient-falsy`: a lenient fixer that is falsy (it has a
    __len__ over its messages, empty at the start) — still THE fixer the caller passed"""
    if kind == "lenient-falsy":
        from pdtable import ParseFixer

        class Sized(ParseFixer):
            def __len__(self):
                return len(self.messages)
        f = Sized()
        f.stop_on_errors = False
        f._called_from_test = True
        return f
    return rc.make_fixer(kind)


def table_origins(rows, to, tracker, fixer_kind):
    """origin rows of the TABLE blocks that are delivered when `rows` are read in output form `to` — observed through
    the PUBLIC surface only: `parse_blocks_stable` with a handler dict of our own, built from the public handler
    tables `DEFAULT_HANDLERS` / `TABLE_HANDLERS` exactly as `parse_blocks` builds its own, the TABLE handler wrapped so
    that the origin it is given is recorded when it returns. (jsondata / cellgrid values carry no origin themselves;
    nothing in the library is modified.)"""
    from pdtable import BlockType
    from pdtable.io.parsers import blocks as B
    from pdtable.table_origin import InputError
    rec = []
    try:
        handlers = {bt: B.make_raw_cells for bt in BlockType}
        handlers.update(dict(B.DEFAULT_HANDLERS))
        base = dict(B.TABLE_HANDLERS)[to]
        stable = B.parse_blocks_stable
    except (AttributeError, KeyError, TypeError):
        return None                      # these module-level names are not API: the origin is then unobservable

    def table_handler(cells, *a, **kw):
        origin = kw.get("origin", a[0] if a else None)
        val = base(cells, *a, **kw)
        rec.append(getattr(getattr(origin, "input_location", None), "row", None))
        return val
    handlers[BlockType.TABLE] = table_handler
    tr = collecting() if tracker == "collecting" else None
    fixer = make_fixer(fixer_kind) if fixer_kind else None
    try:
        with warnings.catch_warnings():
            warnings.simplefilter("ignore")
            for _ in stable(iter(rows), issue_tracker=tr, block_handlers=handlers, fixer=fixer):
                pass
    except InputError:
        pass
    except Exception:  # noqa: BLE001 — the API read of the same rows is what is judged; this pass only observes
        return None
    return rec


def run_reader(route, payload, to, tracker, fixer_kind, env=None, rows=None, sep=None, origin=None, tracker_kind="plain"):
    """the real reader: route "native" (parse_blocks on the row objects as given: lists or tuples), "text"
    (read_csv on io.StringIO), "file" (read_csv on a path), "excel" (read_excel on a path).
    -> blocks / issues / ending as bc.impl_parse_blocks, + "tables": [(origin row, value)] of the delivered tables"""
    from pdtable import read_csv, read_excel
    from pdtable.io.parsers.blocks import parse_blocks
    from pdtable.table_origin import InputError
    tr = collecting(tracker_kind) if tracker == "collecting" else None
    fixer = make_fixer(fixer_kind) if fixer_kind else None
    blocks, ending, table_sheets = [], "exhausted", []
    kw = {}
    if sep is not None:
        kw["sep"] = sep
    if origin is not None:
        kw["origin"] = origin
    err_issue = None
    try:
        with warnings.catch_warnings():
            warnings.simplefilter("ignore")
            if route == "native":
                gen = parse_blocks(iter(payload), to=to, issue_tracker=tr, fixer=fixer, **({"origin": origin} if origin else {}))
            elif route == "text":
                gen = read_csv(io.StringIO(payload), to=to, issue_tracker=tr, fixer=fixer, **kw)
            elif route == "file":
                gen = read_csv(payload, to=to, issue_tracker=tr, fixer=fixer, **kw)
            elif route == "file-env":
                # a RELATIVE path, and the environment changes while the reader is at work (after the first block
                # was handed over): the working directory moves away, or the file is unlinked / renamed
                folder, name = payload
                os.chdir(folder)
                gen = read_csv(name, to=to, issue_tracker=tr, fixer=fixer, **kw)
            else:
                gen = read_excel(payload, to=to, issue_tracker=tr, fixer=fixer)
            for bt, val in gen:
                first = None
                try:
                    first = val.metadata.origin.input_location.row
                except AttributeError:
                    pass
                blocks.append({"ty": bt.name, "first": first, "val": bc.canon_block(bt, val, to)})
                if bt.name == "TABLE":
                    try:
                        table_sheets.append(val.metadata.origin.input_location.sheet_name)
                    except AttributeError:
                        table_sheets.append(None)
                if route == "file-env" and len(blocks) == 1:
                    if env == "chdir":
                        os.chdir("/")
                    elif env == "unlink":
                        os.remove(os.path.join(folder, name))
                    elif env == "rename":
                        os.replace(os.path.join(folder, name), os.path.join(folder, name + ".moved"))
    except InputError as e:
        issue = err_issue = e.args[0]
        ending = {"InputError": getattr(getattr(issue, "load_location", None), "row", None)}
    except Exception as e:  # noqa: BLE001
        ending = {"escaped": type(e).__name__}
    finally:
        if route == "file-env":
            os.chdir(_CWD)
            for leftover in (name, name + ".moved"):
                with contextlib.suppress(OSError):
                    os.remove(os.path.join(folder, leftover))
    issues = [getattr(i.load_location, "row", None) for i in tr.issues] if tr is not None else \
        ([ending["InputError"]] if isinstance(ending, dict) and "InputError" in ending else [])
    # where the reported issues say they are: file path (file routes) and sheet name (workbooks)
    all_issues = list(tr.issues) if tr is not None else ([err_issue] if err_issue is not None else [])
    where = []
    for i in all_issues:
        loc = getattr(i, "load_location", None)
        f = getattr(loc, "file", None)
        where.append({"sheet": getattr(loc, "sheet_name", None),
                      "path": str(getattr(f, "local_path", None)) if getattr(f, "local_path", None) is not None else None})
    tvals = [b["val"] for b in blocks if b["ty"] == "TABLE"]
    if to == "pdtable":
        rec = [b["first"] for b in blocks if b["ty"] == "TABLE"]          # a Table carries its own origin
    else:
        rec = table_origins(rows if rows is not None else payload, to, tracker, fixer_kind) if tvals else []
    tables = list(zip(rec, tvals)) if rec is not None and len(rec) == len(tvals) else [(None, v) for v in tvals]
    return {"blocks": blocks, "issues": issues, "ending": ending, "tables": tables, "where": where,
            "table_sheets": table_sheets}


_CWD = os.getcwd()


def write_text_file(tmpdir, text, n):
    path = os.path.join(tmpdir, f"c12_{n}.csv")
    with open(path, "w", newline="") as f:           # locale encoding, as read_csv's open(source) reads it
        f.write(text)
    return path


def excel_storable(c):
    if c is None or isinstance(c, (str, bool)):
        return not (isinstance(c, str) and (c == "" or c.startswith("=")))
    if isinstance(c, int):
        return abs(c) < 10 ** 15
    if isinstance(c, float):
        return c == c and abs(c) != float("inf")
    if isinstance(c, datetime.datetime):
        return c.tzinfo is None
    return isinstance(c, (datetime.date, datetime.time, datetime.timedelta))


def write_xlsx(tmpdir, rows, n, strip_dimension):
    """one sheet holding `rows`; optionally without the <dimension> record (as other writers produce it): the
    read-only reader then yields ragged tuple rows"""
    import openpyxl
    path = os.path.join(tmpdir, f"c12_{n}.xlsx")
    wb = openpyxl.Workbook()
    ws = wb.active
    for r in rows:
        ws.append(list(r))
    wb.save(path)
    if strip_dimension:
        tmp = path + ".tmp"
        with zipfile.ZipFile(path) as zin, zipfile.ZipFile(tmp, "w", zipfile.ZIP_DEFLATED) as zout:
            for item in zin.infolist():
                data = zin.read(item.filename)
                if item.filename.startswith("xl/worksheets/sheet"):
                    data = re.sub(rb"<dimension [^>]*/>", b"", data)
                zout.writestr(item, data)
        os.replace(tmp, path)
    return path


def read_xlsx_rows(path):
    """the rows exactly as openpyxl's read-only reader yields them (computed without pdtable)"""
    import openpyxl
    wb = openpyxl.load_workbook(path, read_only=True, data_only=True, keep_links=False)
    try:
        return [tuple(r) for r in wb.worksheets[0].iter_rows(values_only=True)]
    finally:
        wb.close()


_EXT = {"floats": {}, "dts": {}, "digits": set()}
_SEEN = set()


def ext_for(rows, out):
    """Ext oracle tables for the strings of `rows` (memoised); the external law is checked on every new string"""
    floats, dts = {}, {}
    for r in rows:
        for c in r:
            if not isinstance(c, str):
                continue
            if c not in _SEEN:
                _SEEN.add(c)
                e = rc.ext_tables([[c]])
                _EXT["floats"].update(e["floats"])
                _EXT["dts"].update(e["dts"])
                _EXT["digits"].update(e["digits"])
                for k, v in e["dts"].items():
                    out.count("law: to_datetime strings checked")
                    if isinstance(v, dict) and "raises" in v:
                        out.fail("external law broken: pandas.to_datetime raised a class outside ValueError",
                                 {"string": k}, v["raises"], "ValueError", key="dtlaw:" + v["raises"])
            if c in _EXT["floats"]:
                floats[c] = _EXT["floats"][c]
            v = c.strip()
            if v in _EXT["dts"]:
                dts[v] = _EXT["dts"][v]
    return {"floats": floats, "dts": dts, "digits": "".join(sorted(_EXT["digits"]))}


# --------------------------------------------------------------------------- oracle

def same_file(observed, expected, base_dir):
    """the location names the FILE that was read: compared as files (relative spellings resolved against the directory
    the read started in), not as strings"""
    if observed is None:
        return False
    base = base_dir or _CWD
    return os.path.realpath(os.path.join(base, observed)) == os.path.realpath(os.path.join(base, expected))


def is_table_start(row):
    return bool(row) and isinstance(row[0], str) and row[0].startswith("**") and not row[0].startswith("***")


def first_diff(a, b):
    n = min(len(a), len(b))
    for i in range(n):
        if a[i] != b[i] or [type(x) for x in a[i]] != [type(x) for x in b[i]]:
            return i
    return n


def judge(out, case, drows, urows, u_res, res_r, res_c, prefix_run, shift, to):
    """the statement evaluated on the implementation's outputs; returns False after the first failure.
    Table origin rows come from the recording handler, so every check runs for all three output forms."""
    for nm, res in (("raising", res_r), ("collecting", res_c)):
        if res is None:
            continue
        end = res["ending"]
        if isinstance(end, dict) and "escaped" in end:
            out.fail("an exception other than InputError escaped the reader", dict(case, tracker=nm), end, "InputError or none",
                     key="escape:" + end["escaped"])
            return False
        rows_reported = list(res["issues"])
        for r in rows_reported:
            if r is None or not (0 <= r < len(drows)) or not is_table_start(drows[r]):
                out.fail("the error location is not the first row of a table block", dict(case, tracker=nm), r,
                         [i for i, x in enumerate(drows) if is_table_start(x)], key="location")
                return False
    starts = [i for i, x in enumerate(drows) if is_table_start(x)]
    for nm, res in (("raising", res_r), ("collecting", res_c)):
        if res is None:
            continue
        for w in res.get("where", []):
            if res.get("expect_path") is not None and not same_file(w["path"], res["expect_path"], res.get("base_dir")):
                out.fail("the error location names another file than the one being read", dict(case, tracker=nm),
                         w["path"], res["expect_path"], key="location:file")
                return False
            if case.get("expect_sheet") is not None and w["sheet"] != case["expect_sheet"]:
                out.fail("the error location names another sheet than the one holding the block", dict(case, tracker=nm),
                         w["sheet"], case["expect_sheet"], key="location:sheet")
                return False
    unobservable = any(f is None for res in (res_r, res_c) if res is not None for f, _ in res["tables"])
    if unobservable:
        out.count("origin rows of delivered tables unobservable for this form: origin checks skipped")
        shift = None
    if res_c is not None:
        if res_c["ending"] != "exhausted":
            out.fail("with a collecting tracker the read did not run to the end", dict(case, tracker="collecting"),
                     res_c["ending"], "exhausted", key="collecting_stopped")
            return False
        deliv = [f for f, _ in res_c["tables"]]
        if not unobservable and (sorted(deliv + res_c["issues"]) != starts or deliv != sorted(deliv) or
                                 res_c["issues"] != sorted(res_c["issues"])):
            out.fail("table blocks are not partitioned into delivered and reported, in order", dict(case, tracker="collecting"),
                     {"delivered": deliv, "issues": res_c["issues"]}, starts, key="partition")
            return False
    if res_r is not None:
        end = res_r["ending"]
        deliv = [f for f, _ in res_r["tables"]]
        if unobservable:
            pass
        elif end == "exhausted":
            if deliv != starts:
                out.fail("a read that ended normally did not deliver every table block", dict(case, tracker="raising"),
                         deliv, starts, key="raising_missing")
                return False
        else:
            r = end["InputError"]
            if deliv != [s for s in starts if s < r]:
                out.fail("tables before the error were not all delivered before it", dict(case, tracker="raising"),
                         deliv, [s for s in starts if s < r], key="raising_before_error")
                return False
        if res_c is not None:
            n = len(res_r["blocks"])
            if res_r["blocks"] != res_c["blocks"][:n]:
                out.fail("blocks delivered before the error differ from the collecting read's", case,
                         res_r["blocks"][-1:], res_c["blocks"][n - 1:n], key="raising_vs_collecting")
                return False
            first_issue = res_c["issues"][:1]
            if (end == "exhausted") != (not first_issue) or (first_issue and end != {"InputError": first_issue[0]}):
                out.fail("the InputError is not the first failing block of the collecting read", case, end, first_issue,
                         key="raising_first_issue")
                return False
    # blocks completed before the damage are delivered unchanged, first
    if prefix_run is not None and u_res is not None:
        n = len(prefix_run["blocks"]) - 1
        if n > 0:
            want = prefix_run["blocks"][:n]
            if u_res["blocks"][:n] != want:
                out.fail("undamaged read does not start with the blocks of its own prefix", case, u_res["blocks"][:n], want,
                         key="prefix_undamaged")
                return False
            for nm, res in (("raising", res_r), ("collecting", res_c)):
                if res is not None and res["blocks"][:n] != want:
                    out.fail("blocks that end before the damage are not delivered unchanged before the error",
                             dict(case, tracker=nm), res["blocks"][:n], want, key="earlier_blocks")
                    return False
    # collecting: undamaged tables after the damage are delivered too (same value, origin row moved by `shift`)
    if res_c is not None and shift is not None and u_res is not None:
        d = first_diff(urows, drows)
        got = dict(res_c["tables"])
        for first, val in u_res["tables"]:
            if first is None or first <= d:
                continue
            if (first + shift) not in got or got[first + shift] != val:
                out.fail("an undamaged table after the damage was not delivered unchanged by the collecting read", case,
                         got.get(first + shift), val, key="later_blocks")
                return False
    return True


# --------------------------------------------------------------------------- corruption enumeration

def corruptions(rng, rows, thorough, native_ok):
    """yield (kind, detail, damaged rows or None, damaged text or None, shift or None)"""
    n = len(rows)
    for t in range(n + 1):
        yield ("trunc_row", t, [list(r) for r in rows[:t]], None, None)
    for i in range(n):
        yield ("row_delete", i, [list(r) for k, r in enumerate(rows) if k != i], None, -1)
        yield ("row_dup", i, [list(r) for r in rows[:i + 1]] + [list(r) for r in rows[i:]], None, 1)
        if rows[i]:
            yield ("row_shorten", i, [list(r[:-1]) if k == i else list(r) for k, r in enumerate(rows)], None, 0)
            yield ("row_empty", i, [[] if k == i else list(r) for k, r in enumerate(rows)], None, 0)
    faults = list(TEXT_FAULTS) + (list(NATIVE_FAULTS) if native_ok else [])
    for i in range(n):
        for j in range(len(rows[i]) + 1):
            fs = faults if thorough else rng.sample(faults, 2)
            for ft in fs:
                if j < len(rows[i]) and isinstance(ft, str) and ft == rows[i][j]:
                    continue
                d = [list(r) for r in rows]
                if j < len(rows[i]):
                    d[i][j] = ft
                else:
                    d[i].append(ft)
                yield ("cell", (i, j, repr(ft)[:40]), d, None, 0)


def char_truncations(rng, text, thorough):
    ks = range(len(text) + 1) if thorough else sorted(rng.sample(range(len(text) + 1), min(60, len(text) + 1)))
    for k in ks:
        yield ("trunc_char", k, None, text[:k], None)


# --------------------------------------------------------------------------- run

SIZE_LADDER = [63, 64, 127, 128, 129, 255, 256, 257, 999, 1000, 1001, 1023, 1024, 1025, 2047, 2048, 2049,
               4095, 4096, 4097, 8191, 8192, 8193]
LONG_FAULTS = [datetime.date(2020, 1, 2), datetime.datetime(2020, 1, 2, 3, 4), datetime.time(1, 2),
               datetime.timedelta(hours=1), 2 ** 1024, -2 ** 1024, None, "abc", "", " ", "{0}", float("nan"), True,
               "2020-01-02T00:00:00Z"]


LAW_ALPHA = "0123456789-/:. TZ+eE,_apm"
UNI_DIGITS = ["١", "٣", "²", "１", "৩", "๔"]


def law_strings(seed, n):
    """digit-leading strings (what _parse_datetime_column hands to pandas.to_datetime), deterministic per seed"""
    rng = make_rng(seed, "C12:law")
    seeds = ["2020-01-02", "2020-01-02 03:04:05", "1/2/2020", "12:30", "2020-01-02T00:00:00+01:00", "20200102", "1e5",
             "2020-W01-1", "1 pm", "0", "10000-01-01", "0001-01-01", "2262-04-12", "1677-09-20", "99999999999999999999",
             "2020-01-02 25:00", "2020-02-30", "1_000", "1,5", "12am", "1-1-1", "2020-01-02T00:00:00.123456789Z",
             "2020-01-02 00:00:00-03:30", "2020-01-02 00:00:00+14:00", "9" * 40, "1" * 400]
    out = list(seeds)
    while len(out) < n:
        r = rng.random()
        if r < 0.45:
            s = rng.choice("0123456789") + "".join(rng.choice(LAW_ALPHA) for _ in range(rng.randint(0, 14)))
        elif r < 0.55:
            s = rng.choice(UNI_DIGITS) + "".join(rng.choice(LAW_ALPHA + "".join(UNI_DIGITS)) for _ in range(rng.randint(0, 8)))
        else:
            t = list(rng.choice(seeds))
            for _ in range(rng.randint(1, 3)):
                k = rng.randrange(len(t) + 1)
                op = rng.random()
                if op < 0.4 and t:
                    t[min(k, len(t) - 1)] = rng.choice(LAW_ALPHA)
                elif op < 0.7:
                    t.insert(k, rng.choice(LAW_ALPHA))
                elif len(t) > 1:
                    del t[min(k, len(t) - 1)]
            s = "".join(t)
            if not s or not s[0].isdigit():
                s = "1" + s
        out.append(s)
    return out


def law_stream(seed, thorough, out, model_ok, ops, pend, tmpdir):
    """the external law DtLaw on a deterministic stream of digit-leading strings (checked string by string in
    `ext_for`), and the same strings as cell faults of datetime columns through the reader"""
    strings = law_strings(seed, 6000 if thorough else 2000)
    for k in range(0, len(strings), 200):
        ext_for([strings[k:k + 200]], out)
    rng = make_rng(seed, "C12:lawtables")
    per = 20
    n_tables = len(strings) // per if thorough else 24
    for t in range(n_tables):
        chunk = strings[t * per:(t + 1) * per] if thorough else rng.sample(strings, per)
        urows = [["**law%d" % t], ["all"], ["when", "n"], ["datetime", "-"]] + [["2020-01-02", str(i)] for i in range(per)] + [[]]
        drows = [list(r) for r in urows]
        for i, sv in enumerate(chunk):
            drows[4 + i][0] = sv
        sp = {"how": rng.choice(["native", "native-tuples", "text"]), "to": rng.choice(["pdtable", "jsondata"]),
              "fixer_kind": rng.choice([None, "lenient"]), "trackers": ["raising", "collecting"], "urows": None,
              "ukey": None, "drows": drows, "dtext": None, "shift": None,
              "case": {"seed": seed, "stream": "law-table", "index": t, "kind": "cell"}}
        if sp["how"] == "text":
            if any(";" in c or "\n" in c for r in drows for c in r):
                sp["how"] = "native"
            else:
                sp["dtext"] = to_text(drows)
                sp["drows"] = split_text(sp["dtext"])
        run_spec(sp, out, model_ok, ops, pend, tmpdir)


def two_sheet_spec(sp, out, tmpdir):
    """a workbook with two sheets: "One" holds the damaged input, "Two" a valid one. Judged: every reported location
    names the sheet that holds the block and a `**` row of THAT sheet; with a collecting tracker reading goes on with
    the next sheet (all its tables delivered); with the raising tracker nothing of the next sheet is delivered after
    an error"""
    import openpyxl
    path = os.path.join(tmpdir, "c12_two_%d.xlsx" % sp["case"]["index"])
    wb = openpyxl.Workbook()
    wb.remove(wb.active)
    # the damaged input is on the first or on the second sheet (half the cases each); the other sheet is valid
    order = (("One", sp["xrows"]), ("Two", sp["valid"])) if not sp.get("damage_second") else \
        (("One", sp["valid"]), ("Two", sp["xrows"]))
    for name, rows in order:
        ws = wb.create_sheet(name)
        for r in rows:
            ws.append(list(r))
    wb.save(path)
    try:
        wb2 = openpyxl.load_workbook(path, read_only=True, data_only=True, keep_links=False)
        try:
            xr = {w.title: [tuple(r) for r in w.iter_rows(values_only=True)] for w in wb2.worksheets}
        finally:
            wb2.close()
        tk = sp.get("tracker_kind", "plain")
        res = {tr: run_reader("excel", path, "pdtable", tr, None, rows=[], tracker_kind=tk) for tr in ("raising", "collecting")}
    finally:
        os.remove(path)
    case = dict(sp["case"], route="excel-two-sheets", damaged_sheet="Two" if sp.get("damage_second") else "One",
                rows={k: grid_to_json(v) for k, v in xr.items()})
    out.evaluations += 1
    out.nontrivial.add(hash((repr(xr), "two")))
    out.count("route:excel-two-sheets (damage on sheet %s)" % case["damaged_sheet"])
    starts = {k: [i for i, x in enumerate(v) if is_table_start(x)] for k, v in xr.items()}
    n0 = len(out.failures)
    for nm, r in res.items():
        c = dict(case, tracker=nm)
        if isinstance(r["ending"], dict) and "escaped" in r["ending"]:
            out.fail("an exception other than InputError escaped the reader", c, r["ending"], None,
                     key="escape:" + r["ending"]["escaped"])
            break
        bad = [(w["sheet"], row) for w, row in zip(r["where"], r["issues"])
               if w["sheet"] not in starts or row not in starts[w["sheet"]]]
        if bad:
            out.fail("the error location (sheet, row) is not the `**` row of a table block of that sheet", c, bad, starts,
                     key="location:sheet")
            break
        wrong = [w["path"] for w in r["where"] if not same_file(w["path"], path, None)]
        if wrong:
            out.fail("the error location names another file than the workbook being read", c, wrong, path,
                     key="location:file")
            break
        per_sheet = {k: len([s for s in r["table_sheets"] if s == k]) for k in starts}
        failed = {k: len([w for w in r["where"] if w["sheet"] == k]) for k in starts}
        if nm == "collecting":
            short = [k for k in starts if per_sheet[k] + failed[k] != len(starts[k])]
            if r["ending"] != "exhausted" or short:
                out.fail("with a collecting tracker not every table block of every sheet was delivered or reported "
                         "(reading must go on after an error, on this sheet and on the next)", c,
                         {"ending": r["ending"], "delivered": per_sheet, "reported": failed},
                         {k: len(v) for k, v in starts.items()}, key="next_sheet")
                break
        elif failed["One"] and per_sheet["Two"]:
            out.fail("blocks of a later sheet were delivered after the error was raised", c, per_sheet, 0,
                     key="raised_but_continued")
            break
        elif not any(failed.values()) and r["ending"] == "exhausted" and \
                any(per_sheet[k] != len(starts[k]) for k in starts):
            out.fail("a read that ended normally did not deliver every table block", c, per_sheet,
                     {k: len(v) for k, v in starts.items()}, key="raising_missing")
            break
    for f in out.failures[n0:]:
        f["input"]["spec"] = encode_spec(sp)


def encode_spec(sp):
    import base64
    import pickle
    return base64.b64encode(pickle.dumps(sp, protocol=4)).decode("ascii")


def decode_spec(txt):
    import base64
    import pickle
    return pickle.loads(base64.b64decode(txt))


def run(tier, seed, model_ok, translator, search=False):
    out = Outcome()
    out.rule = ("valid multi-block inputs x {truncation after every row; (text) after every character [quick: 60 sampled "
                "positions]; every cell (and one appended cell) x fault alphabet [quick: 2 sampled faults per cell]; every "
                "row deleted / duplicated / shortened / emptied} x routes {parse_blocks on native rows given as lists or as "
                "tuples; read_csv on io.StringIO; read_csv on a file path (also by relative path with the environment "
                "changing mid-read); read_excel on a workbook with and without its <dimension> record (sampled faults)} x "
                "{raising, collecting} tracker x output form x {default, lenient} fixer; plus LONG tables on a size ladder "
                "(63..8193 rows, one much larger in thorough) with cell faults of every native type in long columns, native "
                "grids and workbooks. Non-trivial: the damaged input differs from the undamaged one; distinct by damaged "
                "input + configuration. Base i is generated from (seed, i); a failing case carries its full specification.")
    thorough = tier == "thorough"
    n_bases = 14 if thorough else (12 if search else 5)
    ops, pend = [], []
    tmpdir = tempfile.mkdtemp(prefix="c12-")
    try:
        for bi in range(n_bases):
            one_base(seed, bi, thorough, out, model_ok, ops, pend, tmpdir)
        long_tables(seed, thorough, out, model_ok, ops, pend, tmpdir)
        law_stream(seed, thorough, out, model_ok, ops, pend, tmpdir)
    finally:
        shutil.rmtree(tmpdir, ignore_errors=True)
    if model_ok and ops:
        for (case, tracker, impl), ans in zip(pend, common.run_model(ops)):
            if isinstance(ans, dict) and "error" in ans:
                out.mismatch("driver error", dict(case, tracker=tracker), None, ans)
                continue
            if "text" in case and ans.get("rows") != case["rows"]:
                out.mismatch("read_csv rows: pdtable vs Lean readCsvRows", case, case["rows"], ans.get("rows"))
                continue
            want = bc.canon_model(ans)
            got = {"blocks": impl["blocks"], "issues": impl["issues"], "ending": impl["ending"]}
            if want != got:
                out.mismatch("pdtable vs Lean parseBlocks (ending / issues / blocks)", dict(case, tracker=tracker),
                             {"ending": got["ending"], "issues": got["issues"], "blocks": trim_blocks(got["blocks"])},
                             {"ending": want["ending"], "issues": want["issues"], "blocks": trim_blocks(want["blocks"])})
    return out


def trim_blocks(blocks):
    txt = repr(blocks)
    return blocks if len(txt) < 4000 else txt[:4000] + " …"


def transposed_line_rows(rows):
    """indices of the `name, unit, values…` lines of transposed tables"""
    out, inside = [], False
    for i, r in enumerate(rows):
        if is_table_start(r):
            inside = r[0].endswith("*")
            start = i
        elif not r or not r[0]:
            inside = False
        elif inside and i >= start + 2:
            out.append(i)
    return out


def run_spec(sp, out, model_ok, ops, pend, tmpdir, cache=None):
    """one corrupted input, fully specified by `sp` (no randomness in here): run the real reader on the stated route
    with the stated trackers, judge, queue the model ops. A failure carries `sp` so that it replays exactly."""
    cache = {} if cache is None else cache
    how, to, fixer_kind, trackers = sp["how"], sp["to"], sp["fixer_kind"], sp["trackers"]
    tk = sp.get("tracker_kind", "plain")
    uro, drows, dtext, shift = sp["urows"], sp["drows"], sp.get("dtext"), sp.get("shift")
    n_files = cache.setdefault("n_files", [0])
    path = None
    if how.startswith("excel"):
        n_files[0] += 1
        path = write_xlsx(tmpdir, sp["xrows"], n_files[0], how.endswith("nodimension"))
        drows = read_xlsx_rows(path)
    small = sum(len(r) for r in drows) <= 600
    sep, origin = sp.get("sep"), sp.get("origin")
    case = dict(sp["case"], route=how, to=to, fixer=fixer_kind or "default", tracker_kind=tk,
                rows=grid_to_json(drows) if small else {"n_rows": len(drows), "see": "spec"})
    if dtext is not None:
        case["text"] = dtext
    if sep:
        case["sep"] = sep
        out.count("read_csv sep:" + repr(sep))
    if origin:
        case["origin"] = origin
        out.count("origin= argument given")
    if how.startswith("excel"):
        case["expect_sheet"] = "Sheet"
    out.evaluations += 1
    if uro is None or drows != uro:
        out.nontrivial.add(hash((repr(drows) if small else repr(sp["case"]), how, to, fixer_kind)))
    if len(out.samples) < 4 and small and case.get("kind") in ("cell", "trunc_char") and case.get("index", 0) % 37 == 0:
        out.samples.append(case)
    out.count("route:" + how)
    out.count("kind:" + str(case.get("kind")))
    out.count("to:" + to)
    out.count("fixer:" + (fixer_kind or "default"))
    out.count("collecting tracker truthiness:" + tk)
    if sp.get("ladder"):
        out.count("rows ladder:%d" % sp["ladder"])
    res = {}
    try:
        for tr in trackers:
            if how.startswith("file-env"):
                n_files[0] += 1
                fpath = write_text_file(tmpdir, dtext, n_files[0])
                res[tr] = run_reader("file-env", (tmpdir, os.path.basename(fpath)), to, tr, fixer_kind,
                                     env=how.split(":")[1], rows=drows, sep=sep, origin=origin, tracker_kind=tk)
                res[tr]["expect_path"] = os.path.basename(fpath)         # the relative path as it was given
                res[tr]["base_dir"] = tmpdir
            elif how == "file":
                n_files[0] += 1
                fpath = write_text_file(tmpdir, dtext, n_files[0])
                try:
                    res[tr] = run_reader("file", fpath, to, tr, fixer_kind, rows=drows, sep=sep, origin=origin, tracker_kind=tk)
                finally:
                    os.remove(fpath)
                res[tr]["expect_path"] = fpath
            elif how == "text":
                res[tr] = run_reader("text", dtext, to, tr, fixer_kind, rows=drows, sep=sep, origin=origin, tracker_kind=tk)
            elif how.startswith("excel"):
                res[tr] = run_reader("excel", path, to, tr, fixer_kind, rows=drows, tracker_kind=tk)
                res[tr]["expect_path"] = path
            elif how == "native-tuples":
                res[tr] = run_reader("native", [tuple(r) for r in drows], to, tr, fixer_kind, rows=drows, tracker_kind=tk)
            else:
                res[tr] = run_reader("native", [list(r) for r in drows], to, tr, fixer_kind, rows=drows, tracker_kind=tk)
            e = res[tr]["ending"]
            out.count("ending:" + tr + ":" + (e if isinstance(e, str) else next(iter(e))))
    finally:
        if path is not None:
            os.remove(path)
    pr = ur = None
    if uro is not None and fixer_kind is None and not how.startswith("excel"):
        d = first_diff(uro, drows)
        kp = ("prefix", sp["ukey"], d, to)
        if kp not in cache:
            cache[kp] = run_reader("native", uro[:d], to, "collecting", None)
        pr = cache[kp]
        ku = ("u", sp["ukey"], to)
        if ku not in cache:
            cache[ku] = run_reader("native", uro, to, "collecting", None)
        ur = cache[ku]
    n0 = len(out.failures)
    judge(out, case, drows, uro, ur, res.get("raising"), res.get("collecting"), pr, shift if ur is not None else None, to)
    for f in out.failures[n0:]:
        f["input"]["spec"] = encode_spec(sp)
    ext = ext_for(drows, out)
    if model_ok and not sp.get("no_model"):
        for tr in trackers:
            if dtext is not None:
                ops.append({"op": "read_csv_blocks", "text": dtext, "sep": sep or ";", "to": to, "filter": None, "tracker": tr,
                            "fixer": rc.FIXERS[(fixer_kind or "strict").split("-")[0]], "ext": ext})
            else:
                ops.append({"op": "parse_blocks", "rows": grid_to_json(drows), "to": to, "filter": None, "tracker": tr,
                            "fixer": rc.FIXERS[(fixer_kind or "strict").split("-")[0]], "ext": ext})
            mcase = case if small else dict(case, rows={"n_rows": len(drows)})
            pend.append((mcase if dtext is None else dict(mcase, rows=grid_to_json(drows)), tr, res[tr]))


def one_base(seed, bi, thorough, out, model_ok, ops, pend, tmpdir):
    rng = make_rng(seed, f"C12:{bi}")
    urows, layout = gen_base(rng)
    utext = to_text(urows)
    u = run_reader("native", urows, "pdtable", "collecting", None)
    if u["issues"] or u["ending"] != "exhausted":
        out.fail("a valid input was not read completely", {"seed": seed, "base": bi, "rows": grid_to_json(urows),
                                                            "spec": encode_spec({"valid": urows})},
                 {"issues": u["issues"], "ending": u["ending"]}, None, key="valid_rejected")
        return
    trows = split_text(utext)                      # the undamaged rows as read_csv sees them
    cache = {}
    idx = 0
    for route in ("native", "text"):
        gens = corruptions(rng, urows, thorough, native_ok=(route == "native"))
        if route == "text":
            gens = list(gens) + list(char_truncations(rng, utext, thorough))
        for kind, detail, drows, dtext, shift in gens:
            idx += 1
            r1, r2, r3, r4 = rng.random(), rng.random(), rng.random(), rng.random()
            to = "pdtable" if r1 < 0.7 else ("jsondata" if r1 < 0.9 else "cellgrid")
            fixer_kind = None if r2 < 0.85 else ("lenient" if r2 < 0.95 else "lenient-falsy")
            tracker_kind = ["plain", "sized", "never", "hasany"][idx % 4]
            if thorough and kind == "cell":
                trackers = ["raising"] if r3 < 0.5 else ["collecting"]
            else:
                trackers = ["raising", "collecting"]
            how = route
            sep = origin = None
            if route == "text":
                if dtext is None:
                    if any(not isinstance(c, str) or "\n" in c for r in drows for c in r):
                        continue
                    dtext = to_text(drows)
                sep = origin = None
                r5 = rng.random()
                if r5 < 0.15:
                    cand = ["\t", ",", "|"][idx % 3]
                    if cand not in dtext:
                        sep, dtext = cand, dtext.replace(";", cand)      # the same grid, another separator
                elif r5 < 0.25:
                    origin = "somewhere/else.csv"
                drows = [l.rstrip("\n").split(sep or ";") for l in dtext.splitlines(True)]
                # a file on disk instead of a stream: every character truncation in the quick tier, a share otherwise
                if (kind == "trunc_char" and (not thorough or r4 < 0.3)) or r4 < 0.08:
                    how = "file"
                elif r4 < 0.2:
                    how = "file-env:" + ["chdir", "unlink", "rename"][idx % 3]
            elif r4 < 0.5:
                how = "native-tuples"                      # rows as tuples, as the Excel reader delivers them
            sp = {"how": how, "to": to, "fixer_kind": fixer_kind, "trackers": trackers, "tracker_kind": tracker_kind,
                  "urows": trows if route == "text" else urows, "ukey": (bi, route), "drows": drows,
                  "dtext": dtext if route == "text" else None, "shift": shift,
                  "sep": sep if route == "text" else None, "origin": origin if route == "text" else None,
                  "case": {"seed": seed, "base": bi, "index": idx, "kind": kind, "detail": detail}}
            run_spec(sp, out, model_ok, ops, pend, tmpdir, cache)

    # ---- Excel route: the undamaged input and sampled storable faults, each as a workbook with and without its
    # <dimension> record (without it the read-only reader yields ragged tuple rows)
    xrng = make_rng(seed, f"C12x:{bi}")
    cands = [c for c in corruptions(xrng, urows, False, True)
             if all(excel_storable(x) for r in c[2] for x in r)]
    tl = set(transposed_line_rows(urows))
    forced = [c for c in cands if c[0] == "row_shorten" and c[1] in tl][:4]
    picked = [("undamaged", None, [list(r) for r in urows], None, None)] + forced + \
        xrng.sample(cands, min(len(cands), 24 if thorough else 5))
    for kind, detail, xrows, _, _ in (picked[:2] + forced[:1] + picked[-2:]) if not thorough else picked:
        idx += 1
        sp = {"how": "excel2", "xrows": xrows, "valid": [list(r) for r in urows], "damage_second": idx % 2 == 0,
              "tracker_kind": ["plain", "sized", "never", "hasany"][idx % 4],
              "case": {"seed": seed, "base": bi, "index": idx, "kind": kind, "detail": detail}}
        two_sheet_spec(sp, out, tmpdir)
    for kind, detail, xrows, _, _ in picked:
        for strip in (False, True):
            idx += 1
            to = xrng.choice(["pdtable", "pdtable", "jsondata", "cellgrid"])
            sp = {"how": "excel" + ("-nodimension" if strip else ""), "to": to, "fixer_kind": None,
                  "tracker_kind": ["plain", "sized", "never", "hasany"][idx % 4],
                  "trackers": ["raising", "collecting"], "urows": None, "ukey": None, "drows": None, "xrows": xrows,
                  "shift": None, "case": {"seed": seed, "base": bi, "index": idx, "kind": kind, "detail": detail}}
            run_spec(sp, out, model_ok, ops, pend, tmpdir, cache)


def long_base(rng, n):
    """a valid input whose first table has `n` value rows (numeric, text and onoff columns), followed by a small table"""
    kinds = ["num", rng.choice(["num", "text"]), rng.choice(["num", "onoff"])]
    cyc = {"num": ["0", "1.5", "-1", "1e3", "nan", "-", " 7 "], "text": ["a", "b c", "-"], "onoff": ["0", "1", "true"]}
    rows = [["**long"], ["all"], ["a", "b", "c"], [UNITS[k][0] for k in kinds]]
    rows += [[cyc[k][(i + 3 * j) % len(cyc[k])] for j, k in enumerate(kinds)] for i in range(n)]
    rows += [[], ["**tail"], ["all"], ["x"], ["-"], ["1"], []]
    return rows, kinds


def long_tables(seed, thorough, out, model_ok, ops, pend, tmpdir):
    """the corruption operators on LONG columns: a size ladder of value rows, a cell of a long numeric column replaced by
    a fault of every native type; native grids (lists / tuples) and workbooks"""
    rng = make_rng(seed, "C12:long")
    if thorough:
        ladder = SIZE_LADDER + [20011]
    else:
        ladder = sorted(set(rng.sample(SIZE_LADDER, 5) + [1000, 1025, 4097, 8193]))
    cache = {}
    for n in ladder:
        urows, kinds = long_base(rng, n)
        numcols = [j for j, k in enumerate(kinds) if k == "num" and j > 0] or [0]
        faults = LONG_FAULTS if thorough else rng.sample(LONG_FAULTS, 3)
        for fi, ft in enumerate(faults):
            i = 4 + rng.choice([0, n // 2, n - 1])
            j = rng.choice(numcols)
            drows = [list(r) for r in urows]
            drows[i][j] = ft
            how = rng.choice(["native", "native-tuples"])
            to = rng.choice(["pdtable", "pdtable", "jsondata"])
            sp = {"how": how, "to": to, "fixer_kind": None if rng.random() < 0.8 else "lenient",
                  "trackers": ["raising", "collecting"], "urows": urows, "ukey": ("long", n), "drows": drows,
                  "dtext": None, "shift": 0, "ladder": n, "no_model": n > 1100 and not (fi == 0 and n in (4097, 8193)),
                  "case": {"seed": seed, "stream": "long", "n_rows": n, "index": fi, "kind": "cell",
                           "detail": (i, j, repr(ft)[:40])}}
            run_spec(sp, out, model_ok, ops, pend, tmpdir, cache)
            if excel_storable(ft) and n in (1000, 1001, 1025) and fi < 2:
                sp = dict(sp, how="excel", urows=None, ukey=None, drows=None, xrows=drows, shift=None, no_model=False,
                          case=dict(sp["case"], stream="long-excel"))
                run_spec(sp, out, model_ok, ops, pend, tmpdir, cache)
        cache.clear()


def replay(rep):
    inp = rep.get("input") or {}
    if "string" in inp:
        e = rc.ext_tables([[inp["string"]]])
        bad = [v for v in e["dts"].values() if isinstance(v, dict) and "raises" in v]
        return (not bad), ("to_datetime raises " + str(bad) if bad else "to_datetime fails only with ValueError here")
    tmpdir = tempfile.mkdtemp(prefix="c12-")
    try:
        o = Outcome()
        if "spec" in inp:
            sp = decode_spec(inp["spec"])
            if "valid" in sp:
                u = run_reader("native", sp["valid"], "pdtable", "collecting", None)
                ok = not u["issues"] and u["ending"] == "exhausted"
                return ok, "the valid input is read completely" if ok else "a valid input was not read completely"
            if sp.get("how") == "excel2":
                two_sheet_spec(sp, o, tmpdir)
            else:
                run_spec(sp, o, False, [], [], tmpdir)
        elif "rows" in inp and isinstance(inp["rows"], list):
            # an entry written before failures carried their specification: re-judge the damaged rows on their own
            drows = rows_from_json(inp["rows"])
            how = {"text": "text", "file": "file"}.get(str(inp.get("route")), "native")
            sp = {"how": how if "text" in inp else "native", "to": inp.get("to", "pdtable"),
                  "fixer_kind": None if inp.get("fixer", "default") == "default" else inp.get("fixer"),
                  "trackers": ["raising", "collecting"], "urows": None, "ukey": None, "drows": drows,
                  "dtext": inp.get("text"), "shift": None, "case": {"kind": inp.get("kind")}}
            run_spec(sp, o, False, [], [], tmpdir)
        else:
            return False, "replay file has no input (no-failing-input-found): " + str(rep.get("broken"))[:300]
        if o.failures:
            return False, o.failures[0]["what"]
        return True, "property holds on this input"
    finally:
        shutil.rmtree(tmpdir, ignore_errors=True)


def rows_from_json(rows):
    def cell(c):
        if isinstance(c, dict):
            if "i" in c:
                return int(c["i"])
            if "f" in c:
                return float(c["f"])
            if "d" in c:
                return datetime.datetime.fromisoformat(c["d"])
            return datetime.time(1, 2)                     # an opaque native cell
        return c
    return [[cell(c) for c in r] for r in rows]
