"""C13 — every repaired defect is counted and reported; nothing else is altered.

Cases: well-formed tables (both orientations, text / onoff / datetime / numeric columns, text or native cells)
x bounded subsets of defect sites (illegal numeric / onoff / datetime cells, duplicate column names, value rows
cut short) x fixer configurations {default strict (no fixer), ParseFixer class, strict instance, lenient stock
instance, lenient stock class, lenient custom instance, lenient custom class} x API {parse_blocks on native rows,
read_csv on text} x multi-table streams sharing one fixer (default and collecting tracker; tables abutting or separated, with or
without a trailing blank row; zero-row tables; replacement-name collisions; short lines of transposed tables; the same
in-memory grid read twice); two-sheet workbooks through read_excel (all three output forms); one foreign-typed custom
fixer observed only (outside the statement).

Correspondence (model vs code): the whole stream through Lean `parseBlocks` / `readCsv` (ops "parse_blocks_fx",
"read_csv_blocks": delivered tables, issues, ending, and — on streams without a failed block — the fixer the
stream leaves behind: counters and canonical messages), and every table block on its own through `makeTable`
(op "make_table": values, counters, messages) against the per-block snapshots of the shared fixer taken while the
real generator runs (this is the isolation theorem used as a bridge).

Oracle (no model involved): the statement itself — strict read fails iff a defect was injected and its message
names every injected defect; lenient read returns the full shape, every non-defective cell equals the defect-free
parse, illegal cells hold the replacement (stock NaN / NaT / False or the custom value), cut-off cells hold the
missing-value filler, names are unique and the untouched ones unchanged, counters are within
[#illegal + #duplicates + #short rows, that + #cut-off cells]; a block in a stream reads exactly as it reads alone.
"""
import contextlib
import datetime
import io
import json
import logging
import os
import shutil
import tempfile
import warnings

from harness import common, reader_common as rc, blocks_common as bc
from harness.common import Outcome, make_rng, grid_to_json

logging.disable(logging.CRITICAL)

EXTRA = {
    "assumptions": [
        "CPython float() and pandas.to_datetime are external parameters of the model (oracle tables per string)",
        "the model does not carry the messages / counters of a block whose handler raised (Model/Blocks.lean "
        "continues with the reset fixer); the fixer left behind by a stream is therefore compared only on streams "
        "without a failed block; failed blocks are compared through the strict-vs-lenient theorem: the messages in "
        "the InputError text must be those of the lenient model run of the same block",
        "messages accumulate across blocks in the real fixer (never cleared); the statement does not forbid it and "
        "no verdict depends on it (theorem isolation)",
        "value rows cut short in a TRANSPOSED table (a line shorter than the others) are judged by the statement itself "
        "(strict: refused, naming the short value rows; lenient: counted, cut-off cells hold '' / NaN / NaT / the "
        "replacement). The present reader pads such lines silently with empty cells: OPEN known finding F5, key "
        "`transposed_short_line` (a witness is replayed every run; Props/C13.lean proves the negation witness on the "
        "model and names the row-wise theorems `…_partial`)",
        "a custom fixer's value fits its column: in particular a timestamp replacement carries the column's UTC offset "
        "(a tz-naive custom timestamp in a column of `…Z` timestamps makes the table a located refusal: theorem "
        "lenient_table_succeeds states the hypothesis); such cases are generated and left to the model comparison",
        "a fixer passed as a CLASS is a plain class (`type(fixer) is type` in make_fixer): a class with another metaclass "
        "(abc.ABCMeta) is taken for an instance and escapes as TypeError — outside the quantifier's 'class vs instance'",
        "the fixer's counters are read through the public `fixes`; the errors / warnings split is compared only when "
        "observable",
        "a custom fixer returns a value of type vtype, as fix_illegal_cell_value's docstring requires; foreign-typed "
        "replacements are coerced by numpy (None→False in an onoff column, a str turns a numeric column into text in "
        "jsondata) — observed, outside the statement",
        "the entry points without a fixer argument (make_table(cells), json_data_to_table(json)) are called "
        "repeatedly in one process and every call is judged on its own (strict: ValueError naming exactly the call's "
        "own defects; clean: the same table as the stream read)",
        "workbooks: read_excel on a two-sheet .xlsx written by openpyxl (rows padded to sheet width with empty cells, "
        "so row-wise short rows do not exist there); one fixer argument for the whole read",
        "cells are scalars (str / None / int / float / bool / datetime); unhashable cells (list, dict) are outside "
        "the input domain of every reader",
        "read_csv is exercised on io.StringIO (lines end in \\n only)",
        "a lone surrogate in a cell cannot be sent to the model driver (UTF-8): such streams are judged by the oracle "
        "only; tables of more than ~1100 rows likewise (the model comparison of long tables stops at 1025 rows)",
        "stdout / stderr are replaced by ASCII-only strict text streams for part of the reads: a repair must not depend "
        "on what the console can encode. Table names are ASCII unless known_findings.json lists the open finding "
        "`report_print_unencodable` (report() prints the table name: a lenient read is refused when the console cannot "
        "encode it) — then non-ASCII names are generated and the present behaviour is reported under that key",
    ],
    "explanation": "Props/C13.lean: finish_closed (closed form of duplicate-name repair, short-row repair, column "
                   "parsing and report(): values as a function of layout + replacement values, fixer grown by exactly "
                   "the defects), counts, msgs_one_per_fix, msgs_name_defects_partial, short_rows_counted_partial, lenient_values, "
                   "lenient_shape, lenient_cell, filler_values_partial, names_unique, names_kept, strict_eq_lenient, "
                   "strict_fails_iff_defect, strict_failure_is_report_or_typing, strict_failure_messages, lenient_table_succeeds, runBlocks_eq_runV, isolation — for all layouts, all "
                   "ext, all fixer configurations. Illegal-cell messages are proved by count and vtype, not by the "
                   "offending text (the text is checked by the oracle).",
    "trusted_base": [
        "CPython float(), pandas.to_datetime, numpy/pandas dtype inference (modelled as parameters; sampled)",
    ],
}

NAMES = ["a", "b", "c", "é", "x1", "T_2", "col", "dd", "q", "Z"]
LEGAL = {
    "text": ["a", " a ", "-", "nan", "None", "1.5", "é µ", "*", "TRUE", "x" * 9, "k", "b c"],
    "onoff": ["0", "1", "true", "false", "True", "FALSE", " tRuE ", " 0 "],
    "datetime": ["2020-01-02", "2020-01-02 03:04:05", "2020-01-02T03:04:05.000006", "2020-1-2", "20200102", "-", "nan",
                 "NaN", " - ", "2021-12-31 23:59:59"],
    "num": ["0", "1", "-1", "1.5", "-0.0", "1e3", ".5", "+2", "inf", "nan", "NaN", "-", " - ", "3.14159265358979",
            " 7 ", "1_000"],
}
LEGAL_NATIVE = {
    "text": ["s", 5, 1.5, True, datetime.datetime(2020, 1, 2)],
    "onoff": [True, False, 0, 1, 1.0, "true"],
    "datetime": [datetime.datetime(2020, 1, 2), datetime.datetime(2020, 1, 2, 3, 4, 5, 6), "2020-01-02"],
    "num": [0, 1, -3, 1.5, float("nan"), float("inf"), True, None, 10 ** 20, "1.5"],
}
# text a console may not be able to encode: non-Latin-1, astral, a lone surrogate (json.loads can produce one), U+FEFF
ODD_TEXT = {"onoff": ["да", "yes😀", "on\ud83d", "\ufefftrue"], "datetime": ["x😀", "中2020", "y\ud83d"],
            "num": ["12\ud83d", "1😀", "ü1", "中", "\ufeff1", "𝔸"]}
BLANK_TEXT = ["", "", " "]                          # an emptied cell is an illegal cell of any typed column
ILLEGAL = {
    "onoff": ["maybe", "2", "yes", "on", "-", "nan", "1.0"],
    "datetime": ["yesterday", "2020-13-45", "x2020", "2020-02-30", "12:30x", "abc",
                 # dates pandas would understand but that do not start with a digit: illegal by the StarTable rule
                 "Jan 5 2020", "sep-2020", "May 2020", "Mon 5 Jan 2020"],
    "num": ["abc", "1,5", "--1", "1 2", "0x10", "one"],
}
ILLEGAL_NATIVE = {
    "onoff": [None, 2, 1.5, datetime.datetime(2020, 1, 2)],
    "datetime": [None, 5, 1.5, True, datetime.date(2020, 1, 2)],
    "num": [datetime.datetime(2020, 1, 2), datetime.date(2020, 1, 2), 2 ** 1024, -2 ** 1024],
}
UNITS = {"text": ["text"], "onoff": ["onoff"], "datetime": ["datetime"], "num": ["-", "m", "kg", "mm", "°C", "m/s"]}
STOCK = {"num": "nan", "datetime": "NaT", "onoff": False}
CUSTOM = {"num": "-1.0", "datetime": "2000-01-01T00:00:00", "onoff": True}
# custom replacements that are FALSY in Python (0.0, -0.0, False, the epoch): a value, not "nothing"
CUSTOM0 = {"num": "0.0", "datetime": "1970-01-01T00:00:00", "onoff": False}
CUSTOMNEG0 = {"num": "-0.0", "datetime": "1970-01-01T00:00:00", "onoff": False}
REPS = {"strict": STOCK, "lenient": STOCK, "custom": CUSTOM, "custom0": CUSTOM0, "customneg0": CUSTOMNEG0}
MODEL_FIX = dict(rc.FIXERS,
                 custom0={"stop": False, "repFloat": "0.0", "repOnoff": False, "repDt": "1970-01-01T00:00:00"},
                 customneg0={"stop": False, "repFloat": "-0.0", "repOnoff": False, "repDt": "1970-01-01T00:00:00"})


def model_op(op, cells, kind):
    return {"op": op, "cells": grid_to_json(cells), "ext": rc.ext_tables(cells), "fixer": MODEL_FIX[kind]}
VTYPE = {"num": "float", "datetime": "datetime", "onoff": "onoff"}
FIXER_KINDS = ["default", "class", "strict", "lenient", "lenient_class", "custom", "custom_class",
               # lenient declared through the PUBLIC interface of a subclass: `stop_on_errors = False` as a class
               # attribute, or a property override — passed as class and as instance
               "attr_class", "attr", "prop_class", "prop",
               # a custom fixer whose fix_missing_rows_in_column_data RETURNS A NEW padded list and leaves the row it
               # was given untouched (its docstring: "should return the entire row"), class and instance
               "newrow_class", "newrow",
               # custom fixers whose replacement values are falsy: 0 (an int) / 0.0 / -0.0, False, the epoch
               "custom0", "custom0_class", "customneg0"]
# a custom fixer whose replacements are of a FOREIGN type for the column (the model's FixCfg types replacements as
# Bool / float token / timestamp token, so this one is judged by the oracle only)
FOREIGN = {"onoff": None, "datetime": "n/a", "float": "x"}
MODEL_KIND = {"default": "strict", "class": "strict", "strict": "strict", "lenient": "lenient",
              "lenient_class": "lenient", "custom": "custom", "custom_class": "custom",
              "attr_class": "lenient", "attr": "lenient", "prop_class": "lenient", "prop": "lenient",
              "newrow_class": "lenient", "newrow": "lenient",
              # an ORDINARY lenient fixer (no test flag): report() prints its summary to stdout / stderr
              "plain_lenient": "lenient",
              "custom0": "custom0", "custom0_class": "custom0", "customneg0": "customneg0"}


# --------------------------------------------------------------------------- fixers

_instances = []


def fixer_arg(kind):
    """-> (argument for fixer=..., getter of the instance actually used)"""
    import pandas as pd
    from pdtable import ParseFixer

    class Rec(ParseFixer):
        def __init__(self):
            super().__init__()
            self._called_from_test = True
            _instances.append(self)

    class LenientCls(Rec):
        def __init__(self):
            super().__init__()
            self._stop_on_errors = 0

    class CustomCls(LenientCls):
        def fix_illegal_cell_value(self, vtype, value):
            ParseFixer.fix_illegal_cell_value(self, vtype, value)
            return {"onoff": True, "datetime": pd.Timestamp("2000-01-01"), "float": -1.0}.get(vtype, -1.0)

    class AttrCls(Rec):
        stop_on_errors = False                     # plain class attribute shadowing the property

    class PropCls(Rec):
        @property
        def stop_on_errors(self):
            return False

    class NewRowCls(LenientCls):
        def fix_missing_rows_in_column_data(self, row, row_data, num_columns):
            # count and log as the stock fixer does, on a COPY; the caller's list is not touched
            return ParseFixer.fix_missing_rows_in_column_data(self, row, list(row_data), num_columns)

    class ForeignCls(LenientCls):
        def fix_illegal_cell_value(self, vtype, value):
            ParseFixer.fix_illegal_cell_value(self, vtype, value)
            return FOREIGN.get(vtype, "x")

    del _instances[:]
    if kind == "foreign":
        f = ForeignCls()
        return f, lambda: f
    if kind == "plain_lenient":
        f = ParseFixer()
        f.stop_on_errors = False
        return f, lambda: f
    class Custom0Cls(LenientCls):
        def fix_illegal_cell_value(self, vtype, value):
            ParseFixer.fix_illegal_cell_value(self, vtype, value)
            return {"onoff": False, "datetime": pd.Timestamp("1970-01-01"), "float": 0}.get(vtype, 0.0)

    class CustomNeg0Cls(LenientCls):
        def fix_illegal_cell_value(self, vtype, value):
            ParseFixer.fix_illegal_cell_value(self, vtype, value)
            return {"onoff": False, "datetime": pd.Timestamp("1970-01-01"), "float": -0.0}.get(vtype, -0.0)

    by_class = {"attr": AttrCls, "prop": PropCls, "newrow": NewRowCls, "custom0": Custom0Cls, "customneg0": CustomNeg0Cls}
    if kind in by_class:
        f = by_class[kind]()
        return f, lambda: f
    if kind.endswith("_class") and kind[:-6] in by_class:
        return by_class[kind[:-6]], lambda: _instances[-1] if _instances else None
    if kind == "default":
        return None, lambda: None
    if kind == "class":
        return Rec, lambda: _instances[-1] if _instances else None
    if kind == "lenient_class":
        return LenientCls, lambda: _instances[-1] if _instances else None
    if kind == "custom_class":
        return CustomCls, lambda: _instances[-1] if _instances else None
    if kind in ("strict", "lenient", "custom"):
        f = rc.make_fixer(kind)
        return f, lambda: f
    raise ValueError(kind)


# --------------------------------------------------------------------------- running the real code

def issue_text(issue):
    return str(getattr(issue, "issue", issue))


def counters(fx):
    """the fixer's counters through its PUBLIC surface: `fixes`; the split into errors / warnings is private state and
    only reported when it happens to be observable (never required)"""
    return {"fixes": fx.fixes, "errors": getattr(fx, "_errors", None), "warnings": getattr(fx, "_warnings", None)}


def canon_fixer(fx):
    return dict(counters(fx), msgs=rc.canon_msgs(fx.messages))


def same_fixer(impl_fx, model_fx):
    """impl: canon_fixer / snapshot dict; model: {"errors", "warnings", "msgs"}"""
    if impl_fx["fixes"] != model_fx["errors"] + model_fx["warnings"]:
        return False
    if impl_fx.get("errors") is not None and impl_fx.get("warnings") is not None and \
            (impl_fx["errors"], impl_fx["warnings"]) != (model_fx["errors"], model_fx["warnings"]):
        return False
    # the log is compared as a bag: in which order the columns of one table are parsed (and their messages logged)
    # is promised by nothing; the per-block oracles judge which block a message belongs to
    def bag(ms):
        return sorted(json.dumps(m, sort_keys=True, default=str) for m in ms)
    return "msgs" not in impl_fx or bag(impl_fx["msgs"]) == bag(model_fx["msgs"])


def ascii_stream():
    """what a console limited to ASCII looks like to print(): encoding errors are raised, not replaced"""
    return io.TextIOWrapper(io.BytesIO(), encoding="ascii", errors="strict", write_through=True)


def run_impl(rows=None, text=None, fixer_kind="default", tracker="raising", to="pdtable", grid=None, ascii_stdout=False):
    """the real reader on native rows (parse_blocks) or on text (read_csv); per-block fixer snapshots.
    `grid`: hand THIS list-of-lists object to parse_blocks (no copy), as a caller holding a grid in memory does"""
    from pdtable.io.parsers.blocks import parse_blocks
    from pdtable import read_csv
    from pdtable.table_origin import InputError
    arg, getter = fixer_arg(fixer_kind)
    tr = bc.collecting_tracker() if tracker == "collecting" else None
    blocks, snaps, ending, err_text = [], [], "exhausted", None
    sink, sink2 = (ascii_stream(), ascii_stream()) if ascii_stdout else (io.StringIO(), io.StringIO())
    try:
        with warnings.catch_warnings(), contextlib.redirect_stdout(sink), contextlib.redirect_stderr(sink2):
            warnings.simplefilter("ignore")
            if text is not None:
                gen = read_csv(io.StringIO(text), to=to, issue_tracker=tr, fixer=arg)
            elif grid is not None:
                gen = parse_blocks(iter(grid), to=to, issue_tracker=tr, fixer=arg)
            else:
                gen = parse_blocks(iter([list(r) for r in rows]), to=to, issue_tracker=tr, fixer=arg)
            for bt, val in gen:
                first = None
                try:
                    first = val.metadata.origin.input_location.row
                except AttributeError:
                    pass
                blocks.append({"ty": bt.name, "first": first, "val": bc.canon_block(bt, val, to)})
                fx = getter()
                if fx is None:
                    snaps.append(None)
                else:
                    prev = snaps[-1]["n_msgs"] if snaps and snaps[-1] else 0
                    snaps.append(dict(counters(fx), n_msgs=len(fx.messages), new_msgs=list(fx.messages[prev:])))
    except InputError as e:
        issue = e.args[0]
        ending = {"InputError": getattr(getattr(issue, "load_location", None), "row", None)}
        err_text = issue_text(issue)
    except Exception as e:  # noqa: BLE001
        ending = {"escaped": type(e).__name__}
    if tr is not None:
        issues = [getattr(i.load_location, "row", None) for i in tr.issues]
        issue_texts = [issue_text(i) for i in tr.issues]
    else:
        issues = [ending["InputError"]] if isinstance(ending, dict) and "InputError" in ending else []
        issue_texts = [err_text] if err_text is not None else []
    fx = getter()
    return {"blocks": blocks, "issues": issues, "ending": ending, "snaps": snaps, "issue_texts": issue_texts,
            "fixer": None if fx is None else canon_fixer(fx)}


# --------------------------------------------------------------------------- generator

def gen_table(rng, idx, native=False, allow_transposed=True, n_row=None, transposed=None):
    n_col = rng.choice([1, 2, 2, 3, 3, 4, 5]) if n_row is None else rng.choice([2, 3])
    if n_row is None:
        n_row = rng.choice([0, 1, 2, 2, 3, 4])       # 0: header only (name and unit rows, no values)
    t_draw = allow_transposed and rng.random() < 0.35
    transposed = t_draw if transposed is None else transposed
    kinds = [rng.choice(["text", "onoff", "datetime", "num", "num"]) for _ in range(n_col)]
    if n_row >= 60:                                  # long tables are mostly numeric
        kinds = [rng.choice(["text", "onoff", "datetime", "num", "num", "num", "num"]) for _ in range(n_col)]
    pool = list(NAMES)
    rng.shuffle(pool)
    names = pool[:n_col]
    units = [rng.choice(UNITS[k]) for k in kinds]

    def cell(k, j):
        if native and rng.random() < 0.4:
            v = rng.choice(LEGAL_NATIVE[k])
            # an empty native cell in the first column (row-wise) would end the block; in a transposed table it
            # could make a whole value row blank: keep the table well formed (DESIGN §3)
            if v is None and (j == 0 or transposed):
                v = 1.5
            return v
        return rng.choice(LEGAL[k])
    data = [[cell(k, j) for j, k in enumerate(kinds)] for _ in range(n_row)]
    offset_cols = []
    if not native:
        # datetime columns whose timestamps all carry ONE UTC offset (pandas keeps them as a tz-aware column)
        for j, k in enumerate(kinds):
            if k == "datetime" and n_row and rng.random() < 0.2:
                spell = rng.choice([["2020-01-02T00:00:00Z", "2021-12-31 23:59:59+00:00", "2020-06-01T12:00:00Z", "-", "nan"],
                                    ["2020-01-02T00:00:00+01:00", "2020-06-01 12:00:00+01:00", "-"],
                                    ["2020-01-02T00:00:00-03:30", "2020-06-01 12:00:00-03:30"]])
                for r in data:
                    r[j] = rng.choice(spell)
                if any(str(r[j]).strip() not in ("-", "nan") for r in data):
                    offset_cols.append(j)
    if n_row >= 60:
        # long tables: most numeric columns of real files hold plain numbers only, in one spelling style
        for j, k in enumerate(kinds):
            if k == "num" and rng.random() < 0.7:
                plain = rng.choice([["0", "1", "-1", "1.5", "2.25", "100"], ["1", "2", "3"], ["0.5", "1e3", "-2.75"]])
                for r in data:
                    r[j] = rng.choice(plain)
    return {"name": f"t{idx}", "transposed": transposed, "kinds": kinds, "names": names, "units": units, "data": data,
            "offset_cols": offset_cols}


def inject(rng, tab, native=False, p_defect=0.75, style=None):
    """choose a bounded subset of defect sites; returns the defect description"""
    n_col, n_row = len(tab["names"]), len(tab["data"])
    d = {"illegal": {}, "dups": {}, "short": {}, "tshort": {}}
    if rng.random() > p_defect:
        return d
    cands = [(i, j) for i in range(n_row) for j in range(n_col) if tab["kinds"][j] != "text"]
    rng.shuffle(cands)
    if n_row >= 60:
        # long tables: a defect in every typed column first (then the extra ones wherever they fall)
        first = {}
        for c in cands:
            first.setdefault(c[1], c)
        head = sorted(first.values(), key=lambda c: c[1])
        cands = head + [c for c in cands if c not in set(head)][:8]
    long = n_row >= 60
    # in a long table the defects are often of ONE kind (cells emptied by hand, one bad paste): blank / odd text / mixed
    s_draw = rng.choice(["blank", "blank", "blank", "odd", "mixed", "mixed"]) if long else "mixed"
    style = style or s_draw
    blank = rng.choice(BLANK_TEXT)                   # "cells emptied by hand" come in one spelling
    for (i, j) in cands[: (n_col + rng.choice([0, 1, 2])) if long else rng.choice([0, 1, 1, 2, 3])]:
        k = tab["kinds"][j]
        if native and rng.random() < 0.35:
            v = rng.choice(ILLEGAL_NATIVE[k])
            if v is None and (j == 0 or tab["transposed"]):
                v = rng.choice(ILLEGAL[k])
            d["illegal"][(i, j)] = v
        else:
            r = {"blank": 0.2, "odd": 0.0}.get(style, rng.random())
            if r < 0.12:
                d["illegal"][(i, j)] = rng.choice(ODD_TEXT[k])
            elif r < (0.4 if long else 0.22) and j > 0 and not tab["transposed"]:
                d["illegal"][(i, j)] = blank if style == "blank" else rng.choice(BLANK_TEXT)   # (j > 0: a blank first cell ends the block)
            else:
                d["illegal"][(i, j)] = rng.choice(ILLEGAL[k])
    # a table without value rows can only have a name defect: aim there more often
    if n_col >= 2 and rng.random() < (0.8 if n_row == 0 else 0.45):
        inject_dups(rng, tab, d)
    if tab["transposed"] and n_col >= 2 and n_row >= 1 and rng.random() < 0.4:
        # lines of a transposed table cut short (at least one line stays complete: it fixes the number of value rows).
        # Documented behaviour: the reader pads such a line with empty cells BEFORE any fixer is involved — no error
        # is counted; an empty cell is a missing number (NaN) in a numeric column, the text "None" in a text column,
        # and an illegal cell (replacement + one warning) in an onoff / datetime column
        for j in rng.sample(range(n_col), rng.choice([1, 1, min(2, n_col - 1)])):
            d["tshort"][j] = rng.randrange(max(0, n_row - 3), n_row)     # (a long line loses at most its last 3 cells)
    if not tab["transposed"] and n_col >= 2 and n_row >= 1 and rng.random() < 0.45:
        for i in rng.sample(range(n_row), rng.choice([1, 1, min(2, n_row)])):
            d["short"][i] = rng.randrange(1, n_col)          # keep the first cell: the row stays in the block
    return d


def taken_positions(names):
    """header positions whose name is already taken by a (repaired) name to their left, and the repaired names —
    the StarTable/fixer rule `<name>_fixed_NNN`, first free NNN (used by the generator to aim clash names)"""
    emitted, taken = [], []
    for j, n in enumerate(names):
        if n in emitted:
            taken.append(j)
            k = 0
            while f"{n}_fixed_{k:03}" in emitted:
                k += 1
            n = f"{n}_fixed_{k:03}"
        emitted.append(n)
    return taken, emitted


def inject_dups(rng, tab, d):
    """duplicate names; with good probability also a LATER column that literally carries the replacement name the
    fixer generates for a duplicate (`a; a; a_fixed_000`), and a duplicate of that"""
    n_col = len(tab["names"])
    names = list(tab["names"])
    marked = set()
    for j in sorted(rng.sample(range(1, n_col), rng.choice([1, 1, min(2, n_col - 1)]))):
        names[j] = names[rng.randrange(0, j)]
        marked.add(j)
    if rng.random() < 0.7:
        for j in sorted(marked):
            _, emitted = taken_positions(names)
            later = [x for x in range(j + 1, n_col) if x not in marked]
            if later and rng.random() < 0.75:
                j2 = rng.choice(later)
                names[j2] = emitted[j]                     # the replacement name of column j, literally
                marked.add(j2)
                later2 = [x for x in range(j2 + 1, n_col) if x not in marked]
                if later2 and rng.random() < 0.4:
                    j3 = rng.choice(later2)
                    names[j3] = emitted[j]
                    marked.add(j3)
    taken, _ = taken_positions(names)
    if set(taken) != marked:
        return                                             # bookkeeping would be ambiguous: inject no name defect
    d["dups"] = {j: names[j] for j in sorted(marked)}
    d["hdr"] = names


def header_names(tab, d):
    return list(d.get("hdr") or tab["names"])


def build_grid(tab, d=None, pad=False):
    d = d or {"illegal": {}, "dups": {}, "short": {}, "tshort": {}}
    names = header_names(tab, d)
    data = [list(r) for r in tab["data"]]
    for (i, j), v in d["illegal"].items():
        data[i][j] = v
    head = "**" + tab["name"] + ("*" if tab["transposed"] else "")
    grid = [[head], ["all"]]
    if tab["transposed"]:
        for j in range(len(names)):
            vals = [r[j] for r in data]
            if j in d.get("tshort", {}):
                vals = vals[: d["tshort"][j]]
            grid.append([names[j], tab["units"][j]] + vals)
    else:
        grid.append(names)
        grid.append(list(tab["units"]))
        for i, r in enumerate(data):
            grid.append(r[: d["short"][i]] if i in d["short"] else r)
    return grid


def to_text(rows):
    return "".join(";".join(r) + "\n" for r in rows)


def padded_cells(tab, d):
    """cells of a transposed table that the reader pads with an empty cell because their line was cut short"""
    return [(i, j) for j, keep in sorted(d.get("tshort", {}).items()) for i in range(keep, len(tab["data"]))]


def padded_illegal(tab, d):
    return [(i, j) for (i, j) in padded_cells(tab, d) if tab["kinds"][j] in ("onoff", "datetime")]


def effective_illegal(tab, d):
    """injected illegal cells that are still in the grid (not cut off by a short row or a short line)"""
    pad = set(padded_cells(tab, d))
    return {(i, j): v for (i, j), v in d["illegal"].items()
            if not (i in d["short"] and j >= d["short"][i]) and (i, j) not in pad}


def n_defects(tab, d):
    return len(effective_illegal(tab, d)) + len(d["dups"]) + len(d["short"]) + len(padded_illegal(tab, d))


# --------------------------------------------------------------------------- oracle

def same_col(a, b):
    return a == b


def block_entries(text):
    """candidate lists of the message entries of ONE block out of a strict failure text, wording-agnostic: the first
    line is the summary, every further line is one entry (generated cells hold no newline). `messages` is never
    cleared, so entries of earlier blocks come first; the block's own are the last N, N = the count the summary line
    states — every free-standing integer of the summary line is tried as N (a reworded summary may carry other
    numbers); without any, all entries. Returns None when there is no entry line at all."""
    import re as _re
    lines = text.split("\n")
    if len(lines) < 2:
        return None
    entries = [l for l in lines[1:] if l.strip()]
    cands = []
    for m in _re.finditer(r"(?<![\w.])(\d+)(?![\w.])", lines[0]):
        n = int(m.group(1))
        if 0 < n <= len(entries) and entries[-n:] not in cands:
            cands.append(entries[-n:])
    # last resort: all entries — `names_defects` then takes as many of the LAST ones as the block has defects (the count
    # in the summary line need not be the number of entries: a fixer may count one fix per missing cell)
    return cands + [("all", entries)]


def names_defects(cands, tab, d, out, case, what="strict failure message"):
    """some candidate reading of the message names every defect of the block (and nothing else)"""
    for entries in cands:
        if isinstance(entries, tuple):
            if expect_message_names_defects(entries[1], tab, d, Outcome(), case, what, take_suffix=True):
                return True
        elif expect_message_names_defects(entries, tab, d, Outcome(), case, what):
            return True
    first = cands[0]
    if isinstance(first, tuple):
        return expect_message_names_defects(first[1], tab, d, out, case, what, take_suffix=True)
    return expect_message_names_defects(first, tab, d, out, case, what)


def _has_number(entry, n):
    import re as _re
    return _re.search(r"(?<![\w.])%d(?![\w.])" % n, entry) is not None


def expect_message_names_defects(entries, tab, d, out, case, what="strict failure message", take_suffix=False):
    """the message entries of a block NAME every injected defect — judged by containment, not by wording: an illegal
    cell by its value text as the fixer receives it (and the vtype), a duplicate column by its name and position, a
    short row by its row number; every defect needs an entry of its own (a matching), and what is left over may only
    name filler cells that are illegal for their column"""
    names = header_names(tab, d)
    wants = []                                               # (kind, description, predicate on an entry)
    for j in sorted(d["dups"]):
        wants.append(("duplicate column", f"column name {names[j]!r} and position {j}",
                      lambda e, n=names[j], j=j: n in e and _has_number(e, j)))
    for i in sorted(d["short"]):
        wants.append(("short row", f"row number {i}",
                      lambda e, i=i: _has_number(e, i) and not any(v in e for v in VTYPE.values())))
    ill = effective_illegal(tab, d)
    for (i, j), v in sorted(ill.items(), key=lambda kv: kv[0]):
        k = tab["kinds"][j]
        shown = v
        if isinstance(v, str):
            shown = v.strip().lower() if k == "num" else (v.strip() if k == "datetime" else v)
        wants.append(("illegal cell", f"value text {str(shown)!r} and vtype {VTYPE[k]}",
                      lambda e, t=f"{shown}", vt=VTYPE[k]: t in e and vt in e))
    for (i, j) in padded_illegal(tab, d):
        wants.append(("illegal cell (empty cell padded into a short line)", f"value text 'None' and vtype {VTYPE[tab['kinds'][j]]}",
                      lambda e, vt=VTYPE[tab["kinds"][j]]: "None" in e and vt in e))
    # filler cells of short rows that are illegal for their column (onoff) are named too: by the filler text
    n_fill = sum(1 for i, c in d["short"].items() for j in range(c, len(tab["names"])) if tab["kinds"][j] == "onoff")
    for _ in range(n_fill):
        wants.append(("filler cell", "a missing-value filler text (NaN) and vtype onoff",
                      lambda e: "nan" in e.lower() and "onoff" in e))
    if take_suffix:
        entries = entries[-len(wants):] if wants else []
    # a matching that gives every defect an entry of its own (tiny sizes: augmenting paths)
    adj = [[k for k, e in enumerate(entries) if pred(e)] for (_, _, pred) in wants]
    match_of_entry = {}

    def augment(u0, _seen):
        # iterative search for an augmenting path from defect u0 (alternating BFS; no recursion depth to exhaust)
        parent, seen, queue = {}, set(), [u0]
        while queue:
            u = queue.pop(0)
            for k in adj[u]:
                if k in seen:
                    continue
                seen.add(k)
                parent[k] = u
                if k not in match_of_entry:
                    while True:                      # flip the path back to u0
                        pu = parent[k]
                        prev = next((e for e, w in match_of_entry.items() if w == pu and e != k), None)
                        match_of_entry[k] = pu
                        if pu == u0:
                            return True
                        k = prev
                queue.append(match_of_entry[k])
        return False
    for u in range(len(wants)):
        if not augment(u, set()):
            kind, desc, _ = wants[u]
            out.fail(f"{what} does not name an injected {kind}", case, entries[-8:], desc,
                     key="strict_message:" + kind.split()[0])
            return False
    left = [e for k, e in enumerate(entries) if k not in match_of_entry]
    if left:
        out.fail(f"{what} has entries that name no defect of this block", case, left, len(wants), key="strict_message:extra")
        return False
    return True


def check_lenient_table(t, base, tab, d, rep, fx, out, case):
    """t, base: canon_table dicts of the lenient read of the defective grid / the strict read of the clean grid"""
    n_col, n_row = len(tab["names"]), len(tab["data"])
    if len(t["names"]) != n_col or len(t["columns"]) != n_col:
        out.fail("lenient read lost or gained columns", case, t["names"], tab["names"], key="lenient_shape:columns")
        return False
    if len(set(t["names"])) != len(t["names"]):
        out.fail("column names are not unique after the repair", case, t["names"], None, key="names_unique")
        return False
    for j in range(n_col):
        if j not in d["dups"] and t["names"][j] != base["names"][j]:
            out.fail("a column name that was not a duplicate was changed", case, t["names"], base["names"],
                     key="names_kept")
            return False
    if t["units"] != base["units"] or t["name"] != base["name"] or t["destinations"] != base["destinations"]:
        out.fail("header fields changed by the lenient read", case, [t["name"], t["units"]], [base["name"], base["units"]],
                 key="lenient_header")
        return False
    ill = effective_illegal(tab, d)
    pad = set(padded_cells(tab, d))
    for j in range(n_col):
        col, bcol, k = t["columns"][j], base["columns"][j], tab["kinds"][j]
        if len(col["v"]) != n_row:
            out.fail("lenient read does not have the full number of rows", case, len(col["v"]), n_row,
                     key="lenient_shape:rows")
            return False
        for i in range(n_row):
            got = col["v"][i]
            cut = i in d["short"] and j >= d["short"][i]
            if (i, j) in pad:
                continue                                   # judged by judge_transposed_short
            elif cut:
                want = {"text": "NaN", "num": "nan", "datetime": "NaT"}.get(k, rep["onoff"])
                what, key = "a cut-off cell does not hold the missing-value filler", "filler"
                if k == "text" and got in ("", "nan", "NaN", "NAN"):
                    continue                              # any missing-value spelling is a missing-value filler
            elif (i, j) in ill:
                want = rep[k]
                what, key = "an illegal cell does not hold the fixer's replacement", "replacement:" + k
            else:
                want = bcol["v"][i]
                what, key = "a non-defective cell differs from the defect-free parse", "untouched"
            if got != want:
                out.fail(what, dict(case, row=i, column=j), got, want, key=key)
                return False
        kind_ok = col["k"] == bcol["k"] or (k == "datetime" and {col["k"], bcol["k"]} <= {"dt", "text"})
        if not kind_ok:
            out.fail("column kind changed by the repair", dict(case, column=j), col["k"], bcol["k"], key="kind")
            return False
    if fx is not None:
        lo = len(ill) + len(d["dups"]) + len(d["short"])
        hi = lo + 2 * sum(n_col - c for c in d["short"].values()) + 2 * len(pad)    # (>= 1 per short row: up to one per
        # missing cell, plus the filler cells that are themselves illegal)
        fixes = fx["fixes"]
        if not (lo <= fixes <= hi):
            out.fail("fixer counters do not equal #illegal + #duplicates + (>= 1 per short row)", case,
                     fx, {"at_least": lo, "at_most": hi}, key="counts")
            return False
        # (how many messages a fix logs is not part of the statement: every defect must be NAMED — judged on the log)
    return True


def reread_check(seq, out, case, rows, any_defect):
    """a caller's in-memory grid: the read must not change it, and reading the SAME object again must give the
    same verdict, shape and counters as reading a fresh copy of the original grid"""
    grid = [list(r) for r in rows]
    snapshot = grid_to_json(rows)
    for step, fk in enumerate(seq):
        same = run_impl(fixer_kind=fk, tracker="collecting", grid=grid)
        fresh = run_impl(rows=rows, fixer_kind=fk, tracker="collecting")
        c = dict(case, reread={"sequence": list(seq), "step": step})
        if grid_to_json(grid) != snapshot:
            out.fail("reading changed the caller's cell grid", c, grid_to_json(grid), snapshot, key="grid_mutated")
            return False
        view = lambda r: {k: r[k] for k in ("blocks", "issues", "ending", "snaps", "fixer")}   # noqa: E731
        if view(same) != view(fresh):
            out.fail("a second read of the same in-memory grid differs from a read of the original grid", c,
                     {"issues": same["issues"], "snaps": same["snaps"], "n_blocks": len(same["blocks"])},
                     {"issues": fresh["issues"], "snaps": fresh["snaps"], "n_blocks": len(fresh["blocks"])},
                     key="reread_differs")
            return False
        if MODEL_KIND[fk] == "strict" and any_defect and not same["issues"]:
            out.fail("a strict re-read of a defective grid reported nothing", c, same["issues"], None,
                     key="reread_strict_silent")
            return False
    return True


# --------------------------------------------------------------------------- run

def encode_spec(sp):
    import base64
    import pickle
    return base64.b64encode(pickle.dumps(sp, protocol=4)).decode("ascii")


def decode_spec(txt):
    import base64
    import pickle
    return pickle.loads(base64.b64decode(txt))


def with_spec(judge, sp, out, *args):
    """run a judge on a fully specified case; every failure it records carries the specification, so that it replays
    exactly (independent of tier, seed and of how the generators evolve)"""
    n0 = len(out.failures)
    judge(sp, out, *args)
    for f in out.failures[n0:]:
        f["input"]["spec"] = encode_spec(sp)
        f["input"]["stream"] = sp["stream"]


SIZE_LADDER = [63, 64, 127, 128, 129, 255, 256, 257, 999, 1000, 1001, 1023, 1024, 1025, 2047, 2048, 2049,
               4095, 4096, 4097, 8191, 8192, 8193]


def has_surrogate(rows):
    return any(isinstance(c, str) and any(0xD800 <= ord(ch) <= 0xDFFF for ch in c) for r in rows for c in r)


def finding_listed(key):
    return any(k.get("status") == "open" and k.get("property") == "C13" and k.get("key") == key
               for k in common.load_known_findings())


def gen_stream(seed, idx, n_long=None):
    """everything random about one stream case, drawn here; the judge below uses no randomness"""
    rng = make_rng(seed, f"C13:{idx}" if n_long is None else f"C13L:{idx}:{n_long}")
    native = rng.random() < 0.35
    if n_long is None:
        n_tab = rng.choice([1, 1, 2, 2, 3])
        tabs = [gen_table(rng, k, native) for k in range(n_tab)]
    else:
        # long tables are enumerated systematically: size (ladder) x defect style x orientation
        native = False
        style = ["blank", "mixed", "blank", "odd", "mixed"][idx % 5]
        tabs = [gen_table(rng, 0, native, n_row=n_long, transposed=(idx % 5 == 4))] + \
            ([gen_table(rng, 1, native)] if rng.random() < 0.5 else [])
        n_tab = len(tabs)
    odd_names = False
    if n_long is None and rng.random() < 0.15 and finding_listed("report_print_unencodable"):
        # table names a narrow console cannot encode (generated only while the finding is listed as open)
        odd_names = True
        for t in tabs:
            t["name"] = "é" + t["name"]
    if n_long is None:
        defs = [inject(rng, t, native) for t in tabs]
    else:
        defs = [inject(rng, tabs[0], native, p_defect=1.0, style=style)] + [inject(rng, t, native) for t in tabs[1:]]
    kinds = FIXER_KINDS + ["plain_lenient"]
    fk = kinds[idx % len(kinds)] if (idx < 4 * len(kinds) and n_long is None) else rng.choice(kinds)
    tracker = rng.choice(["raising", "collecting"])
    use_text = (not native) and rng.random() < 0.5
    rows, starts = [], []
    clean_grids, bad_grids = [], []
    # stream layout: tables separated by a blank row or abutting (the next `**` marker ends the block), and the
    # stream ending with a blank row or right after the last table's last row (all four combinations)
    abut = rng.random() < 0.5
    trailing_blank = rng.random() < 0.5
    for k, (t, d) in enumerate(zip(tabs, defs)):
        starts.append(len(rows))
        g = build_grid(t, d)
        bad_grids.append(g)
        clean_grids.append(build_grid(t))
        rows.extend(g)
        last = k == len(tabs) - 1
        if (last and trailing_blank) or (not last and not (abut and rng.random() < 0.8)):
            rows.append([])
    text = None
    if use_text:
        text = to_text(rows)
        if not trailing_blank and rng.random() < 0.5:
            text = text[:-1]                       # the file ends without a newline after the last cell
        rows = [l.rstrip("\n").split(";") for l in text.splitlines(True)]     # as csv.py splits them
    return {"stream": "stream" if n_long is None else "long", "seed": seed, "index": idx, "n_long": n_long,
            "native": native, "tabs": tabs, "defs": defs, "fk": fk, "tracker": tracker, "use_text": use_text,
            "rows": rows, "text": text, "starts": starts, "clean_grids": clean_grids, "bad_grids": bad_grids,
            "abut": abut, "trailing_blank": trailing_blank, "odd_names": odd_names,
            # repair must not depend on what stdout can encode: part of the reads run with an ASCII-only stdout/stderr
            "ascii_stdout": rng.random() < 0.4,
            "reread_seq": None if n_long is not None else
            rng.choice([("lenient", "default"), ("default", "default"), ("lenient", "lenient"), ("custom", "strict")])}


def one_case(seed, idx, out, model_ok, ops, pend, n_long=None):
    with_spec(judge_stream, gen_stream(seed, idx, n_long), out, model_ok, ops, pend)


def judge_stream(sp, out, model_ok, ops, pend):
    seed, idx, native, tabs, defs, fk, tracker, use_text = (sp[k] for k in (
        "seed", "index", "native", "tabs", "defs", "fk", "tracker", "use_text"))
    rows, text, starts, clean_grids, bad_grids, abut, trailing_blank = (sp[k] for k in (
        "rows", "text", "starts", "clean_grids", "bad_grids", "abut", "trailing_blank"))
    n_tab = len(tabs)
    big = sum(len(r) for r in rows) > 800
    if True:
        case = {"seed": seed, "index": idx, "fixer": fk, "tracker": tracker, "api": "read_csv" if use_text else "parse_blocks",
                "rows": grid_to_json(rows) if not big else {"n_rows": len(rows), "see": "spec"}}
        if sp["n_long"] is not None:
            case["n_long"] = sp["n_long"]
            out.count("rows ladder:%d" % sp["n_long"])
        if sp["ascii_stdout"]:
            case["stdout"] = "ascii"
            out.count("stdout: ascii-only")
        n_def = sum(n_defects(t, d) for t, d in zip(tabs, defs))
        out.evaluations += 1
        if n_def:
            out.nontrivial.add(hash((repr(rows) if not big else repr((seed, idx, sp["n_long"])), fk, tracker, use_text)))
        if len(out.samples) < 3 and n_def and not big:
            out.samples.append(case)
        out.count("fixer:" + fk)
        out.count("api:" + case["api"])
        out.count("tracker:" + tracker)
        out.count("cells:" + ("native" if native else "text"))
        for t, d in zip(tabs, defs):
            out.count("orientation:" + ("transposed" if t["transposed"] else "rowwise"))
            if not t["data"]:
                out.count("zero-row table" + (" with duplicate name" if d["dups"] else ""))
            out.count("defects:illegal", len(effective_illegal(t, d)))
            out.count("defects:dup", len(d["dups"]))
            out.count("defects:dup named like a replacement", sum(1 for n in d["dups"].values() if "_fixed_" in n))
            out.count("defects:short", len(d["short"]))
            for (i, j), v in effective_illegal(t, d).items():
                out.count("illegal:" + t["kinds"][j])
                if isinstance(v, str) and any(ord(ch) > 255 for ch in v):
                    out.count("illegal: non-Latin-1 / astral / surrogate text")

        out.count("layout:" + ("abutting" if abut and n_tab > 1 else "separated") + "+" +
                  ("trailing blank" if trailing_blank else "ends at last table row"))
        impl = run_impl(rows=None if use_text else rows, text=text if use_text else None,
                        fixer_kind=fk, tracker=tracker, ascii_stdout=sp["ascii_stdout"])
        mk = MODEL_KIND[fk]
        strict = mk == "strict"
        rep = REPS[mk]

        # defect-free parse of every table, on its own, default reader
        bases = []
        for g in clean_grids:
            b = run_impl(rows=g, fixer_kind="default")
            if b["ending"] != "exhausted" or len(b["blocks"]) != 1 or "table" not in b["blocks"][0]["val"]:
                bases.append(None)
            else:
                bases.append(b["blocks"][0]["val"]["table"])
        if any(b is None for b in bases):
            out.count("generator: clean table rejected")
            out.fail("a well-formed table was rejected by a strict read", case, None, None, key="wf_rejected")
            return

        # ---- oracle
        has_def = [n_defects(t, d) > 0 for t, d in zip(tabs, defs)]
        delivered = {b["first"]: b for b in impl["blocks"] if b["ty"] == "TABLE"}
        if isinstance(impl["ending"], dict) and "escaped" in impl["ending"]:
            out.fail("an exception other than InputError escaped the reader", case, impl["ending"], None,
                     key="escape:" + impl["ending"]["escaped"])
            return
        ok_case = True
        prev_msgs = 0
        stopped = False
        dirty = False
        for k, (t, d, st) in enumerate(zip(tabs, defs, starts)):
            if stopped:
                break
            if sp.get("odd_names") and sp["ascii_stdout"] and fk == "plain_lenient" and has_def[k]:
                # known finding: report() prints the table name; a console that cannot encode it turns the lenient
                # repair into a located refusal
                if st not in delivered:
                    out.count("known finding (report_print_unencodable) observed")
                    if out.dist["known finding (report_print_unencodable) observed"] <= 2:
                        out.fail("a lenient read of a repairable table was refused because stdout cannot encode the table name",
                                 dict(case, table=k), {"issues": impl["issues"]}, "the repaired table",
                                 key="report_print_unencodable")
                    dirty = True
                    if tracker == "raising" and st in impl["issues"]:
                        stopped = True
                    continue
            if d.get("tshort") or offset_clash(t, d, mk):
                # judged on its own terms; the general per-table oracle below does not apply to this table
                if d.get("tshort"):
                    judge_transposed_short(out, dict(case, table=k), t, d, st, impl, delivered, strict, rep)
                else:
                    out.count("custom replacement without the column's UTC offset: located refusal or table accepted")
                if st in delivered:
                    prev_msgs = (impl["snaps"][impl["blocks"].index(delivered[st])] or {"n_msgs": prev_msgs})["n_msgs"]
                else:
                    dirty = True            # its messages stay in the shared fixer: the next block's slice holds them too
                    if tracker == "raising" and st in impl["issues"]:
                        stopped = True
                continue
            if strict and has_def[k]:
                # must fail, located at this table, naming every defect
                if st in delivered:
                    out.fail("a strict read delivered a table with defects", dict(case, table=k), delivered[st]["val"], None,
                             key="strict_delivered_defective")
                    ok_case = False
                    break
                if st not in impl["issues"]:
                    out.fail("a strict read did not report the defective table", dict(case, table=k), impl["issues"], st,
                             key="strict_not_reported")
                    ok_case = False
                    break
                txt = impl["issue_texts"][impl["issues"].index(st)]
                entries = block_entries(txt)
                if entries is None:
                    out.fail("a strict read failed with something else than the fixer's report", dict(case, table=k),
                             txt[:300], "a summary line followed by one entry per defect", key="strict_not_report")
                    ok_case = False
                    break
                if not names_defects(entries, t, d, out, dict(case, table=k)):
                    ok_case = False
                    break
                if tracker == "raising":
                    if impl["ending"] != {"InputError": st}:
                        out.fail("InputError not located at the failing table", dict(case, table=k), impl["ending"], st,
                                 key="strict_location")
                        ok_case = False
                    stopped = True
                continue
            # must be delivered
            if st not in delivered:
                out.fail("a readable table was not delivered" if not has_def[k] else
                         "a lenient read did not deliver a table with repairable defects", dict(case, table=k),
                         {"issues": impl["issues"], "ending": impl["ending"]}, None,
                         key="clean_not_delivered" if not has_def[k] else "lenient_not_delivered")
                ok_case = False
                break
            tv = delivered[st]["val"]["table"]
            snap = impl["snaps"][impl["blocks"].index(delivered[st])]
            fxs = None
            if snap is not None:
                # (a strict fixer keeps the messages of failed blocks: the delta is only meaningful for lenient ones)
                fxs = dict(snap, n_msgs_delta=None if (strict or dirty) else snap["n_msgs"] - prev_msgs)
                prev_msgs = snap["n_msgs"]
            if not check_lenient_table(tv, bases[k], t, d, rep, fxs, out, dict(case, table=k)):
                ok_case = False
                break
            if snap is not None and not strict and not dirty and not expect_message_names_defects(
                    snap["new_msgs"], t, d, out, dict(case, table=k), what="the fixer's message log of a lenient read"):
                ok_case = False
                break
            dirty = False
            if not has_def[k] and not d.get("tshort") and tv != bases[k]:
                out.fail("a clean table in a stream reads differently from the same table read alone", dict(case, table=k),
                         tv, bases[k], key="isolation")
                ok_case = False
                break
        if not ok_case:
            return
        if not strict and (impl["issues"] or impl["ending"] != "exhausted") and \
                not (sp.get("odd_names") and sp["ascii_stdout"] and fk == "plain_lenient") and \
                not any(offset_clash(t, d, mk) for t, d in zip(tabs, defs)):
            out.fail("a lenient read reported an error for repairable defects", case,
                     {"issues": impl["issues"], "ending": impl["ending"]}, None, key="lenient_failed")
            return
        if not use_text and sp["reread_seq"] is not None:
            out.count("reread: same grid object read twice")
            if not reread_check(sp["reread_seq"], out, case, rows, any(has_def)):
                return

        # ---- model (a lone surrogate cannot travel to the driver as UTF-8; long tables only up to ~1000 rows)
        if model_ok and not has_surrogate(rows) and (sp["n_long"] is None or sp["n_long"] <= 1100):
            if use_text:
                ops.append({"op": "read_csv_blocks", "text": text, "sep": ";", "to": "pdtable", "filter": None,
                            "tracker": tracker, "fixer": MODEL_FIX[mk], "ext": rc.ext_tables(rows)})
            else:
                ops.append({"op": "parse_blocks_fx", "rows": grid_to_json(rows), "to": "pdtable", "filter": None,
                            "tracker": tracker, "fixer": MODEL_FIX[mk], "ext": rc.ext_tables(rows)})
            pend.append(("stream", case, impl, grid_to_json(rows) if use_text else None))
            # every table block alone, lenient model run of the same replacement values
            lk = "lenient" if mk == "strict" else mk
            for k, (g, st) in enumerate(zip(bad_grids, starts)):
                ops.append(model_op("make_table", g, lk))
                pend.append(("block", dict(case, table=k), impl, (k, st, strict, has_def[k])))



def sheet_table_origins(xrows, fixer_kind, tracker, to):
    """(sheet name, origin row) of the TABLE blocks delivered when the sheets are read in form `to` — observed through
    the public surface only: `parse_blocks_stable` per sheet with a handler dict of our own built from the public
    DEFAULT_HANDLERS / TABLE_HANDLERS as `parse_blocks` builds its own, the TABLE handler wrapped to record the origin
    it is given when it returns. Nothing in the library is modified."""
    from pdtable import BlockType
    from pdtable.io.parsers import blocks as B
    from pdtable.table_origin import InputError
    arg, _ = fixer_arg(fixer_kind)
    rec = []
    for sname, rows in xrows.items():
        try:
            handlers = {bt: B.make_raw_cells for bt in BlockType}
            handlers.update(dict(B.DEFAULT_HANDLERS))
            base = dict(B.TABLE_HANDLERS)[to]
            B.parse_blocks_stable, B.make_fixer
        except (AttributeError, KeyError, TypeError):
            return None                  # these module-level names are not API: the origins are then unobservable

        def table_handler(cells, *a, _base=base, _sname=sname, **kw):
            origin = kw.get("origin", a[0] if a else None)
            val = _base(cells, *a, **kw)
            rec.append((_sname, getattr(getattr(origin, "input_location", None), "row", None)))
            return val
        handlers[BlockType.TABLE] = table_handler
        tr = bc.collecting_tracker() if tracker == "collecting" else None
        sink = io.StringIO()
        try:
            with warnings.catch_warnings(), contextlib.redirect_stdout(sink), contextlib.redirect_stderr(sink):
                warnings.simplefilter("ignore")
                fixer = None if arg is None else B.make_fixer(origin=None, fixer=arg)
                for _ in B.parse_blocks_stable(iter([tuple(r) for r in rows]), issue_tracker=tr, block_handlers=handlers,
                                               fixer=fixer):
                    pass
        except InputError:
            break
        except Exception:  # noqa: BLE001 — observation pass only; the read_excel result is what is judged
            return None
    return rec


def run_excel(path, fixer_kind, tracker, to, xrows):
    """read_excel on a workbook: delivered tables keyed by (sheet name, origin row), fixer snapshot at every yield,
    issues with sheet and row"""
    from pdtable import read_excel
    from pdtable.table_origin import InputError
    arg, getter = fixer_arg(fixer_kind)
    tr = bc.collecting_tracker() if tracker == "collecting" else None
    rec, blocks, snaps, ending, err = [], [], [], "exhausted", None
    sink = io.StringIO()
    try:
        with warnings.catch_warnings(), contextlib.redirect_stdout(sink), contextlib.redirect_stderr(sink):
            warnings.simplefilter("ignore")
            for bt, val in read_excel(path, to=to, issue_tracker=tr, fixer=arg):
                blocks.append({"ty": bt.name, "val": bc.canon_block(bt, val, to)})
                if bt.name == "TABLE" and to == "pdtable":
                    loc = val.metadata.origin.input_location          # a Table carries its own origin
                    rec.append((getattr(loc, "sheet_name", None), getattr(loc, "row", None)))
                fx = getter()
                if fx is None:
                    snaps.append(None)
                else:
                    prev = snaps[-1]["n_msgs"] if snaps and snaps[-1] and snaps[-1]["id"] == id(fx) else 0
                    snaps.append(dict(counters(fx), n_msgs=len(fx.messages), new_msgs=list(fx.messages[prev:]), id=id(fx)))
    except InputError as e:
        issue = e.args[0]
        loc = getattr(issue, "load_location", None)
        ending = {"InputError": [getattr(loc, "sheet_name", None), getattr(loc, "row", None)]}
        err = issue_text(issue)
    except Exception as e:  # noqa: BLE001
        ending = {"escaped": type(e).__name__}
    if tr is not None:
        issues = [[getattr(i.load_location, "sheet_name", None), getattr(i.load_location, "row", None)] for i in tr.issues]
        texts = [issue_text(i) for i in tr.issues]
    else:
        issues = [ending["InputError"]] if isinstance(ending, dict) and "InputError" in ending else []
        texts = [err] if err is not None else []
    tidx = [k for k, b in enumerate(blocks) if b["ty"] == "TABLE"]
    unobservable = False
    if to != "pdtable" and tidx:
        rec = sheet_table_origins(xrows, fixer_kind, tracker, to)
        unobservable, rec = rec is None, rec or []
    tables = {}
    if len(tidx) == len(rec):
        for key, k in zip(rec, tidx):
            tables[key] = (blocks[k]["val"], snaps[k])
    return {"blocks": blocks, "tables": tables, "n_tables": len(tidx), "issues": issues, "texts": texts,
            "ending": ending, "unobservable": unobservable}


def table_view(val, to):
    """delivered table value -> the dict check_lenient_table reads"""
    if to == "pdtable":
        return val["table"]
    return val["json"]


def workbook_case(seed, idx, out, model_ok, ops, pend, tmpdir):
    """a two-sheet workbook through read_excel: one fixer argument for the whole read (an instance is shared by both
    sheets, a class gives every sheet its own instance), all three output forms"""
    import openpyxl
    rng = make_rng(seed, f"C13x:{idx}")
    fk = rng.choice(["default", "strict", "lenient", "lenient", "lenient_class", "custom", "attr_class", "prop", "custom0",
                     "customneg0"])
    to = ["pdtable", "jsondata", "cellgrid"][idx % 3]
    tracker = rng.choice(["raising", "collecting"])
    mk = MODEL_KIND[fk]
    strict = mk == "strict"
    rep = REPS[mk]
    sheets, plan, k = [], [], 0
    for sname in ("One", "Two"):
        rows = []
        for _ in range(rng.choice([1, 2])):
            t = gen_table(rng, k, native=False)
            d = inject(rng, t, native=False)
            d["short"], d["tshort"] = {}, {}           # a worksheet pads short rows / lines with empty cells
            for key, v in list(d["illegal"].items()):  # and cannot hold a lone surrogate or an empty string
                if isinstance(v, str) and (not v.strip() or has_surrogate([[v]])):
                    d["illegal"][key] = rng.choice(ILLEGAL[t["kinds"][key[1]]])
            k += 1
            plan.append((sname, len(rows), t, d))
            rows.extend(build_grid(t, d))
            rows.append([])
        sheets.append((sname, rows))
    path = os.path.join(tmpdir, f"c13_{idx}.xlsx")
    wb = openpyxl.Workbook()
    wb.remove(wb.active)
    for sname, rows in sheets:
        ws = wb.create_sheet(sname)
        for r in rows:
            ws.append(list(r))
    wb.save(path)
    try:
        wb2 = openpyxl.load_workbook(path, read_only=True, data_only=True, keep_links=False)
        try:
            xrows = {w.title: [list(r) for r in w.iter_rows(values_only=True)] for w in wb2.worksheets}
        finally:
            wb2.close()
        impl = run_excel(path, fk, tracker, to, xrows)
    finally:
        os.remove(path)
    case = {"seed": seed, "index": idx, "stream": "workbook", "fixer": fk, "tracker": tracker, "to": to,
            "rows": {n: grid_to_json(r) for n, r in xrows.items()}}
    out.evaluations += 1
    out.nontrivial.add(hash((repr(sheets), fk, tracker, to)))
    out.count("workbook:" + to)
    out.count("workbook fixer:" + fk)
    if isinstance(impl["ending"], dict) and "escaped" in impl["ending"]:
        out.fail("an exception other than InputError escaped the reader", case, impl["ending"], None,
                 key="escape:" + impl["ending"]["escaped"])
        return
    stopped = False
    dirty = False
    if impl["unobservable"]:
        out.count("workbook: origin rows unobservable for this form, per-table oracle skipped")
        plan = []
    for sname, st, t, d in plan:
        if stopped:
            break
        key = (sname, st)
        c = dict(case, sheet=sname, table=t["name"])
        defective = n_defects(t, d) > 0
        if to != "cellgrid" and offset_clash(t, d, mk):
            out.count("custom replacement without the column's UTC offset: located refusal or table accepted")
            if key not in impl["tables"]:
                dirty = True                # a refused block's messages stay in the shared fixer: the next slice holds them
                if tracker == "raising" and [sname, st] in impl["issues"]:
                    stopped = True
            continue
        if to == "cellgrid":
            if key not in impl["tables"]:
                out.fail("a table block was not delivered as a cell grid", c, sorted(map(str, impl["tables"])), str(key),
                         key="workbook:cellgrid_missing")
                return
            val, snap = impl["tables"][key]
            want = grid_to_json(xrows[sname][st: st + len(build_grid(t, d))])
            if val["grid"] != want or (snap is not None and snap["fixes"] != 0):
                out.fail("a raw cell grid was altered or counted by the fixer", c, val["grid"], want, key="workbook:cellgrid")
                return
            continue
        if strict and defective:
            if key in impl["tables"] or [sname, st] not in impl["issues"]:
                out.fail("a strict read of a workbook did not refuse and report a defective table", c,
                         {"issues": impl["issues"]}, [sname, st], key="workbook:strict")
                return
            entries = block_entries(impl["texts"][impl["issues"].index([sname, st])])
            if entries is None or not names_defects(entries, t, d, out, c):
                if entries is None:
                    out.fail("a strict read failed with something else than the fixer's report", c,
                             impl["texts"][impl["issues"].index([sname, st])][:300], None, key="strict_not_report")
                return
            if tracker == "raising":
                stopped = True
            continue
        if key not in impl["tables"]:
            out.fail("a readable table of a workbook was not delivered", c, {"issues": impl["issues"], "ending": impl["ending"]},
                     str(key), key="workbook:not_delivered")
            return
        val, snap = impl["tables"][key]
        base = run_impl(rows=build_grid(t), fixer_kind="default", to=to)
        if base["ending"] != "exhausted" or len(base["blocks"]) != 1:
            return
        fxs = None
        if snap is not None:
            fxs = dict(snap, n_msgs_delta=None if (strict or dirty) else len(snap["new_msgs"]))
        if not check_lenient_table(table_view(val, to), table_view(base["blocks"][0]["val"], to), t, d, rep, fxs, out, c):
            return
        if snap is not None and not strict and not dirty and not expect_message_names_defects(
                snap["new_msgs"], t, d, out, c, what="the fixer's message log of a lenient read"):
            return
        dirty = False
    # ---- model: every sheet is one parse_blocks call; the read stops at the first sheet that raises
    if model_ok:
        for sname, _ in sheets:
            ops.append({"op": "parse_blocks_fx", "rows": grid_to_json(xrows[sname]), "to": to, "filter": None,
                        "tracker": tracker, "fixer": MODEL_FIX[mk], "ext": rc.ext_tables(xrows[sname])})
            pend.append(("sheet", dict(case, sheet=sname), impl, sname))


def offset_clash(tab, d, mk):
    """a custom fixer's timestamp (tz-naive) put into a column whose timestamps carry a UTC offset: the frame cannot hold
    both, the table is refused with a located error — assumed of a custom fixer's value: it fits the column"""
    if not mk.startswith("custom") or not tab.get("offset_cols"):
        return False
    cells = set(effective_illegal(tab, d)) | set(padded_cells(tab, d))
    return any(j in tab["offset_cols"] for (_, j) in cells)


def judge_transposed_short(out, case, t, d, st, impl, delivered, strict, rep):
    """value rows of a TRANSPOSED table cut short (a line shorter than the others), judged by the statement itself:
    a strict read fails naming the short value rows; a lenient read counts at least one per short value row and the
    cut-off cells hold a missing-value filler ('' / NaN for text, NaN, NaT or the replacement). The present reader
    pads such lines silently (known finding F5): every deviation found here carries the key `transposed_short_line`."""
    pads = padded_cells(t, d)
    short_rows = sorted({i for i, _ in pads})
    ill = effective_illegal(t, d)
    dev, seen = None, None
    if strict:
        if st in delivered:
            dev, seen = "a strict read delivered a transposed table whose value rows are cut short", "delivered"
        elif st in impl["issues"]:
            cands = [c[1] if isinstance(c, tuple) else c
                     for c in (block_entries(impl["issue_texts"][impl["issues"].index(st)]) or [[]])]
            named = any(all(any(_has_number(e, i) for e in entries) for i in short_rows) for entries in cands)
            if not named:
                dev, seen = "the strict failure message does not name the value rows cut short in a transposed table", \
                    [e for c in cands[:1] for e in c][-4:]
    elif st in delivered:
        tv = delivered[st]["val"]["table"]
        snap = impl["snaps"][impl["blocks"].index(delivered[st])]
        for (i, j) in pads:
            if j >= len(tv["columns"]) or i >= len(tv["columns"][j]["v"]):
                continue
            got, k = tv["columns"][j]["v"][i], t["kinds"][j]
            ok = {"text": got in ("", "nan", "NaN"), "num": got == "nan", "datetime": got in ("NaT", rep["datetime"]),
                  "onoff": got == rep["onoff"]}[k]
            if not ok:
                dev, seen = "a cut-off cell of a transposed table does not hold a missing-value filler", got
                break
        if dev is None and snap is not None and snap["fixes"] < len(ill) + len(d["dups"]) + len(short_rows):
            dev, seen = "the fixer's counters do not include one per short value row of a transposed table", snap["fixes"]
    if dev is not None:
        out.count("known finding F5 (transposed short line) observed")
        if out.dist["known finding F5 (transposed short line) observed"] <= 3:      # keep room for other failures
            out.fail(dev, case, seen, {"short value rows": short_rows}, key="transposed_short_line")


def f5_witness(out):
    """the negation witness of `short_rows_counted_partial` for transposed tables (Props/C13.lean), replayed on the code"""
    rows = [["**t*"], ["all"], ["a", "-", "1", "2", "3"], ["b", "text", "x"]]
    impl = run_impl(rows=rows, fixer_kind="default", tracker="collecting")
    out.evaluations += 1
    delivered = {b["first"]: b for b in impl["blocks"] if b["ty"] == "TABLE"}
    tab = {"name": "t", "names": ["a", "b"], "kinds": ["num", "text"], "units": ["-", "text"], "transposed": True,
           "data": [["1", "x"], ["2", "x"], ["3", "x"]]}
    d = {"illegal": {}, "dups": {}, "short": {}, "tshort": {1: 1}}
    judge_transposed_short(out, {"stream": "f5-witness", "rows": grid_to_json(rows)}, tab, d, 0, impl, delivered, True, STOCK)


def long_lived_fixer_case(out, thorough):
    """ONE fixer instance over a long stream: 750 small tables with 3 illegal cells each (2250 messages in a log that
    is never cleared). Strict + collecting: every table is reported and the report of the LAST table still names its own
    three cells; lenient: every table delivered, counters 3 per block, 2250 messages in the log at the end"""
    n = 1500 if thorough else 750
    rows = []
    for k in range(n):
        rows += [["**s%d" % k], ["all"], ["v"], ["m"], ["bad%da" % k], ["1.5"], ["bad%db" % k], ["bad%dc" % k]]
    case = {"stream": "long-lived-fixer", "tables": n, "rows": {"see": "n tables of one numeric column, 3 illegal cells each"}}
    out.evaluations += 1
    out.count("long-lived fixer: tables", n)
    strict = run_impl(rows=rows, fixer_kind="strict", tracker="collecting")
    if strict["ending"] != "exhausted" or len(strict["issues"]) != n:
        out.fail("a strict shared fixer did not report every defective table of a long stream", case,
                 {"ending": strict["ending"], "reported": len(strict["issues"])}, n, key="long_lived:strict_reports")
        return
    tab = {"name": "s%d" % (n - 1), "names": ["v"], "kinds": ["num"], "units": ["m"], "transposed": False,
           "data": [["x"], ["1.5"], ["x"], ["x"]]}
    d = {"illegal": {(0, 0): "bad%da" % (n - 1), (2, 0): "bad%db" % (n - 1), (3, 0): "bad%dc" % (n - 1)},
         "dups": {}, "short": {}, "tshort": {}}
    cands = block_entries(strict["issue_texts"][-1]) or [[]]
    if not names_defects(cands, tab, d, out, case, what="the report of the last table of a long stream"):
        return
    len_ = run_impl(rows=rows, fixer_kind="lenient", tracker="collecting")
    fixes = [sn["fixes"] for sn in len_["snaps"] if sn]
    logged = len(len_["fixer"]["msgs"]) if len_["fixer"] else None
    if len_["issues"] or len(len_["blocks"]) != n or any(f != 3 for f in fixes) or logged != 3 * n:
        out.fail("a lenient shared fixer over a long stream lost tables, counts or messages", case,
                 {"delivered": len(len_["blocks"]), "counters other than 3": [f for f in fixes if f != 3][:5], "messages": logged},
                 {"delivered": n, "messages": 3 * n}, key="long_lived:lenient")


def many_dups_case(out, model_ok, ops, pend):
    """one header with 1003 columns of the same name (beyond the 1000 candidates the fixer once tried): strict read is
    a located error naming the 1002 duplicates, lenient read delivers 1003 unique names"""
    n = 1003
    rows = [["**many"], ["all"], ["x"] * n, ["-"] * n, ["1"] * n]
    tab = {"name": "many", "names": ["x"] * n, "kinds": ["num"] * n, "units": ["-"] * n, "transposed": False,
           "data": [["1"] * n]}
    d = {"illegal": {}, "dups": {j: "x" for j in range(1, n)}, "short": {}, "tshort": {}, "hdr": ["x"] * n}
    case = {"stream": "many-duplicates", "rows": {"header": "1003 x 'x'"}}
    for fk in ("default", "lenient"):
        impl = run_impl(rows=rows, fixer_kind=fk, tracker="raising")
        out.evaluations += 1
        out.count("many duplicates:" + fk)
        if isinstance(impl["ending"], dict) and "escaped" in impl["ending"]:
            out.fail("an exception other than InputError escaped the reader", dict(case, fixer=fk), impl["ending"], None,
                     key="escape:" + impl["ending"]["escaped"])
            return
        if fk == "default":
            if impl["ending"] != {"InputError": 0}:
                out.fail("a strict read of a header with 1003 equal names did not end in a located InputError",
                         dict(case, fixer=fk), impl["ending"], {"InputError": 0}, key="many_duplicates:strict")
                return
            cands = block_entries(impl["issue_texts"][0]) or [[]]
            if not names_defects(cands, tab, d, out, dict(case, fixer=fk)):
                return
        else:
            names = impl["blocks"][0]["val"]["table"]["names"] if impl["blocks"] else []
            if impl["ending"] != "exhausted" or len(names) != n or len(set(names)) != n or names[0] != "x":
                out.fail("a lenient read of a header with 1003 equal names did not deliver 1003 unique names",
                         dict(case, fixer=fk), {"ending": impl["ending"], "names": len(names), "unique": len(set(names))},
                         n, key="many_duplicates:lenient")
                return
    if model_ok:
        ops.append(rc.model_op("make_table", rows, "lenient"))
        pend.append(("direct", dict(case, fixer="lenient"), {"ok": run_impl(rows=rows, fixer_kind="lenient")["blocks"][0]["val"]["table"]}, None))


def direct_case(seed, idx, out, model_ok, ops, pend):
    """the entry points that take NO fixer argument, called repeatedly in one process: make_table(cells) and
    json_data_to_table(json). Sequences defective -> clean and clean -> defective -> clean (and random ones); the
    verdict, the table and the message of every call are judged on their own — nothing may leak from an earlier call"""
    from pdtable.io.parsers.blocks import make_table
    from pdtable.io.json import json_data_to_table
    rng = make_rng(seed, f"C13d:{idx}")
    entry = "json_data_to_table" if idx % 3 == 2 else "make_table"
    pattern = [[True, False], [False, True, False], [True, True, False], [rng.random() < 0.5 for _ in range(3)]][idx % 4]
    for step, want_defect in enumerate(pattern):
        for _ in range(20):
            tab = gen_table(rng, step, native=False, allow_transposed=(entry == "make_table"))
            d = inject(rng, tab, native=False, p_defect=1.0 if want_defect else 0.0)
            d["tshort"] = {}
            if entry == "json_data_to_table":
                d["dups"], d["short"], d["tshort"] = {}, {}, {}
                d.pop("hdr", None)
            if (n_defects(tab, d) > 0) == want_defect:
                break
        else:
            continue
        grid = build_grid(tab, d)
        case = {"seed": seed, "index": idx, "stream": "direct", "entry": entry, "step": step,
                "pattern": pattern, "rows": grid_to_json(grid)}
        out.evaluations += 1
        out.nontrivial.add(hash((repr(grid), entry, step, tuple(pattern))))
        out.count("direct:" + entry + (":defective" if want_defect else ":clean"))
        sink = io.StringIO()
        try:
            with warnings.catch_warnings(), contextlib.redirect_stdout(sink), contextlib.redirect_stderr(sink):
                warnings.simplefilter("ignore")
                if entry == "make_table":
                    t = make_table([list(r) for r in grid])
                else:
                    names = header_names(tab, d)
                    cols = list(zip(*grid[4:])) if len(grid) > 4 else [() for _ in names]
                    js = {"name": tab["name"], "destinations": {"all": None},
                          "columns": {n: {"unit": u, "values": list(c)} for n, u, c in zip(names, tab["units"], cols)}}
                    t = json_data_to_table(js)
            impl = {"ok": rc.canon_table(t)}
        except ValueError as e:
            impl = {"exc": "ValueError", "text": str(e)}
        except Exception as e:  # noqa: BLE001
            impl = {"exc": type(e).__name__, "text": str(e)}
        if want_defect:
            if "ok" in impl:
                out.fail("a default (strict) call delivered a table with defects", case, impl["ok"], None,
                         key="direct:strict_delivered_defective")
                return
            if impl["exc"] != "ValueError":
                out.fail("a default call on a defective table raised something else than ValueError", case, impl["exc"],
                         "ValueError", key="direct:exception_class")
                return
            entries = block_entries(impl["text"])
            if entries is None:
                out.fail("a default call failed with something else than the fixer's report", case, impl["text"][:300], None,
                         key="strict_not_report")
                return
            if not names_defects(entries, tab, d, out, case, what="the error message of this call"):
                return
        else:
            if "exc" in impl:
                out.fail("a default call on a defect-free table failed (a verdict leaked from an earlier call)", case,
                         impl["text"][:300], "a table", key="direct:clean_rejected")
                return
            base = run_impl(rows=build_grid(tab), fixer_kind="default")
            if base["ending"] == "exhausted" and len(base["blocks"]) == 1:
                want = dict(base["blocks"][0]["val"]["table"])
                got = dict(impl["ok"])
                if got != want:
                    out.fail("a default call on a defect-free table differs from the stream read of the same table", case,
                             got, want, key="direct:clean_differs")
                    return
        if model_ok and not has_surrogate(grid):
            ops.append(rc.model_op("make_table", grid, "strict"))
            pend.append(("direct", case, impl, None))


def foreign_case(seed, idx, out):
    """OBSERVATION ONLY (never a failure): a lenient custom fixer returning values of a foreign type (None for onoff,
    text for numbers / timestamps) breaks the contract of fix_illegal_cell_value ("should return a suitable default
    value of type vtype"), so it is outside the statement; what numpy / the reader make of it is counted."""
    import math
    from pdtable.io.parsers.blocks import parse_blocks
    rng = make_rng(seed, f"C13f:{idx}")
    tab = gen_table(rng, 0, native=False)
    if not tab["data"] or all(k == "text" for k in tab["kinds"]):
        return
    d = inject(rng, tab, native=False, p_defect=1.0)
    d["short"], d["tshort"] = {}, {}
    ill = effective_illegal(tab, d)
    if not ill:
        return
    to = rng.choice(["pdtable", "jsondata"])
    rows = build_grid(tab, d)

    def read(grid, fixer):
        tr = bc.collecting_tracker()
        sink = io.StringIO()
        with warnings.catch_warnings(), contextlib.redirect_stdout(sink), contextlib.redirect_stderr(sink):
            warnings.simplefilter("ignore")
            got = [v for bt, v in parse_blocks(iter([list(r) for r in grid]), to=to, issue_tracker=tr, fixer=fixer)
                   if bt.name == "TABLE"]
        return got, [getattr(i.load_location, "row", None) for i in tr.issues]

    def columns(v):
        if to == "pdtable":
            return [v.df[c].tolist() for c in v.df.columns]
        return [col["values"] for col in v["columns"].values()]

    def same(a, b):
        import pandas as pd
        if isinstance(a, float) and isinstance(b, float) and math.isnan(a) and math.isnan(b):
            return True
        if a is pd.NaT or b is pd.NaT:
            return a is b
        return type(a) is type(b) and a == b or (a is None and b is None) or \
            (not isinstance(a, (str, bool)) and not isinstance(b, (str, bool)) and a is not None and b is not None and a == b)
    try:
        base, bissues = read(build_grid(tab), None)
        got, issues = read(rows, fixer_arg("foreign")[0])
    except Exception as e:  # noqa: BLE001
        out.count("foreign_fixer:observed:exception " + type(e).__name__)
        return
    if bissues or len(base) != 1:
        return
    if not got:
        out.count("foreign_fixer:observed:table refused" + (" (located)" if issues == [0] else " (not located)"))
        return
    cols, bcols = columns(got[0]), columns(base[0])
    what = "value kept, neighbours untouched"
    for j, k in enumerate(tab["kinds"]):
        if j >= len(cols):
            break
        for i in range(len(tab["data"])):
            v = cols[j][i]
            if (i, j) in ill:
                want = FOREIGN[VTYPE[k]]
                if not (v is want or (isinstance(v, str) and v == want)):
                    what = f"replacement coerced in a {k} column ({to})"
            elif not same(v, bcols[j][i]):
                what = f"neighbours retyped in a {k} column ({to})"
    out.count("foreign_fixer:observed:" + what)


def run(tier, seed, model_ok, translator, search=False):
    out = Outcome()
    out.rule = ("streams of 1-3 well-formed tables (both orientations; text/onoff/datetime/numeric columns; text or "
                "native cells) x injected defect subsets (illegal cells, duplicate names, short rows) x 17 fixer "
                "configurations x {parse_blocks, read_csv} x {raising, collecting} tracker; each stream compared with "
                "the Lean model (stream level + every table block alone) and judged by the statement itself. "
                "Non-trivial: at least one defect injected; distinct by stream content + configuration. Case i is "
                "generated from (seed, i) alone.")
    thorough = tier == "thorough"
    n_streams = 12000 if thorough else (3000 if search else 1000)
    ops, pend = [], []
    f5_witness(out)
    for idx in range(n_streams):
        one_case(seed, idx, out, model_ok, ops, pend)
    # defect injection into LONG tables: a ladder of row counts (always one above each of 1024, 4096, 8192)
    lrng = make_rng(seed, "C13:ladder")
    ladder = SIZE_LADDER + [20011] if thorough else sorted(set(lrng.sample(SIZE_LADDER, 3) + [129, 1025, 4097, 8193, 10007]))
    for n in ladder:
        for rep_i in range(5 if thorough else (5 if n <= 300 else 3 if n <= 1100 else 1)):
            one_case(seed, rep_i, out, model_ok, ops, pend, n_long=n)
    many_dups_case(out, model_ok, ops, pend)
    long_lived_fixer_case(out, thorough)
    for idx in range(600 if thorough else 120):
        direct_case(seed, idx, out, model_ok, ops, pend)
    for idx in range(300 if thorough else 60):
        foreign_case(seed, idx, out)
    out.notes.append("foreign-typed custom fixer (observation only, outside the statement): numpy coerces the "
                     "replacement — None becomes False in an onoff column (np.array(..., dtype=bool)); a str replacement "
                     "turns a numeric column into text in the jsondata form and makes the pdtable form refuse the table "
                     "with a located issue; see generator_distribution keys foreign_fixer:observed:*")
    tmpdir = tempfile.mkdtemp(prefix="c13-")
    try:
        for idx in range(90 if thorough else 18):
            workbook_case(seed, idx, out, model_ok, ops, pend, tmpdir)
    finally:
        shutil.rmtree(tmpdir, ignore_errors=True)

    if model_ok and ops:
        answers = common.run_model(ops)
        msg_pos = {}
        books = {}
        for (what, case, impl, extra), ans in zip(pend, answers):
            if isinstance(ans, dict) and "error" in ans:
                out.mismatch("driver error", case, None, ans)
                continue
            if what == "direct":
                m = rc.model_table_canon(ans)
                if ("ok" in m) != ("ok" in impl) or ("exc" in m and m["exc"] != impl["exc"]):
                    out.mismatch("default make_table / json_data_to_table call vs Lean makeTable (strict)", case,
                                 {k: v for k, v in impl.items() if k != "text"}, m)
                elif "ok" in m:
                    mt = dict(m["ok"]); mt.pop("fixer", None)
                    if mt != impl["ok"]:
                        out.mismatch("default make_table / json_data_to_table call vs Lean makeTable: table differs", case,
                                     impl["ok"], mt)
                continue
            if what == "sheet":
                acc = books.setdefault(id(impl), {"blocks": [], "issues": [], "ending": "exhausted", "stopped": False})
                if not acc["stopped"]:
                    m = bc.canon_model(ans)
                    acc["blocks"] += [{"ty": b["ty"], "val": b["val"]} for b in m["blocks"]]
                    acc["issues"] += [[extra, r] for r in m["issues"]]
                    if m["ending"] != "exhausted":
                        acc["stopped"] = True
                        acc["ending"] = {"InputError": [extra, m["ending"]["InputError"]]} if "InputError" in m["ending"] \
                            else m["ending"]
                if extra == "Two":
                    got = {"blocks": impl["blocks"], "issues": impl["issues"], "ending": impl["ending"]}
                    want = {k: acc[k] for k in ("blocks", "issues", "ending")}
                    if got != want:
                        out.mismatch("workbook: read_excel vs Lean parseBlocks sheet by sheet", case,
                                     {"ending": got["ending"], "issues": got["issues"], "blocks": got["blocks"]},
                                     {"ending": want["ending"], "issues": want["issues"], "blocks": want["blocks"]})
                continue
            if what == "stream":
                msg_pos[id(impl)] = 0
                want = bc.canon_model(ans)
                got = {"blocks": impl["blocks"], "issues": impl["issues"], "ending": impl["ending"]}
                if want != got:
                    if case.get("stdout") == "ascii" and case.get("fixer") == "plain_lenient" and any(
                            r and isinstance(r[0], str) and r[0].startswith("**") and not r[0].isascii()
                            for r in (case.get("rows") or [])):
                        # known finding F7 (`report_print_unencodable`): the model has no console; the refusal is
                        # judged and reported by the oracle under that key, not as a model difference
                        out.count("model comparison skipped: table name not encodable on an ASCII stdout (F7)")
                        continue
                    out.mismatch("stream: pdtable vs Lean parseBlocks", case, got, want)
                    continue
                no_fail = not impl["issues"] and impl["ending"] == "exhausted"
                if no_fail and impl["fixer"] is not None and not same_fixer(impl["fixer"], ans.get("fixer")):
                    out.mismatch("fixer left behind by the stream: pdtable vs Lean", case, impl["fixer"], ans.get("fixer"))
                if case["api"] == "read_csv" and extra is not None and ans.get("rows") != extra:
                    out.mismatch("read_csv rows: pdtable vs Lean readCsvRows", case,
                                 extra if len(extra) < 60 else {"n_rows": len(extra)},
                                 ans.get("rows") if len(extra) < 60 else {"n_rows": len(ans.get("rows") or [])})
                continue
            k, st, strict, has_def = extra
            delivered = {b["first"]: (i, b) for i, b in enumerate(impl["blocks"]) if b["ty"] == "TABLE"}
            if "ok" not in ans:
                if st in delivered:
                    out.mismatch("block alone: model raises, code delivered", case, delivered[st][1], ans)
                continue
            m = rc.model_table_canon(ans)["ok"]
            mfix = m.pop("fixer")
            if st in delivered and not (strict and has_def):
                i, b = delivered[st]
                if b["val"]["table"] != m:
                    out.mismatch("block alone (isolation bridge): table differs", case, b["val"]["table"], m)
                    continue
                snap = impl["snaps"][i]
                if snap is not None and not same_fixer({k: snap[k] for k in ("fixes", "errors", "warnings")}, mfix):
                    out.mismatch("block alone (isolation bridge): counters differ", case, snap, mfix)
            elif strict and has_def and st in impl["issues"]:
                # strict_eq_lenient: the failure is report(); its messages are the lenient run's messages
                txt = impl["issue_texts"][impl["issues"].index(st)]
                if mfix["errors"] + mfix["warnings"] == 0:
                    out.mismatch("strict read failed but the lenient model counts nothing", case, txt[-200:], mfix)
                    continue
                lines = txt.split("\n")[1:]
                got = rc.canon_msgs(join_message_lines(lines))
                want = mfix["msgs"]
                def _bag(ms):
                    return sorted(json.dumps(m, sort_keys=True, default=str) for m in ms)
                if _bag(got[-len(want):]) != _bag(want):      # a bag: the order of the columns' messages is free
                    out.mismatch("strict failure: messages in the error text vs the lenient model run", case, got, want)
                want_n = mfix["errors"] + mfix["warnings"]
                if not _has_number(txt.split("\n")[0], want_n):
                    out.mismatch("strict failure: number of errors stated in the summary line vs model counters", case,
                                 txt.split("\n")[0][:120], want_n)
    return out


def join_message_lines(lines):
    """the entries of a message text: one per line (generated cells hold no newline), whatever their wording"""
    return [l for l in lines if l.strip()]


def replay(rep):
    inp = rep.get("input") or {}
    if "spec" not in inp and ("rows" not in inp or "index" not in inp):
        return False, "replay file has no input (no-failing-input-found): " + str(rep.get("broken"))[:300]
    seed = int(inp.get("seed", rep.get("seed", 0)))
    o = Outcome()
    if "spec" in inp:
        sp = decode_spec(inp["spec"])
        {"stream": judge_stream, "long": judge_stream}[sp["stream"]](sp, o, False, [], [])
    elif inp.get("stream") == "direct":
        direct_case(seed, int(inp["index"]), o, False, [], [])
    elif inp.get("stream") == "workbook":
        tmpdir = tempfile.mkdtemp(prefix="c13-")
        try:
            workbook_case(seed, int(inp["index"]), o, False, [], [], tmpdir)
        finally:
            shutil.rmtree(tmpdir, ignore_errors=True)
    else:
        one_case(seed, int(inp["index"]), o, False, [], [])
    # the open known finding F5 shows on every stream with a short transposed line: it is not what an entry replays
    # unless the entry is about it
    about_f5 = "transposed" in str(rep.get("what", ""))
    fails = [f for f in o.failures if about_f5 or f["key"] != "transposed_short_line"]
    if fails:
        return False, fails[0]["what"]
    return True, "property holds on this input"
