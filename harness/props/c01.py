"""C01 — CSV write-then-read preserves every well-formed table bundle.

Correspondence: `write_csv` text vs Lean `writeCsv` character for character; `read_csv` of that text vs Lean
`readCsv`; the executable well-formedness check `wfCheck` (proved sound for the theorem's `WF`) is evaluated on
every generated table, so the evidence says how much of the generated stream lies inside the theorem's domain.
Oracle: the statement itself on the real code: same number of tables, same order, identical name, destination
set, transposed flag, column names, units and values (numbers by value, missing stays missing), for explicit and
package-default separator, path and stream, and the written tables are left unmodified.
"""
import io
import itertools
import os
import shutil
import tempfile
import warnings

from harness import common, reader_common as rc, blocks_common as bc, write_common as wc
from harness.common import Outcome, make_rng

EXTRA = {
    "assumptions": [
        "CPython str(float)/float(), str(datetime)/pandas.to_datetime are external codecs: the theorem assumes, for the "
        "numerals and timestamps occurring in the table, that the rendered text parses back to the same value "
        "(NumOK / IntOK / DtOK); wfCheck evaluates exactly these laws with CPython/pandas results per case",
        "text streams with newline='\\n' semantics; universal-newline translation of files is why '\\r' is excluded "
        "from well-formed data; file encoding is the platform's (UTF-8 here)",
        "no display format attached to any column",
        "\"every single-character separator that does not occur in the data\" is read as: occurs in no WRITTEN cell "
        "text (CellsClean) — the `**name` cell, the destination line, names, units and the rendered numerals and "
        "timestamps: `*`, a blank, digits, `.`, `-`, `+`, `e`, `:` are therefore inadmissible for most tables, and the "
        "real code does fail there (negative corpus)",
        "text cells are strings: a missing text (None / NaN / pd.NA in a text column) is outside the well-formed tables "
        "(the writer prints str(x); pd.NA there makes it raise TypeError — out of domain, seen by C04's histories)",
        "timestamps carry no UTC offset (a column with one offset does round-trip in the real code: a harmless gap of "
        "the predicate) and at most microsecond resolution (finer digits are dropped by the writer: modelled, outside WF)",
        "\"writing leaves the written tables unmodified\" has no theorem (model values are immutable): decided by the "
        "harness alone, by a snapshot of every written table (header, dtypes, values, index, display formats, origin) "
        "before and after",
        "path versus stream: the model reads a file opened by path through the universal-newline translation "
        "(univNL); csv_roundtrip_api proves both modes for WF tables ('\\r' excluded); the negative corpus holds a "
        "'\\r' cell read both ways",
    ],
    "explanation": "Props/C01.lean csv_roundtrip: for every ext, separator, marker-like na_rep and every list of WF "
                   "tables, readCsv (writeCsv ts) delivers exactly ts.map observe, no issue, normal end; "
                   "csv_roundtrip_api: the same for path and stream and for every pair of sep arguments resolving to one "
                   "character against any package default; wfCheck_sound ties the executable check to WF; "
                   "example_bundle_wf is the non-vacuity witness.",
}


def snapshot(t):
    return (t.name, tuple(sorted(t.metadata.destinations)), bool(t.metadata.transposed), list(t.column_names),
            list(t.units), [str(d) for d in t.df.dtypes], t.df.to_dict("list").__repr__(), list(t.df.index),
            [repr(getattr(c, "display_format", None)) for c in t.column_metadata.values()],
            repr(t.metadata.origin))


def impl_roundtrip(ts, sep, explicit, path_mode, scratch, na_rep=None, form=0):
    """-> (text, result dict like blocks_common) using the real write_csv / read_csv.
    `na_rep`: None = the writer's default; `form` selects how tables and target are handed over: the tables as a
    list, a tuple, a generator or (one table) the bare Table; a path as str or as pathlib.Path"""
    import pathlib
    import pdtable
    old = pdtable.CSV_SEP
    try:
        if not explicit:
            pdtable.CSV_SEP = sep
        kw = {"sep": sep} if explicit else {}
        wkw = dict(kw, **({"na_rep": na_rep} if na_rep is not None else {}))
        arg = [list(ts), tuple(ts), (t for t in ts), ts[0] if len(ts) == 1 else list(ts)][form % 4]
        with warnings.catch_warnings():
            warnings.simplefilter("ignore")
            if path_mode:
                p = os.path.join(scratch, "t.csv")
                pdtable.write_csv(arg, pathlib.Path(p) if (form // 4) % 2 else p, **wkw)
                with open(p, newline="") as fh:
                    text = fh.read()
                src = pathlib.Path(p) if (form // 8) % 2 else p
            else:
                s = io.StringIO()
                pdtable.write_csv(arg, s, **wkw)
                text = s.getvalue()
                src = io.StringIO(text)
            res = {"blocks": [], "issues": [], "ending": "exhausted"}
            try:
                for bt, b in pdtable.read_csv(src, **kw):
                    first = b.metadata.origin.input_location.row if bt.name == "TABLE" else None
                    res["blocks"].append({"ty": bt.name, "first": first, "val": bc.canon_block(bt, b, "pdtable")})
            except Exception as e:  # noqa: BLE001
                res["ending"] = {"escaped": type(e).__name__}
    finally:
        pdtable.CSV_SEP = old
    return text, res


def judge(ts, sep, explicit, path_mode, case, out, scratch):
    """the property on the real code for one bundle; -> (text, read-back result) when it holds, else None"""
    before = [snapshot(t) for t in ts]
    try:
        text, res = impl_roundtrip(ts, sep, explicit, path_mode, scratch, case.get("na_rep"), case.get("form", 0))
    except Exception as e:  # noqa: BLE001 — write_csv (or the snapshot) raised on a well-formed bundle
        out.evaluations += 1
        out.fail("write_csv raised on a well-formed bundle", case, type(e).__name__ + ": " + str(e)[:200], None,
                 key="write_raised:" + type(e).__name__)
        return None
    after = [snapshot(t) for t in ts]
    out.evaluations += 1
    if any(t.df.shape[1] for t in ts):
        out.nontrivial.add(hash(text))
    if len(out.samples) < 2:
        out.samples.append(dict(case, text=text))
    out.count("sep:" + repr(sep))
    out.count("mode:" + ("explicit" if explicit else "default") + "/" + ("path" if path_mode else "stream"))
    for t in ts:
        out.count("orientation:" + ("transposed" if t.metadata.transposed else "rowwise"))
        out.count(f"shape:{min(t.df.shape[1], 3)}c{min(t.df.shape[0], 3)}r")
    if before != after:
        out.fail("write_csv / read_csv modified a written table", case, after, before, key="modified")
        return None
    got = [b["val"]["table"] for b in res["blocks"] if b["ty"] == "TABLE"]
    # the expectation is the generator's own record of each table (for a replayed case: the recorded values)
    want = [wc.record_of(t) or rc.canon_table(t) for t in ts]
    if res["ending"] != "exhausted" or [b["ty"] for b in res["blocks"]] != ["TABLE"] * len(ts):
        out.fail("reading back the written bundle did not yield exactly its tables", dict(case, text=text),
                 {"ending": res["ending"], "types": [b["ty"] for b in res["blocks"]]}, None, key="blocks")
        return None
    if got != want:
        j = next(k for k, (a, b) in enumerate(zip(got, want)) if a != b) if len(got) == len(want) else -1
        out.fail("a table read back differs from the table written", dict(case, text=text, table=j),
                 got[j] if j >= 0 else got, want[j] if j >= 0 else want, key="roundtrip")
        return None
    return text, res


def _dest_sorted(text, sep):
    """the written text with the tokens of every destination line sorted: destinations are a set, the order in which
    the writer lists them is promised by nothing (the line after each `**name` line)"""
    lines = text.split("\n")
    for k in range(1, len(lines)):
        if lines[k - 1].startswith("**") and not lines[k - 1].startswith("***") and (k < 2 or lines[k - 2] == ""):
            lines[k] = " ".join(sorted(lines[k].split(" ")))
    return "\n".join(lines)


def _na_rep(rng, sep):
    """the `na_rep` argument: None (the writer's default) or another spelling of a missing-value marker (the theorem
    holds for every representation that reads back as missing in numeric and datetime columns alike)"""
    if rng.random() < 0.6:
        return None
    return rng.choice([x for x in ["-", "nan", "NaN", "NAN", "nAn", " -", "- ", " nan "] if sep not in x])


LONG_ROWS = [255, 256, 257, 1019, 1020, 1021, 1022, 1023, 1024, 1025, 1026, 2047, 2048, 2049, 4095, 4096, 4097, 8191,
             8193, 10000]


def run(tier, seed, model_ok, translator, search=False):
    out = Outcome()
    out.rule = ("random well-formed bundles (1-4 tables, 0-5 columns, 0-6 rows, all column kinds incl. int64, NaN/NaT/inf, "
                "both orientations, text alphabets with blanks / unicode / marker look-alikes) x separator x "
                "{explicit, package default} x {path, stream}; thorough adds every kind tuple of length <= 2 x rows <= 2 "
                "x orientation. Non-trivial: at least one table with a column; distinct by written text.")
    rng = make_rng(seed, "C01")
    thorough = tier == "thorough"
    scratch = tempfile.mkdtemp(prefix="pdt-c01-")
    ops, pend = [], []
    try:
        n = 6000 if thorough else 350
        cases = []
        for i in range(n):
            sep = rng.choice(wc.SEPS)
            ts = [t for t, _ in wc.wf_bundle(rng, sep)]
            cases.append((i, sep, ts, rng.random() < 0.5, rng.random() < 0.3, _na_rep(rng, sep), rng.randrange(16)))
        # every kind tuple of length <= 2 (<= 3 thorough) x rows in {0, 1, 2} x orientation, deterministically
        k = n
        for kinds in itertools.chain.from_iterable(itertools.product(["text", "onoff", "datetime", "num", "int"], repeat=r)
                                                   for r in ((0, 1, 2, 3) if thorough else (0, 1, 2))):
            for n_row in (0, 1, 2):
                for tr in (False, True):
                    sep = wc.SEPS[k % len(wc.SEPS)]
                    t, _ = wc.wf_table(rng, sep, tr, kinds=kinds, n_row=n_row)
                    cases.append((k, sep, [t], k % 2 == 0, k % 3 == 0, None if k % 5 else _na_rep(rng, sep), k % 16))
                    out.count("enumerated-small-shapes")
                    k += 1
        # long tables: the number of rows has no limit, and nothing may change at a power of two or a buffer size
        sizes = LONG_ROWS if thorough else [1025, 2049] + [rng.choice(LONG_ROWS) for _ in range(2)]
        for n_long, n_row in enumerate(sizes):
            kinds = [rng.choice(["text", "onoff", "datetime", "num", "int", "f32"]) for _ in range(rng.choice([1, 2]))]
            # the first long table of every run is row-wise (more lines than any batch), the second transposed (its
            # lines are longer than any read buffer), the others either
            t, _ = wc.wf_table(rng, ";", n_long == 1 or (n_long > 1 and rng.random() < 0.3), kinds=kinds, n_row=n_row)
            cases.append((k, ";", [t], k % 2 == 0, k % 3 == 0, None, k % 16))
            out.count("long-tables" + (":transposed" if t.metadata.transposed else ""))
            k += 1
        for (i, sep, ts, explicit, path_mode, na_rep, form) in cases:
            case = {"seed": seed, "index": i, "sep": sep, "explicit_sep": explicit, "path": path_mode,
                    "na_rep": na_rep, "form": form, "tables": [wc.table_val(t) for t in ts]}
            out.count("na_rep:" + repr(na_rep))
            out.count("form:tables=" + ["list", "tuple", "generator", "bare-or-list"][form % 4])
            verdict = judge(ts, sep, explicit, path_mode, case, out, scratch)
            if verdict is None:
                continue
            text, res = verdict
            # ---- correspondence with the model
            if model_ok:
                tv = case["tables"]
                rows = [l.rstrip("\n").split(sep) for l in io.StringIO(text)]
                ext = rc.ext_tables(rows)
                ops.append({"op": "write_csv", "tables": tv, "sep": sep, "na_rep": na_rep if na_rep is not None else "-"})
                pend.append(("write_csv", case, text))
                ops.append({"op": "read_csv_path" if path_mode else "read_csv", "sep": sep, "text": text, "ext": ext})
                pend.append(("read_csv", case, res))
                ops.append({"op": "wf_check", "tables": tv, "sep": sep, "na_rep": na_rep if na_rep is not None else "-",
                            "ext": ext})
                pend.append(("wf_check", case, None))
        # negative corpus: one clause of §3 violated each; model and code must agree on what is read back
        for name, sep, text in NEGATIVE:
            for by_path in (False, True):
                res = _read_text(text, sep, scratch if by_path else None)
                out.evaluations += 1
                out.count("negative:" + name + (":path" if by_path else ":stream"))
                if model_ok:
                    seen = text.replace("\r\n", "\n").replace("\r", "\n") if by_path else text
                    rows = [l.rstrip("\n").split(sep) for l in io.StringIO(seen, newline="\n")]
                    ops.append({"op": "read_csv_path" if by_path else "read_csv", "sep": sep, "text": text,
                                "ext": rc.ext_tables(rows)})
                    pend.append(("read_csv", {"negative": name, "text": text, "path": by_path}, res))
        # outside the domain, on purpose: timestamps finer than a microsecond.  The writer drops the sub-microsecond
        # digits (to_pydatetime), so such a table does not round-trip; model and code must agree on the written text
        # and the Lean predicate must say "outside"
        import pandas as pd
        from pdtable import Table
        for j, stamps in enumerate([["2020-01-02 03:04:05.123456789"], ["2021-03-04 05:06:07.000000001", "2021-03-04 00:00:00.000000000"],
                                    ["1999-12-31 23:59:59.999999999"]]):
            for tr in (False, True):
                with warnings.catch_warnings():
                    warnings.simplefilter("ignore")
                    t = Table(pd.DataFrame({"when": pd.to_datetime(stamps).astype("datetime64[ns]"),
                                            "n": [1.5] * len(stamps)}), name="ns", units=["datetime", "m"], transposed=tr)
                    buf = io.StringIO()
                    import pdtable
                    pdtable.write_csv(t, buf, sep=";")
                out.evaluations += 1
                out.count("outside-domain:nanosecond-timestamps")
                if model_ok:
                    tv = [wc.table_val(t)]
                    case = {"outside_domain": "ns", "index": j, "transposed": tr, "tables": tv}
                    ops.append({"op": "write_csv", "tables": tv, "sep": ";", "na_rep": "-"})
                    pend.append(("write_csv", case, buf.getvalue()))
                    rows = [l.rstrip("\n").split(";") for l in io.StringIO(buf.getvalue())]
                    ops.append({"op": "wf_check", "tables": tv, "sep": ";", "na_rep": "-", "ext": rc.ext_tables(rows + [[x.replace(" ", "T")] for x in stamps] + [stamps])})
                    pend.append(("wf_outside", case, None))
        if model_ok:
            inside = outside = 0
            for (what, case, impl), ans in zip(pend, common.run_model(ops)):
                if isinstance(ans, dict) and "error" in ans:
                    out.mismatch("driver error", case, impl, ans)
                elif what == "wf_outside":
                    if any(ans):
                        out.mismatch("Lean wfCheck accepts a table with sub-microsecond timestamps", case, "outside", ans)
                elif what == "wf_check":
                    inside += sum(1 for b in ans if b)
                    outside += sum(1 for b in ans if not b)
                    if not all(ans) and len(out.notes) < 3:
                        out.notes.append({"outside_lean_WF": [t for t, b in zip(case["tables"], ans) if not b][:1]})
                elif what == "read_csv":
                    if bc.canon_model(ans) != impl:
                        out.mismatch("read_csv vs Lean readCsv", case, impl, bc.canon_model(ans))
                elif _dest_sorted(ans, case.get("sep", ";")) != _dest_sorted(impl, case.get("sep", ";")):
                    out.mismatch("write_csv text vs Lean writeCsv", case, impl, ans)
            out.dist["tables_inside_theorem_domain(wfCheck)"] = inside
            out.dist["tables_outside_theorem_domain(wfCheck)"] = outside
    finally:
        shutil.rmtree(scratch, ignore_errors=True)
    return out


def _read_text(text, sep, scratch=None):
    """read a text through the real read_csv: as a stream, or (scratch given) as a file opened by path"""
    import pdtable
    res = {"blocks": [], "issues": [], "ending": "exhausted"}
    if scratch is None:
        src = io.StringIO(text, newline="\n")
    else:
        src = os.path.join(scratch, "neg.csv")
        with open(src, "w", newline="") as fh:
            fh.write(text)
    try:
        with warnings.catch_warnings():
            warnings.simplefilter("ignore")
            for bt, b in pdtable.read_csv(src, sep=sep):
                first = b.metadata.origin.input_location.row if bt.name == "TABLE" else None
                res["blocks"].append({"ty": bt.name, "first": first, "val": bc.canon_block(bt, b, "pdtable")})
    except Exception as e:  # noqa: BLE001
        from pdtable.table_origin import InputError
        if isinstance(e, InputError):
            res["ending"] = {"InputError": getattr(getattr(e.args[0], "load_location", None), "row", None)}
            res["issues"] = [res["ending"]["InputError"]]
        else:
            res["ending"] = {"escaped": type(e).__name__}
    return res


# one text per violated clause of DESIGN §3 (what a writer would have produced for such a table)
NEGATIVE = [
    ("name ends with star", ";", "**t*;\nall\na\n-\n1\n\n"),
    ("transposed empty name", ";", "***;\nall\na;-;1\n\n"),
    ("destination with colon", ";", "**t;\nk:\na\n-\n1\n\n"),
    ("first name is a marker", ";", "**t;\nall\n**a;b\n-;-\n1;2\n\n"),
    ("first unit blank", ";", "**t;\nall\na;b\n;m\n1;2\n\n"),
    ("first text cell blank", ";", "**t;\nall\na;b\ntext;-\n ;2\nx;3\n\n"),
    ("first text cell marker", ";", "**t;\nall\na;b\ntext;-\n:x;2\ny;3\n\n"),
    ("text contains separator", ";", "**t;\nall\na;b\ntext;-\nx;y;2\n\n"),
    ("text contains newline", ";", "**t;\nall\na;b\ntext;-\nx\ny;2\n\n"),
    ("text contains carriage return", ";", "**t;\nall\na;b\ntext;-\nx\ry;2\nz;3\n\n"),
    ("lines end in CR LF", ";", "**t;\r\nall\r\na;b\r\ntext;-\r\nx;2\r\n\r\n"),
    ("separator is a carriage return", "\r", "**t\r\nall\na\rb\n-\r-\n1\r2\n\n"),
    ("text ends in NUL", ";", "**t;\nall\na;b\ntext;-\nx\x00;2\n\n"),
    ("transposed all-blank row", ";", "**t*;\nall\na;text;x;;y\nb;text;p;;q\n\n"),
    ("transposed name is a marker", ";", "**t*;\nall\na;-;1\nk:;-;2\n\n"),
    ("duplicate names", ";", "**t;\nall\na;a\n-;-\n1;2\n\n"),
    ("padded name", ";", "**t;\nall\n a ;b\n-;-\n1;2\n\n"),
]


def _warm_up(scratch):
    import pandas as pd
    import pdtable
    units = ["-", "m", "kg", "mm", "°C", "m/s", "%", "N m", "1/s", "Mm", "M", "KG", "Kg", "s", "S", "t", "T"]
    try:
        with warnings.catch_warnings():
            warnings.simplefilter("ignore")
            t = pdtable.Table(pd.DataFrame({f"c{i}": [1.5, 2.0] for i in range(len(units))}), name="warm", units=units)
            buf = io.StringIO()
            pdtable.write_csv(t, buf, sep=";")
            list(pdtable.read_csv(io.StringIO(buf.getvalue()), sep=";"))
    except Exception:  # noqa: BLE001 — the warm-up judges nothing
        pass


def replay(rep):
    inp = rep.get("input") or {}
    if "tables" not in inp:
        return False, "replay file has no input (no-failing-input-found): " + str(rep.get("broken"))[:300]
    scratch = tempfile.mkdtemp(prefix="pdt-c01-")
    try:
        # a failure may need something read earlier in the same process (state left behind in the library): warm up
        # with a bundle that carries every unit of the generator's pool, then judge the recorded bundle
        _warm_up(scratch)
        # the bundle is rebuilt from the recorded table values; all four ways of writing and reading it are tried
        for explicit in (bool(inp.get("explicit_sep")), not inp.get("explicit_sep")):
            for path_mode in (bool(inp.get("path")), not inp.get("path")):
                o = Outcome()
                ts = [wc.table_from_val(tv) for tv in inp["tables"]]
                judge(ts, inp.get("sep", ";"), explicit, path_mode, dict(inp), o, scratch)
                if o.failures:
                    return False, o.failures[0]["what"]
    finally:
        shutil.rmtree(scratch, ignore_errors=True)
    return True, "property holds on this input"


def _inside_domain(inp):
    """is every table of the case well formed (Lean `wfCheck`, asked through the driver)?  A smaller input is only a
    better replay if it is still an input the property speaks about."""
    import pdtable
    try:
        sep = inp.get("sep", ";")
        na = inp.get("na_rep") if inp.get("na_rep") is not None else "-"
        ts = [wc.table_from_val(tv) for tv in inp["tables"]]
        buf = io.StringIO()
        with warnings.catch_warnings():
            warnings.simplefilter("ignore")
            pdtable.write_csv(ts, buf, sep=sep, na_rep=na)
        rows = [l.rstrip("\n").split(sep) for l in io.StringIO(buf.getvalue())]
        ans = common.run_model([{"op": "wf_check", "tables": inp["tables"], "sep": sep, "na_rep": na,
                                 "ext": rc.ext_tables(rows)}])
        return isinstance(ans[0], list) and all(ans[0])
    except Exception:  # noqa: BLE001
        return False


def shrink(inp, fails, budget_s):
    """fewer tables, then fewer columns, then fewer rows, with the same verdict — and still inside the domain"""
    if not _inside_domain(inp):
        return None
    _fails = fails

    def fails(c):      # noqa: F811 — the verdict must hold AND the smaller bundle must still be well formed
        return _fails(c) and _inside_domain(c)
    base = {k: v for k, v in inp.items() if k not in ("text", "table")}
    tabs = common.ddmin(base["tables"], lambda c: fails(dict(base, tables=c)), budget_s * 0.3)
    for k in range(len(tabs)):
        def with_table(t):
            return dict(base, tables=tabs[:k] + [t] + tabs[k + 1:])
        t = tabs[k]
        cols = common.ddmin(t["columns"], lambda c: fails(with_table(dict(t, columns=c))), budget_s * 0.2)
        t = dict(t, columns=cols)
        n_row = len(cols[0]["values"]) if cols else 0

        def rows_kept(idx):
            return dict(t, columns=[dict(c, values=[c["values"][i] for i in idx]) for c in t["columns"]])
        idx = common.ddmin(list(range(n_row)), lambda ix: fails(with_table(rows_kept(ix))), budget_s * 0.4) \
            if n_row > 1 else list(range(n_row))
        tabs[k] = rows_kept(idx)
    return dict(base, tables=tabs)
