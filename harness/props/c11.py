"""C11 — a read filter selects blocks exactly; rejected blocks are never parsed.

Inputs: multi-block row streams (metadata, row-wise / transposed / malformed tables, directives, template rows,
BLANK blocks, stray rows; blocks separated by a blank line or by nothing) read through
    parse_blocks(rows)      read_csv(StringIO(text), sep)      read_excel(workbook written with openpyxl)
x to in {pdtable, jsondata, cellgrid} x tracker in {default (raising), collecting} x fixer in {none, lenient / custom
instance, ParseFixer class, lenient subclass; a fresh one per read} x a predicate drawn as a random
subset of the observed (type, name) pairs, wrapped in a recorder, answering with a bool / numpy.bool_ / 1-0 /
re.Match-None / str / list (the truth value of the answer decides), and written as a two-parameter function /
*args / (*args, **kwargs) / callable object / functools.partial / bound method / callable without signature.

Oracle (no Lean model involved), per case:
  frame   U  = the unfiltered read of the same source with a collecting tracker: one event per block, in order
               (delivered block | issue | escaped exception);  N = the names the parsed tables report (Table.name)
  calls      the recorder saw exactly one call per block, in order, with (type, reported name) for every TABLE block
             that parses and (type, "") for every other block
  exact      the filtered read = the events of U whose call was accepted, in order (blocks, issues, ending);
             a rejected failing table raises nothing
  rows       parse_blocks route: after every read the rows the caller passed in are unchanged (deep snapshot), and in
             half of those cases all reads of the case run on the same row objects, not on a fresh copy per read
  content    all rows of a rejected TABLE block are replaced by junk (first cell of the block kept; same shape, or
             rows dropped / appended / shortened): the filtered read is unchanged, except that origin rows after the
             block move by the change in its number of rows
Correspondence: every filtered read also runs through the Lean `parseBlocks` (driver op "parse_blocks") with the
same extensional filter, and the recorded calls are compared with the model's `accepts` arguments (op "offered").
"""
import datetime
import io
import json
import random
import logging
import os
import pathlib
import re
import shutil
import tempfile
import warnings

from harness import common, reader_common as rc, blocks_common as bc
from harness.common import Outcome, make_rng, grid_to_json
from harness.props import c02

logging.disable(logging.CRITICAL)

EXTRA = {
    "assumptions": [
        "the rows parse_blocks receives from read_csv are line.rstrip('\\n').split(sep) of the stream's lines and "
        "from read_excel the rows openpyxl's iter_rows(values_only=True) yields per sheet; the harness computes them "
        "with the same stdlib / openpyxl primitives (never through pdtable) and feeds them to the model",
        "for to='cellgrid' (nothing is parsed) the reported name of a table is the name Table.name reports when the "
        "same grid parses, else the name the first cell spells (text after '**' without one trailing '*')",
        "fixers: the default (strict) fixer, lenient and custom ParseFixer instances and ParseFixer classes are passed as "
        "fixer=; every read of a case gets a fresh one, so nothing a fixer remembers between reads can mask or cause a "
        "difference; nanosecond-precision timestamps next to dates outside the nanosecond range (DESIGN §13.5) are kept "
        "out of the generated well-formed tables",
        "outside the statement's domain, observed on the library and not judged: a callable filter that is falsy "
        "(e.g. defines __len__ returning 0) is ignored by `if filter:` and everything is delivered; a predicate that "
        "raises ValueError surfaces as an input error located at that block (the wrapper runs inside block_output's "
        "try); how often the predicate is consulted per block is not part of the property (a caller may memoise)",
        "predicates are total, pure functions of (type, name); the model's filter is their extensional table over "
        "the observed pairs plus a default",
    ],
    "explanation": "Props/C11.lean: offered_is_reported, filtered_is_unfiltered_on_accepted (no hypothesis), "
                   "filter_exact (unfiltered read runs to the end), rejected_content_irrelevant (+_rows), "
                   "rejected_skipped — for every block list, predicate, tracker, form, ext and fixer. The fixer's "
                   "message log is shown not to influence any handler result (rel_handle).",
    "trusted_base": ["openpyxl load_workbook(read_only=True).iter_rows(values_only=True) and io.StringIO line "
                     "iteration deliver the rows the harness observes with the same calls"],
}

# incl. names not in NFC form (e + combining acute, a + combining ring, Hangul jamo): the filter must be offered the
# name the parsed table reports, whatever that table does to its name
NAMES = ["a", "b", "tab", "keep", "a*", "x y", "é", "", "k:", "t1", "drop", "a", "cafe\u0301", "a\u030a",
         "\u1100\u1161", "e\u0301"]
# read(fixer=...) variants: none (the default strict fixer), instances and classes, strict / lenient / custom
FIXERS = [None, None, None, "lenient", "lenient", "custom", "class_strict", "class_lenient"]
MODEL_FIXER = {None: "strict", "class_strict": "strict", "lenient": "lenient", "class_lenient": "lenient",
               "custom": "custom"}
DUP_NAMES = [["x", "x"], ["a", "b", "a"], ["a", "a", "a"], ["x", "x_fixed_000", "x"], ["b", "x", "x", "b"]]


VERDICTS = ["bool", "bool", "bool", "numpy", "int", "match", "str", "list"]


def as_verdict(kind, accept):
    """the predicate's answer in one of the forms callers use: what counts is its truth value"""
    import re
    import numpy
    if kind == "numpy":
        return numpy.True_ if accept else numpy.False_
    if kind == "int":
        return 1 if accept else 0
    if kind == "match":
        return re.match("k", "keep") if accept else None
    if kind == "str":
        return "yes" if accept else ""
    if kind == "list":
        return [0] if accept else []
    return bool(accept)


PRED_FORMS = ["def2", "def2", "varargs", "varkw", "object", "partial", "method", "nosig", "defaults"]


def pred_form(kind, f):
    """the same verdict function `f(block_type, name)` in another of the forms a caller may write it in"""
    import functools
    if kind == "varargs":
        return lambda *key: f(*key)
    if kind == "varkw":
        def any_args(*args, **kwargs):
            return f(*args, **kwargs)
        return any_args
    if kind == "object":
        class Pred:
            def __call__(self, block_type, name):
                return f(block_type, name)
        return Pred()
    if kind == "partial":
        return functools.partial(lambda tag, block_type, name: f(block_type, name), "tag")
    if kind == "method":
        class Holder:
            def accept(self, block_type, name):
                return f(block_type, name)
        return Holder().accept
    if kind == "nosig":
        class NoSignature:
            """a callable whose signature cannot be inspected (as for some builtins)"""
            @property
            def __signature__(self):
                raise ValueError("no signature found")

            def __call__(self, *args):
                return f(*args)
        return NoSignature()
    if kind == "defaults":
        return lambda block_type, name, _unused=None: f(block_type, name)
    return f


def fixer_arg(kind):
    """a fresh fixer argument for ONE read (instances keep their message log and whatever else they remember)"""
    from pdtable import ParseFixer
    if kind is None:
        return None
    if kind in ("lenient", "custom"):
        return rc.make_fixer(kind)
    if kind == "class_strict":
        return ParseFixer

    class LenientFixer(ParseFixer):
        def __init__(self):
            super().__init__()
            self.stop_on_errors = False
            self._dbg = False
            self._called_from_test = True
    return LenientFixer

SEPS = [";", ",", "|", "\t", "~"]


# ---------------------------------------------------------------------------------------------- generators

def _san(c, excel):
    """keep a cell writable as CSV text / as an openpyxl cell"""
    if isinstance(c, str):
        c = str(c).replace("\n", " ").replace("\r", " ")          # (numpy.str_ -> str)
        if excel:
            c = "".join(ch for ch in c if ch == "\t" or ord(ch) >= 32)
            if c.startswith("="):
                c = "'" + c
    elif isinstance(c, float) and (c != c or c in (float("inf"), float("-inf"))):
        c = 1.25
    elif isinstance(c, float):
        c = float(c)                                                # (numpy.float64 -> float)
    elif isinstance(c, datetime.datetime) and c.tzinfo is not None and excel:
        c = c.replace(tzinfo=None)                                  # Excel has no zone-aware datetimes
    elif isinstance(c, int) and not isinstance(c, bool) and abs(c) > 10 ** 15:
        c = 12345
    elif isinstance(c, (datetime.date, datetime.time)) and not isinstance(c, datetime.datetime):
        c = "2020-01-02"
    return c


def gen_table(rng, native, dup_names=None):
    r = rng.random()
    if dup_names is not None and r < 0.7:
        r = 0.9          # a stream in "dup mode": most of its tables repeat the same duplicated column names
    if r < 0.45:
        grid, info = c02.wf_grid(rng, native=native)
        kind = "wf"
        # nanosecond-precision spellings next to a date outside the nanosecond range in one column make pandas give up
        # on datetime64 (known limit of the reader model, DESIGN §13.5; C02 skips the same combination): keep the
        # well-formed tables inside the model's domain by using microsecond precision here
        grid = [[("2021-03-04 05:06:07.123456" if isinstance(c, str) and c in c02.NS_SPELL else c) for c in r_]
                for r_ in grid]
    elif r < 0.85:
        grid, info = rc.rand_grid(rng, native=native, malformed=0.6)
        kind = "bad" if info["bad"] else "rand"
    elif r < 0.93:
        # tables that repeat the same duplicated column names (a lenient fixer renames them, the default one fails)
        t = rng.random() < 0.3
        names = list(dup_names if dup_names is not None else rng.choice(DUP_NAMES))
        units = [rng.choice(["m", "-", "text"]) for _ in names]
        data = [[("v" if u == "text" else rng.choice(["1", "2.5", "-"])) for u in units] for _ in range(rng.randint(0, 2))]
        if t:
            grid = [["**d*"], ["all"]] + [[n, u] + [row[j] for row in data] for j, (n, u) in enumerate(zip(names, units))]
        else:
            grid = [["**d"], ["all"], names, units] + data
        info = {"transposed": t}
        kind = "dup"
    else:
        # truncated tables: head only, head + destinations, head + dest + names (no unit row)
        t = rng.random() < 0.4
        grid = [["**x" + ("*" if t else "")], ["all"], ["c1", "c2"]][: rng.randint(1, 3)]
        info = {"transposed": t}
        kind = "trunc"
    grid = [list(r_) for r_ in grid]
    if rng.random() < 0.7:
        nm = rng.choice(NAMES)
        grid[0][0] = "**" + nm + ("*" if info["transposed"] else "")
    return grid, kind


def long_table(rng, n_rows):
    """a plain two-column table with many rows (size ladder)"""
    t = rng.random() < 0.3
    name = rng.choice(NAMES[:6])
    vals = [[str(i % 97), rng.choice(["x", "y", "-"])] for i in range(n_rows)]
    if t:
        return [["**" + name + "*"], ["all"], ["n", "m"] + [v[0] for v in vals], ["s", "text"] + [v[1] for v in vals]]
    return [["**" + name], ["all"], ["n", "s"], ["m", "text"]] + vals


def gen_stream(rng, native, long_rows=None):
    """-> list of rows (lists). Blocks are separated by a blank row, or by nothing at all."""
    rows = []
    kinds = []
    long_at = rng.randint(0, 2) if long_rows else None
    dup_names = rng.choice(DUP_NAMES) if rng.random() < 0.15 else None
    r0 = rng.random()
    if r0 < 0.3:
        rows += [["author:", "x"], ["date:", "2020"]][: rng.randint(1, 2)]
        kinds.append("metadata")
    elif r0 < 0.6:
        # leading rows that make a METADATA block WITHOUT entries (a falsy MetadataBlock): free-text title lines,
        # `key:` cells without a value cell, rows with two cells but no colon, rows starting with a number
        pool = [["Wind farm layout - by hand"], ["key:"], ["note", "x"], ["title "], ["a:b", "v"], ["author :x", "y"]]
        if native:
            pool += [[5, "x"], [2.5], ["key:", None][:1], [True, "author:"]]
        rows += [list(rng.choice(pool)) for _ in range(rng.randint(1, 3))]
        kinds.append("metadata-empty")
    elif r0 < 0.7:
        # mixed: entries and rows that contribute nothing; a later duplicate key overwrites in place
        rows += [["title"], ["author:", "x"], ["key:"], ["author:", " y "]][: rng.randint(2, 4)]
        kinds.append("metadata-mixed")
    for bi in range(rng.choice([1, 2, 3, 3, 4, 5, 6]) + (2 if long_rows else 0)):
        r = rng.random()
        if long_at is not None and bi == long_at:
            rows += long_table(rng, long_rows)
            kinds.append("table:long")
        elif r < 0.62:
            grid, kind = gen_table(rng, native, dup_names)
            rows += grid
            kinds.append("table:" + kind)
        elif r < 0.74:
            rows += [["***" + rng.choice(["include", "d", "a"])] + ([""] if rng.random() < 0.3 else [])]
            rows += [[rng.choice(["a.csv", "b", " x "])] for _ in range(rng.randint(0, 2))]
            kinds.append("directive")
        elif r < 0.82:
            rows += [[rng.choice([":tpl", "::t", ":::x "])] + (["v"] if rng.random() < 0.5 else [])]
            kinds.append("template")
        elif r < 0.90:
            rows += [["", "comment", "more"]] + ([["stray", "1"]] if rng.random() < 0.5 else [])
            kinds.append("blank-payload")
        else:
            rows += [[rng.choice(["k:", "note:"]), "v"]]
            kinds.append("key-row")
        sep = rng.random()
        if sep < 0.55:
            rows.append([] if rng.random() < 0.5 else [""])
        elif sep < 0.7:
            rows += [[""], []]
    return rows, kinds


# ---------------------------------------------------------------------------------------------- sources

class Source:
    """one input through one API; `seen` = the row lists parse_blocks receives, per sheet"""

    def __init__(self, api, sheets, tmp, sep=None, tag="s", extra=None):
        """extra: {"csv_route": None | "str" | "path", "pattern": None | regex for sheet_name_pattern,
                   "origin": None | str}"""
        self.api, self.sep, self.tmp = api, sep, tmp
        self.extra = dict(extra or {})
        self.shared = False          # parse_blocks route: every read gets the SAME row objects (no copy per read)
        self.last_rows = None
        self.selected = [0]
        if api == "parse_blocks":
            self.seen = [[list(r) for r in sheets[0]]]
            self.snapshot = grid_to_json(self.seen[0])      # deep snapshot of what the caller holds
        elif api == "read_csv":
            self.text = "\n".join(sep.join(r) for r in sheets[0]) + "\n"
            self.seen = [[line.rstrip("\n").split(sep) for line in io.StringIO(self.text)]]
            if self.extra.get("csv_route"):
                self.csv_path = os.path.join(tmp, f"{tag}.csv")
                with open(self.csv_path, "w", encoding="utf-8", newline="\n") as f:
                    f.write(self.text)
        else:
            import openpyxl
            self.path = os.path.join(tmp, f"{tag}.xlsx")
            wb = openpyxl.Workbook()
            wb.remove(wb.active)
            for i, rows in enumerate(sheets):
                ws = wb.create_sheet(title=f"sh{i}")
                for r in rows:
                    ws.append(list(r))
            wb.save(self.path)
            wb = openpyxl.load_workbook(self.path, read_only=True, data_only=True, keep_links=False)
            try:
                self.seen = [[list(r) for r in ws.iter_rows(values_only=True)] for ws in wb.worksheets]
            finally:
                wb.close()
            # read_excel(sheet_name_pattern=...): only the sheets whose name matches (re.match) are read
            pat = self.extra.get("pattern")
            self.selected = [i for i in range(len(self.seen)) if pat is None or re.match(pat, f"sh{i}")]
        self.seen_all = self.seen
        self.seen = [self.seen_all[i] for i in self.selected]

    def read(self, to, pred, tracker, fx=None):
        from pdtable.io.parsers.blocks import parse_blocks
        from pdtable import read_csv, read_excel
        kw = dict(to=to, filter=pred, issue_tracker=tracker)
        if fx is not None:
            if self.extra.get("reuse_fixer") and fx in ("lenient", "custom"):
                # second use: one fixer instance serves every read of the case (what it remembers from an earlier
                # read must not show in a later one)
                if getattr(self, "_fixer", None) is None:
                    self._fixer = fixer_arg(fx)
                kw["fixer"] = self._fixer
            else:
                kw["fixer"] = fixer_arg(fx)
        if self.extra.get("origin") is not None:
            kw["origin"] = self.extra["origin"]
        if self.extra.get("location_sheet") and self.api in ("parse_blocks", "read_csv"):
            from pdtable.table_origin import NullLocationFile
            kw["location_sheet"] = NullLocationFile("given by the caller").make_location_sheet()
        if self.api == "parse_blocks":
            self.last_rows = self.seen[0] if self.shared else [list(r) for r in self.seen[0]]
            return parse_blocks(iter(self.last_rows), **kw)
        if self.api == "read_csv":
            route = self.extra.get("csv_route")
            source = io.StringIO(self.text) if not route else \
                (self.csv_path if route == "str" else pathlib.Path(self.csv_path))
            return read_csv(source, sep=self.sep, **kw)
        if self.extra.get("pattern") is not None:
            kw["sheet_name_pattern"] = re.compile(self.extra["pattern"])
        return read_excel(self.path, **kw)


def rows_mutated(src):
    """did the last read change the rows its caller passed in (parse_blocks route)?"""
    return src.api == "parse_blocks" and src.last_rows is not None and grid_to_json(src.last_rows) != src.snapshot


def run_read(src, to, pred, tracker_kind, fx=None):
    """-> {"blocks", "issues", "ending", "events"}; events in delivery order:
       ["block", ty, canon, reported_name] | ["issue", row] | ["escaped", cls]"""
    from pdtable.table_origin import InputError, InputIssueTracker
    events = []

    class Collecting(InputIssueTracker):
        def __init__(self):
            self._issues = []

        def add_issue(self, input_issue):
            self._issues.append(input_issue)
            events.append(["issue", getattr(input_issue.load_location, "row", None)])

        @property
        def issues(self):
            return self._issues

    tr = Collecting() if tracker_kind == "collecting" else None
    blocks, ending = [], "exhausted"
    try:
        with warnings.catch_warnings():
            warnings.simplefilter("ignore")
            for bt, val in src.read(to, pred, tr, fx):
                first = None
                try:
                    first = val.metadata.origin.input_location.row
                except AttributeError:
                    pass
                canon = {"ty": bt.name, "first": first, "val": bc.canon_block(bt, val, to)}
                name = None
                if bt.name == "TABLE":
                    name = val.name if hasattr(val, "name") else (val.get("name") if isinstance(val, dict) else None)
                blocks.append(canon)
                events.append(["block", bt.name, canon, name])
    except InputError as e:
        issue = e.args[0]
        row = getattr(getattr(issue, "load_location", None), "row", None)
        ending = {"InputError": row}
        events.append(["issue", row])
    except Exception as e:  # noqa: BLE001 — the class is the datum
        ending = {"escaped": type(e).__name__}
        events.append(["escaped", type(e).__name__])
    issues = [e[1] for e in events if e[0] == "issue"]
    return {"blocks": blocks, "issues": issues, "ending": ending, "events": events, "mutated": rows_mutated(src)}


def segmentation(rows):
    """the implementation's own cut of a row list into blocks: [(type name, start index, n rows, head cell)].
    Blocks are located by CONTENT (the rows of a block are a subsequence of the input, matched greedily from where
    the previous block ended) — not by the identity of row objects, which a splitter is free to copy.  Returns None
    if a block holds a row that is not in the input."""
    from pdtable import BlockType
    from pdtable.io.parsers.blocks import parse_blocks_stable, make_raw_cells
    keys = [json.dumps(r, sort_keys=True, default=str) for r in grid_to_json(rows)]
    out, cursor = [], 0
    with warnings.catch_warnings():
        warnings.simplefilter("ignore")
        for bt, grid in parse_blocks_stable(iter([list(r) for r in rows]),
                                            block_handlers={b: make_raw_cells for b in BlockType}):
            start = None
            for gk in (json.dumps(r, sort_keys=True, default=str) for r in grid_to_json(grid)):
                while cursor < len(keys) and keys[cursor] != gk:
                    cursor += 1
                if cursor >= len(keys):
                    return None
                if start is None:
                    start = cursor
                cursor += 1
            out.append((bt.name, start, len(grid), grid[0][0] if len(grid[0]) else None))
    return out


def spelled_name(head):
    n = head[2:] if isinstance(head, str) else ""
    return n[:-1] if n.endswith("*") else n


# ---------------------------------------------------------------------------------------------- one case

def draw_filter(rng, pairs, nontable_only=False):
    """extensional predicate over the observed pairs"""
    pairs = sorted(set(pairs))
    r = rng.random()
    if nontable_only or r > 0.96:
        # only non-table blocks wanted: every table is rejected
        return {"accept": [[t, n, t != "TABLE"] for t, n in pairs], "default": False}
    if r < 0.06:
        return {"accept": [], "default": True}
    if r < 0.10:
        return {"accept": [], "default": False}
    if r < 0.18:
        return {"accept": [[t, n, t == "TABLE"] for t, n in pairs], "default": False}
    if r < 0.30:
        # every non-table block accepted, tables at random
        return {"accept": [[t, n, t != "TABLE" or rng.random() < 0.5] for t, n in pairs], "default": True}
    dflt = rng.random() < 0.3
    p = rng.choice([0.3, 0.5, 0.7])
    return {"accept": [[t, n, rng.random() < p] for t, n in pairs], "default": dflt}


def junk_rows(rng, block_rows, csv, reshape=False):
    """the rows of a block with everything but its first cell replaced. The first cells of the following rows stay
    'plain' (neither blank nor a marker) so that the block stays one block. With `reshape` the block also changes
    shape: rows after the first are dropped (possibly all) or plain rows are appended, and rows are shortened."""
    junk = ["junk", "**x", "::", "k:", "-", "nan", "1e999", "2020-13-45", "x", "text", "***"] + \
           ([] if csv else [5, 2.5, True, datetime.datetime(2021, 3, 4)])
    plain = ["junk", "j2", "zz"] + ([] if csv else [7, 1.5])
    out = []
    for i, r in enumerate(block_rows):
        new = []
        for j, c in enumerate(r):
            if i == 0 and j == 0:
                new.append(c)
            elif j == 0:
                new.append(rng.choice(plain))
            else:
                new.append(rng.choice(junk))
        out.append(new)
    if reshape:
        how = rng.choice(["drop", "drop_all", "append", "shorten", "mix"])
        if how in ("drop", "mix") and len(out) > 1:
            keep = sorted(rng.sample(range(1, len(out)), rng.randint(0, len(out) - 1)))
            out = [out[0]] + [out[i] for i in keep]
        if how == "drop_all":
            out = out[:1]
        if how in ("append", "mix"):
            out += [[rng.choice(plain)] + [rng.choice(junk) for _ in range(rng.randint(0, 3))]
                    for _ in range(rng.randint(1, 3))]
        if how in ("shorten", "mix"):
            out = [r[: rng.randint(1, len(r))] for r in out]
    return out


LONG_ROWS = [1000, 1023, 1025, 3000, 2049, 4097]


def cells_from_json(rows):
    """protocol cells -> native cells (inverse of common.grid_to_json for the cell types the generators use)"""
    def cell(c):
        if isinstance(c, dict):
            if "i" in c:
                return int(c["i"])
            if "f" in c:
                return float(c["f"])
            if "d" in c:
                return datetime.datetime.fromisoformat(c["d"])
            return str(c.get("o"))
        return c
    return [[cell(c) for c in r] for r in rows]


def one_case(rng, out, seed, idx, tmp, ops, pend, model_ok):
    """draw one case; everything the evaluation needs is in the case (so that a replay file replays exactly)"""
    api = rng.choice(["parse_blocks", "parse_blocks", "read_csv", "read_csv", "read_excel"])
    to = rng.choice(["pdtable", "jsondata", "cellgrid"])
    tracker = rng.choice(["raising", "collecting"])
    fx = rng.choice(FIXERS)
    # size ladder: a few long inputs per run (sheets of >= 1000 rows for the Excel route, long streams for the others)
    long_rows = None
    if idx % 150 == 7:
        long_rows = LONG_ROWS[(idx // 150) % len(LONG_ROWS)]
        api = "read_excel" if (idx // 150) % 2 == 0 else rng.choice(["read_csv", "parse_blocks"])
    native = api != "read_csv" and rng.random() < 0.5
    n_sheets = rng.choice([1, 1, 2]) if api == "read_excel" else 1
    sheets, kinds = [], []
    for si in range(n_sheets):
        rows, ks = gen_stream(rng, native, long_rows if si == 0 else None)
        sheets.append(rows)
        kinds += ks
    sep = None
    if api == "read_csv":
        sheets = [[["" if c is None else c if isinstance(c, str) else str(c) for c in r] for r in rows]
                  for rows in sheets]
        cells = [c for rows in sheets for r in rows for c in r]
        free = [s for s in SEPS if not any(s in c for c in cells)]
        sep = rng.choice(free) if free else ";"
        sheets = [[[_san(c, False).replace(sep, "_") for c in r] for r in rows] for rows in sheets]
    elif api == "read_excel":
        sheets = [[[_san(c, True) for c in r] for r in rows] for rows in sheets]
    else:
        sheets = [[[str(c) if isinstance(c, (datetime.date, datetime.time)) and not isinstance(c, datetime.datetime)
                    else c for c in r] for r in rows] for rows in sheets]
    # never-combined-before routes: read_csv by path, read_excel(sheet_name_pattern=...), origin= — each with a filter
    extra = {"csv_route": rng.choice([None, None, "str", "path"]) if api == "read_csv" else None,
             "pattern": rng.choice([None, None, "sh0", "sh1", "sh", "sh[01]$", "nomatch"]) if api == "read_excel" else None,
             "origin": rng.choice([None, None, "somewhere.csv"]) if api != "read_excel" else rng.choice([None, "wb"]),
             "reuse_fixer": rng.random() < 0.3,
             "location_sheet": api != "read_excel" and rng.random() < 0.3}
    src = Source(api, sheets, tmp, sep, tag=f"c{idx}", extra=extra)
    case = {"seed": seed, "index": idx, "api": api, "to": to, "tracker": tracker, "fixer": fx, "sep": sep,
            "sheets": [grid_to_json(s) for s in src.seen_all], "extra": extra,
            # half of the parse_blocks cases: all reads of the case (unfiltered, filtered, rewritten) run on the
            # caller's own row objects, as a caller holding one list of rows would do
            "shared": api == "parse_blocks" and rng.random() < 0.5,
            "sub": rng.getrandbits(32), "long_rows": long_rows}
    for k in kinds:
        out.count("block:" + k)
    eval_case(case, out, tmp, ops, pend, model_ok, src)


def eval_case(case, out, tmp, ops, pend, model_ok, src=None):
    """everything after the draw: a function of the case alone (`sub` seeds the predicate / rewrite draws; a replay
    file's own "filter" / "verdict_type" take precedence)"""
    from pdtable import BlockType
    api, to, tracker, fx, sep = case["api"], case["to"], case["tracker"], case.get("fixer"), case.get("sep")
    idx, sub = case.get("index", 0), case.get("sub", 0)
    case = dict(case)
    if src is None:
        src = Source(api, [cells_from_json(s) for s in case["sheets"]], tmp, sep, tag=f"r{idx}", extra=case.get("extra"))
    src.shared = bool(case.get("shared"))
    if src.shared:
        out.count("parse_blocks:same_row_objects_for_every_read")
    if case.get("long_rows"):
        out.count("long_input:%s:%d" % (api, case["long_rows"]))
    out.count("api:" + api)
    out.count("to:" + to)
    out.count("tracker:" + tracker)
    out.count("fixer:" + str(fx))
    for k_, v_ in (case.get("extra") or {}).items():
        if v_ is not None:
            out.count("route:%s=%s" % (k_, v_))

    # --- frame: the unfiltered read, collecting; reported names from the pdtable form
    def unchanged(R, which):
        if R["mutated"]:
            out.fail("a read changed the rows its caller passed in", dict(case, read=which),
                     grid_to_json(src.last_rows), src.snapshot, key="caller_rows_mutated")
        return R

    U = unchanged(run_read(src, to, None, "collecting", fx), "unfiltered")
    Upd = U if to == "pdtable" else unchanged(run_read(src, "pdtable", None, "collecting", fx), "unfiltered pdtable")
    segs = [segmentation(rows) for rows in src.seen]
    if any(sg is None for sg in segs):
        out.mismatch("the splitter delivered a row that is not in the input", case, None, None)
        return
    flat = [(si, s) for si, sg in enumerate(segs) for s in sg]
    escaped = any(e[0] == "escaped" for e in U["events"]) or any(e[0] == "escaped" for e in Upd["events"])
    if escaped:
        out.count("frame:escaped")
    elif len(U["events"]) != len(flat) or len(Upd["events"]) != len(flat):
        # the reference of the oracle: with a collecting tracker the unfiltered read runs to the end — one event
        # (delivered block or reported issue) per block of the input.  A reference that stops early, or skips a
        # block, would make "filtered read = selection of the unfiltered read" vacuous for the missing blocks.
        R = U if len(U["events"]) != len(flat) else Upd
        out.fail("the unfiltered read (collecting tracker) does not account for every block of the input: the "
                 "filtered read cannot be a selection of it", dict(case),
                 {"events": [e[:2] for e in R["events"]], "ending": R["ending"]},
                 {"blocks": [s[1][0] for s in flat]}, key="unfiltered_incomplete")
        return

    def reported(i):
        """name the parsed table of block i reports (None if it does not parse in any form)"""
        for R in (Upd, U):
            if i < len(R["events"]):
                e = R["events"][i]
                if e[0] == "block" and e[1] == "TABLE" and e[3] is not None:
                    return e[3]
        return None

    pairs = []
    for i, (si, s) in enumerate(flat):
        if s[0] == "TABLE":
            rn = reported(i)
            pairs.append(("TABLE", rn if rn is not None else spelled_name(s[3])))
        else:
            pairs.append((s[0], ""))
    frng = random.Random(f"{sub}:filter")
    spec = case.get("filter") or draw_filter(frng, pairs, nontable_only=bool(case.get("long_rows")) and frng.random() < 0.6)
    p = bc.py_filter(spec)
    rec = []

    vk = case.get("verdict_type") or random.Random(f"{sub}:verdict").choice(VERDICTS)
    out.count("verdict_type:" + vk)
    case["verdict_type"] = vk

    def pred(bt, name):
        rec.append((bt.name, name))
        return as_verdict(vk, p(bt, name))

    pf = case.get("pred_form") or random.Random(f"{sub}:form").choice(PRED_FORMS)
    out.count("pred_form:" + pf)
    case["pred_form"] = pf
    pred = pred_form(pf, pred)

    F = unchanged(run_read(src, to, pred, tracker, fx), "filtered")
    rec_f = list(rec)
    n_tab = sum(1 for _, s in flat if s[0] == "TABLE")
    n_rej = sum(1 for (t, n) in rec_f if not p(BlockType[t], n))
    out.case(case, nontrivial=len(flat) >= 2 and 0 < n_rej)
    if not rec_f:
        out.count("no_blocks")

    for e in U["events"]:
        out.count("frame:" + e[0])
        if e[0] == "block" and e[1] == "METADATA" and e[2]["val"].get("metadata") == []:
            out.count("frame:empty_metadata_block")
    for i, c in enumerate(rec_f):
        v = p(BlockType[c[0]], c[1])
        if i < len(U["events"]) and i < len(flat):
            e, hd = U["events"][i], flat[i][1][3]
            if e[0] == "issue" and not v:
                out.count("rejected:failing_table")
            if c[0] == "TABLE" and isinstance(hd, str) and hd.endswith("*"):
                out.count("offered:transposed_table")
            if c[0] == "TABLE":
                out.count("verdict:table:" + ("accept" if v else "reject"))
            if c[0] == "METADATA":
                out.count("verdict:metadata:" + ("accept" if v else "reject") +
                          (":empty" if e[0] == "block" and e[2]["val"].get("metadata") == [] else ""))
    out.count("ending:" + (F["ending"] if isinstance(F["ending"], str) else next(iter(F["ending"]))))

    # --- oracle: calls + exactness, walking the frame.  What is judged: every processed block was preceded by a call
    # with ITS pair (type, reported name) — asked just now, or asked before (a caller may memoise a pure predicate) —
    # and what the filtered read yields is the frame filtered by the verdicts on those pairs.  HOW OFTEN the
    # predicate is asked is counted as evidence only.
    ok = True
    exp_blocks, exp_issues, exp_end = [], [], "exhausted"
    ptr, asked, pairs_used = 0, set(), []

    def consume(pair):
        nonlocal ptr
        while ptr < len(rec_f) and tuple(rec_f[ptr]) == pair:
            ptr += 1
        asked.add(pair)
        return pair

    for i, ev in enumerate(U["events"]):
        nxt = tuple(rec_f[ptr]) if ptr < len(rec_f) else None
        if ev[0] == "block":
            want = (ev[1], (reported(i) if ev[1] == "TABLE" else ""))
            if ev[1] == "TABLE" and want[1] is None:
                want = (ev[1], spelled_name(flat[i][1][3]))       # cellgrid of a table that parses in no form
            if nxt == want:
                pair = consume(want)
            elif want in asked:
                pair = want
            elif nxt is not None:
                out.fail("the name offered to the filter is not the name the parsed block reports",
                         dict(case, filter=spec, block=i), list(nxt), list(want), key="offered_name")
                ok = False
                break
            else:
                pair = None
        else:
            # a table that does not parse (or an escaping block) reports no name: the pair is what was offered
            guess = ("TABLE", spelled_name(flat[i][1][3])) if i < len(flat) else None
            if nxt is not None and nxt == guess:
                pair = consume(guess)
            elif guess in asked:
                pair = guess
            elif nxt is not None and nxt[0] == flat[i][1][0]:
                pair = consume(nxt)
            else:
                pair = None
        if pair is None:
            out.fail("a block was interpreted (and the read ended) before the predicate was consulted about it"
                     if F["ending"] != "exhausted" else
                     "the predicate was not consulted for a block the unfiltered read delivers", dict(case, filter=spec),
                     {"calls": rec_f, "ending": F["ending"]}, {"events": len(U["events"])}, key="calls:missing")
            ok = False
            break
        pairs_used.append(pair)
        verdict = p(BlockType[pair[0]], pair[1])
        if ev[0] == "escaped":
            if verdict:
                exp_end = {"escaped": ev[1]}
            # a rejected block that would have escaped: the frame ends here, nothing more can be predicted
            if not verdict:
                exp_end = None
            break
        if not verdict:
            continue
        if ev[0] == "block":
            exp_blocks.append(ev[2])
        else:
            exp_issues.append(ev[1])
            if tracker == "raising":
                exp_end = {"InputError": ev[1]}
                break
    if ok and exp_end is not None:
        if len(rec_f) != len(pairs_used):
            out.count("calls:asked_%s_often_than_blocks_processed" % ("more" if len(rec_f) > len(pairs_used) else "less"))
        if F["ending"] != exp_end:
            what = ("a rejected malformed block made the filtered read raise" if exp_end == "exhausted" or
                    (isinstance(F["ending"], dict) and F["ending"] != exp_end) else "filtered read ended differently")
            out.fail(what, dict(case, filter=spec), F["ending"], exp_end, key="rejected_raises")
        elif F["blocks"] != exp_blocks:
            out.fail("filtered read is not the unfiltered read filtered by the predicate on (type, reported name)",
                     dict(case, filter=spec), [(b["ty"], b["first"]) for b in F["blocks"]],
                     [(b["ty"], b["first"]) for b in exp_blocks], key="filter_exact")
        elif F["issues"] != exp_issues:
            out.fail("filtered read reports other issues than the accepted failing blocks", dict(case, filter=spec),
                     F["issues"], exp_issues, key="filter_issues")
    elif exp_end is None:
        out.count("frame:cut_by_rejected_escape")

    # --- correspondence: Lean parseBlocks with the same extensional filter; accepts() arguments
    if model_ok:
        for si, rows in enumerate(src.seen):
            ops.append(bc.model_op(rows, to=to, filt=spec, tracker=tracker, fixer_kind=MODEL_FIXER[fx]))
            pend.append(("parse", si))
            ops.append({"op": "offered", "rows": grid_to_json(rows)})
            pend.append(("offered", si))
        pend.append(("case", case, spec, F, rec_f, len(src.seen)))

    # --- content of a rejected table is irrelevant
    if escaped:
        return
    cand = [i for i, (si, s) in enumerate(flat) if s[0] == "TABLE" and i < len(pairs_used)
            and not p(BlockType[pairs_used[i][0]], pairs_used[i][1])]
    if not cand:
        out.count("content:no_rejected_table")
        return
    rng = random.Random(f"{sub}:content")
    k = rng.choice(cand)
    si, (ty, start, n, head) = flat[k]
    seen_rows = src.seen[si]
    # half of the single-sheet cases also change the shape of the block (fewer / more / shorter rows): then the
    # origin rows of everything after it move by the difference, and nothing else may change
    reshape = len(src.seen) == 1 and rng.random() < 0.5
    new_block = junk_rows(rng, seen_rows[start:start + n], csv=(api == "read_csv"), reshape=reshape)
    n2 = len(new_block)
    d = n2 - n
    # rebuild the source from what was seen (one row per text line / per sheet row, widths as they were)
    new_sheets = [list(map(list, s)) for s in src.seen_all]
    new_sheets[src.selected[si]] = seen_rows[:start] + new_block + seen_rows[start + n:]
    src2 = Source(api, new_sheets, tmp, sep, tag=f"c{idx}m", extra=case.get("extra"))
    src2._fixer = getattr(src, "_fixer", None)
    src2.shared = src.shared
    same_outside = len(src.seen) == len(src2.seen) and all(
        (a[:start] + a[start + n:] if j == si else a) == (b[:start] + b[start + n2:] if j == si else b)
        for j, (a, b) in enumerate(zip(src.seen, src2.seen)))
    k_local = k - sum(len(sg) for sg in segs[:si])
    exp_segs = [(t, s_, n_, h_) if i < k_local else (t, s_, n2, h_) if i == k_local else (t, s_ + d, n_, h_)
                for i, (t, s_, n_, h_) in enumerate(segs[si])]
    if not same_outside or segmentation(src2.seen[si]) != exp_segs:
        # (the junk rows are built so that this does not happen; a workbook may change its width)
        out.count("content:rewrite_moved_boundaries")
        return
    rec.clear()
    F2 = run_read(src2, to, pred, tracker, fx)
    if F2["mutated"]:
        out.fail("a read changed the rows its caller passed in", dict(case, read="filtered, rewritten input"),
                 grid_to_json(src2.last_rows), src2.snapshot, key="caller_rows_mutated")
    out.count("content:checked" + (":reshaped" if reshape else ""))
    if d:
        out.count("content:row_count_changed")
    out.evaluations += 1

    def shift(row):
        return row + d if (row is not None and row >= start + n) else row
    expF = {"blocks": [dict(b, first=shift(b["first"])) for b in F["blocks"]],
            "issues": [shift(r) for r in F["issues"]],
            "ending": ({"InputError": shift(F["ending"]["InputError"])}
                       if isinstance(F["ending"], dict) and "InputError" in F["ending"] else F["ending"])}
    if {k_: F2[k_] for k_ in ("blocks", "issues", "ending")} != expF:
        raised = F2["ending"] != expF["ending"]
        out.fail("malformed content inside a rejected table " + ("made the read raise" if raised else
                 "changed the accepted blocks"),
                 dict(case, filter=spec, rejected_block=k, rewritten=grid_to_json(new_block)),
                 {"ending": F2["ending"], "blocks": [(b["ty"], b["first"]) for b in F2["blocks"]]},
                 {"ending": expF["ending"], "blocks": [(b["ty"], b["first"]) for b in expF["blocks"]]},
                 key="rejected_content:" + ("raises" if raised else "changes"))
    if model_ok:
        for sj, rows in enumerate(src2.seen):
            ops.append(bc.model_op(rows, to=to, filt=spec, tracker=tracker, fixer_kind=MODEL_FIXER[fx]))
            pend.append(("parse", sj))
        pend.append(("case2", dict(case, rewritten_block=k, sheets2=[grid_to_json(s) for s in src2.seen]), spec, F2,
                     len(src2.seen)))


def first_occurrences(calls):
    seen, out = set(), []
    for c in calls:
        c = tuple(c)
        if c not in seen:
            seen.add(c)
            out.append(list(c))
    return out


def combine_model(answers, tracker):
    """per-sheet model results -> one read (a sheet that does not run to the end ends the read)"""
    blocks, issues, ending = [], [], "exhausted"
    for a in answers:
        a = bc.canon_model(a)
        if "blocks" not in a:
            return a
        blocks += a["blocks"]
        issues += a["issues"]
        if a["ending"] != "exhausted":
            ending = a["ending"]
            break
    return {"blocks": blocks, "issues": issues, "ending": ending}


def run(tier, seed, model_ok, translator, search=False, _limit=None):
    out = Outcome()
    out.rule = ("random multi-block streams (metadata, well-formed / random / malformed / truncated tables in both "
                "orientations, directives, template rows, BLANK blocks; separated by blank lines or not at all; text "
                "and native cells) x API {parse_blocks, read_csv(StringIO, 5 separators), read_excel(openpyxl workbook, "
                "1-2 sheets)} x to x tracker x fixer (default / lenient / custom; instance / class) x predicate = random subset of the observed (type, name) pairs (plus "
                "accept-all / reject-all / tables-only), recorded. Non-trivial: at least two blocks and at least one "
                "rejected block; distinct by (api, to, tracker, rows).")
    rng = make_rng(seed, "C11")
    n = 9000 if tier == "thorough" else 1000
    if search:
        n = 1500
    if _limit is not None:
        n = _limit
    tmp = tempfile.mkdtemp(prefix="c11-")
    ops, pend = [], []
    try:
        for idx in range(n):
            one_case(rng, out, seed, idx, tmp, ops, pend, model_ok)
            if idx % 50 == 49:
                for f in os.listdir(tmp):
                    os.remove(os.path.join(tmp, f))
    finally:
        shutil.rmtree(tmp, ignore_errors=True)

    if model_ok and ops:
        answers = common.run_model(ops)
        buf = {"parse": [], "offered": []}
        ai = 0
        for item in pend:
            if item[0] in ("parse", "offered"):
                buf[item[0]].append(answers[ai])
                ai += 1
                continue
            if item[0] == "case":
                _, case, spec, F, rec_f, ns = item
                parse, offered = buf["parse"], buf["offered"]
                buf = {"parse": [], "offered": []}
                if any(isinstance(a, dict) and "error" in a for a in parse + offered):
                    out.mismatch("driver error", case, None, [a for a in parse + offered if "error" in a][:1])
                    continue
                m = combine_model(parse, case["tracker"])
                impl = {k: F[k] for k in ("blocks", "issues", "ending")}
                if m != impl:
                    out.mismatch("filtered read: pdtable vs Lean parseBlocks", dict(case, filter=spec), _brief(impl), _brief(m))
                calls = [(t, nm) for sheet in offered for (t, nm, _first) in sheet]
                # the sequence of DISTINCT arguments (first occurrences) must agree; how often a pair is asked is not
                # part of the property
                fo_rec, fo_calls = first_occurrences(rec_f), first_occurrences(calls)
                if fo_rec != fo_calls[: len(fo_rec)] or (F["ending"] == "exhausted" and fo_rec != fo_calls):
                    out.mismatch("arguments received by the predicate vs the model's accepts() calls",
                                 dict(case, filter=spec), rec_f, calls)
            else:
                _, case, spec, F2, ns = item
                parse = buf["parse"]
                buf = {"parse": [], "offered": []}
                if any(isinstance(a, dict) and "error" in a for a in parse):
                    out.mismatch("driver error", case, None, [a for a in parse if "error" in a][:1])
                    continue
                m = combine_model(parse, case["tracker"])
                impl = {k: F2[k] for k in ("blocks", "issues", "ending")}
                if m != impl:
                    out.mismatch("filtered read of the rewritten input: pdtable vs Lean parseBlocks",
                                 dict(case, filter=spec), _brief(impl), _brief(m))
    return out


def _brief(r):
    return {"blocks": r.get("blocks"), "issues": r.get("issues"), "ending": r.get("ending")} if isinstance(r, dict) else r


def replay(rep):
    """re-evaluates exactly the input of the replay file (api, form, tracker, fixer, rows as the parser received them,
    predicate, verdict type, shared-rows flag, sub-seed of the content rewrite) — independent of tier, seed and
    position in any stream"""
    inp = rep.get("input") or {}
    if "sheets" not in inp or "api" not in inp:
        return False, "replay file has no input (no-failing-input-found): " + str(rep.get("broken"))[:300]
    out = Outcome()
    tmp = tempfile.mkdtemp(prefix="c11r-")
    try:
        eval_case(dict(inp), out, tmp, [], [], False)
    finally:
        shutil.rmtree(tmp, ignore_errors=True)
    if out.failures:
        return False, out.failures[0]["what"]
    return True, "property holds on this input"
