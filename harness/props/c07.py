"""C07 — the three output forms of a reader describe the same blocks.

Oracle (the property, evaluated on the real code only, no model involved), for every generated multi-block
input that reads successfully as to='pdtable', through parse_blocks, read_csv (StringIO) and read_excel
(an openpyxl workbook in a scratch directory):
  same_types       the block-type sequences of the three forms are equal;
  cellgrid_is_raw  each 'cellgrid' table is exactly the rows of that block: the rows the reader was fed
                   (parse_blocks: the generated rows; read_csv: the lines split at the separator; read_excel:
                   the rows openpyxl delivers when the harness reads the workbook itself), from the table's
                   origin row up to its known length;
  jsondata         each 'jsondata' table == table_to_json_data(the corresponding 'pdtable' table): Python dict
                   equality with *exact* leaf types (type(x) is float, never a numpy scalar), NaN-free, and the
                   same column order;
  non_table        metadata, directive, template and blank blocks are equal in all three forms;
  own_form         the readers are generators: with the three readers of one input alive at the same time (consumed
                   in lock-step, or one started after k blocks of another) each still delivers its own form;
  unknown_form     an unknown `to` raises ValueError at the first next(), before the row iterator / the text
                   stream is touched (recording iterator / recording stream).
Correspondence: the real reader in each form vs Lean `parseBlocks` (driver op "parse_blocks_json", which prints
`Json.ofPrecursor` for jsondata blocks) on the rows the reader saw.
"""
import datetime
import io
import logging
import math
import os
import shutil
import tempfile
import warnings

from harness import common, reader_common as rc, blocks_common as bc
from harness.common import Outcome, make_rng, grid_to_json
from harness.props import c02, c08
from harness.props.c03 import ref_kind, ref_is_blank

logging.disable(logging.CRITICAL)

EXTRA = {
    "assumptions": [
        "'reads successfully' = the default (raising) issue tracker raised nothing; inputs on which the pdtable "
        "read fails (mixed UTC offsets, out-of-range timestamps produced by the generator) are compared with the "
        "model only",
        "well-formed inputs: every table has one unit per column name (a unit row shorter than the name row is an "
        "input error since /repo commit 7179188; before it a table without rows slipped through as a Table whose "
        "column register was shorter than its frame, on which table_to_json_data raised IndexError)",
        "read_excel: the rows the reader is fed are what openpyxl delivers; the harness reads the same workbook "
        "with openpyxl directly to obtain them (openpyxl's coercions are not pdtable's)",
        "unknown output form: 'before anything is read' is observed as: no row requested from the row iterator "
        "(parse_blocks) / no read call on the text stream (read_csv); for read_excel only the ValueError is checked "
        "(the workbook is opened by openpyxl before parse_blocks is entered)",
    ],
    "explanation": "Props/C07.lean: forms_aligned_json / forms_aligned_cellgrid (block-for-block alignment of the "
                   "three reads whenever the pdtable read succeeds, for every row list, filter, tracker, fixer and "
                   "ext), same_types, cellgrid_is_raw (+ C03 origin slice), non_table_blocks_equal, "
                   "jsondata_commutes / jsondata_commutes_read (make_table_json_data p == table_to_json_data (Table of p) as "
                   "Python values, columns member identical in order, for every precursor a reader delivers: "
                   "makePrecursor_shape + C13 names_unique; only the iteration order of the destination set stays a hypothesis). unknown_form_rejected: a `to` outside the "
                   "translated TABLE_HANDLERS keys (Gen.tableHandlers, pinned) is answered with ValueError identically for "
                   "every row sequence; that the Python generator raises at the first next() without touching its input is "
                   "observed by the harness (recording iterator / stream).",
}

FORMS = ("pdtable", "jsondata", "cellgrid")
SEP = ";"


# --------------------------------------------------------------------------- generators

SAFE_FIRST = {"text": ["a", "x y", "é", "-", "nan", "1.5", "None", "TRUE", "*"], "onoff": ["1", "0", "true", " FALSE "],
              "datetime": ["2020-01-02", "2020-01-02 03:04:05", "-", "nan"], "num": ["0", "1.5", "-", "NaN", "1e3", " 7 "]}


def starts_block(c):
    return ref_is_blank(c) or (isinstance(c, str) and ref_kind([c]) != "plain")


def segment_safe(rng, grid, info):
    """a c02.wf_grid table made safe for segmentation: no row after the first starts with a blank cell or a marker"""
    grid = [list(r) for r in grid]
    grid[0] = [grid[0][0]] + ([""] if len(grid[0]) > 1 else [])
    if len(grid) > 1 and (not grid[1] or starts_block(grid[1][0])):
        grid[1] = ["all"]
    if info["transposed"]:
        # lines start with a column name; a line starting with a blank cell (comment lines after the columns) or a
        # marker would end the block in a stream: the table ends before it
        for i in range(2, len(grid)):
            if not grid[i] or starts_block(grid[i][0]):
                del grid[i:]
                info["kinds"] = info["kinds"][:i - 2]
                break
        return grid
    for i in range(2, min(4, len(grid))):
        if not grid[i] or starts_block(grid[i][0]):
            del grid[i:]                       # header row starting with a blank cell: the block ends there
            info["kinds"], info["n_row"] = [], 0
            return grid
    for i in range(4, len(grid)):
        if not grid[i]:
            grid[i] = [rng.choice(SAFE_FIRST[info["kinds"][0]])]
        elif starts_block(grid[i][0]):
            grid[i][0] = rng.choice(SAFE_FIRST[info["kinds"][0]])
    return grid


def _is_ns(c):
    import re
    if isinstance(c, str):
        return re.search(r"\.\d{7,9}\s*$", c) is not None
    return bool(getattr(c, "nanosecond", 0))


DEST_CELLS = ["setup  run_7", "a\tb", "  a b  ", "a \t b", " a  b ", "x  x", "a\u00a0b c", "\ta b\u2003", "a   b", "a b ",
              "your_farm  my_farm", "a\u2003b", "d1 d2 d1", " \t all"]


def nasty_header(rng, grid, info, kinds):
    """destination cells with doubled blanks, tabs, other whitespace between / around the names (the reader's rule:
    strip, then split at single blanks — empty names included); column names differing only in letter case"""
    if len(grid) > 1 and rng.random() < 0.3:
        grid[1] = [rng.choice(DEST_CELLS)] + list(grid[1][1:])
        kinds.append("nasty destinations")
    n_col = len(info["kinds"])
    if n_col >= 2 and rng.random() < 0.25:
        pos = [(2, 0), (3, 0)] if info["transposed"] else [(2, 0), (2, 1)]
        (r0, c0), (r1, c1) = pos
        if r1 < len(grid) and c1 < len(grid[r1]) and isinstance(grid[r0][c0], str):
            base = grid[r0][c0].strip(c08.SPACES)
            pair = rng.choice(c08.CASE_PAIRS + [(base, c08.case_variant(base))] * 3)
            others = {str(grid[2 + j][0]).strip(c08.SPACES) for j in range(2, n_col)} if info["transposed"] else \
                {str(c).strip(c08.SPACES) for c in grid[2][2:n_col]}
            if pair[0] != pair[1] and pair[1] and not (set(pair) & others) and not any(starts_block(x) for x in pair):
                grid[r0][c0], grid[r1][c1] = pair
                kinds.append("names differing only in case")
    return grid


def gen_stream(rng, native):
    """-> rows, tables [(start_row, n_rows, name)], element kinds"""
    rows, tables, kinds = [], [], []
    if rng.random() < 0.6:
        for _ in range(rng.randint(1, 3)):
            rows.append([rng.choice(["author:", "date:", "note :", "k:"]), rng.choice(["x", "é µ", "", " padded ", "long " + "v" * 100])] +
                        ([rng.choice(["more", ""])] if rng.random() < 0.3 else []))
        kinds.append("metadata")
        if rng.random() < 0.3:
            rows.append(["key_without_value:"])
    n_el = rng.choice([1, 2, 3, 4, 6])
    for _ in range(n_el):
        # separator: blank line(s), sometimes none at all (the next marker ends the block)
        r = rng.random()
        if r < 0.55:
            rows.append(rng.choice([[], [""], ["", ""], [" "]] if not native else [[], [""], [None], [None, None]]))
        elif r < 0.7:
            rows.extend([[], []])
        el = rng.choice(["table", "table", "table", "directive", "template", "comment", "late_key", "blank_payload",
                         "empty_table"] if rng.random() < 0.93 else ["wide_table"])
        if el == "comment" and r >= 0.7 and rows:
            rows.append([])          # a plain row without separator would belong to the block before it
        kinds.append(el)
        if el == "table":
            grid, info = c02.wf_grid(rng, native)
            grid = segment_safe(rng, grid, info)
            grid = c08.inject_ns(rng, grid, info, native)
            grid = c08.one_zone_per_column(grid, info)
            grid = nasty_header(rng, grid, info, kinds)
            if any(k == "datetime" for k in info["kinds"]):
                kinds.append("ns datetime" if any(_is_ns(c) for r in grid[2:] for c in r) else "us datetime")
            name = grid[0][0][2:]
            tables.append((len(rows), len(grid), name[:-1] if name.endswith("*") else name,
                           header_units(grid, info["transposed"])))
            rows.extend(grid)
            for k in info["kinds"]:
                kinds.append("col:" + k)
            kinds.append("transposed" if info["transposed"] else "rowwise")
            kinds.append("rows:" + str(info["n_row"]))
        elif el == "wide_table":
            # larger rungs: 25 / 40 columns, a text cell of 300 / 2000 characters, 6 / 9 destinations, a long name
            n_c = rng.choice([25, 40])
            nm = rng.choice(["wide", "w" * 40, "n" * 100])
            kinds_w = [rng.choice(["text", "num", "onoff"]) for _ in range(n_c)]
            units_w = [{"text": "text", "num": rng.choice(["m", "kg", "-"]), "onoff": "onoff"}[k] for k in kinds_w]
            cnames = ["c%d" % j if j % 7 else "c%d" % j + "x" * rng.choice([0, 40, 100]) for j in range(n_c)]

            def wcell(k):
                if k == "text":
                    return rng.choice(["a", "é", "t" * rng.choice([300, 2000])])
                if k == "num":
                    return rng.choice(["1.5", "-", "nan", "7"]) if not native else rng.choice([1.5, None, 7])
                return rng.choice(["0", "1"]) if not native else rng.choice([True, False])
            body = [[wcell(k) for k in kinds_w] for _ in range(rng.choice([1, 3]))]
            for r_ in body:
                if starts_block(r_[0]):
                    r_[0] = "a" if kinds_w[0] == "text" else ("1" if not native else 1)
            dest = " ".join("d%d" % j for j in range(rng.choice([6, 9])))
            grid = [["**" + nm], [dest], cnames, units_w] + body
            tables.append((len(rows), len(grid), nm, list(units_w)))
            rows.extend(grid)
            kinds += ["col:text", "rowwise", "rows:%d" % len(body)]
        elif el == "empty_table":
            # a table without columns: just the `**name` row and the destinations row, either orientation
            nm = rc.rand_text(rng, rc.NAME_ALPHA, 1, 4).rstrip("*") or "e"
            tr = rng.random() < 0.5
            blank = (None if native else "")
            rows.append(["**" + nm + ("*" if tr else "")] + [blank] * rng.choice([0, 0, 1, 2]))
            rows.append([rng.choice(["all", "a b", " all ", "x a x"])] + [blank] * rng.choice([0, 0, 1, 3]))
            tables.append((len(rows) - 2, 2, nm, []))
            kinds.append("transposed" if tr else "rowwise")
        elif el == "directive":
            rows.append(["***" + rng.choice(["include", "d", "x y", ""])] + ([""] if rng.random() < 0.3 else []))
            for _ in range(rng.randint(0, 3)):
                rows.append([rng.choice(["file.csv", "a b", "1.5", 5 if native else "5", "é", "  padded.csv ", "\tx", "d" * 120])] +
                            (["extra"] if rng.random() < 0.2 else []))
        elif el == "template":
            rows.append([rng.choice([":x", "::tab", ":::file", ":", ":: a b"])] + (["v"] if rng.random() < 0.4 else []))
            if rng.random() < 0.4:
                rows.append(["cont", "1"])
        elif el == "comment":
            rows.append([rng.choice(["free text", "1.5", "é", "*single", "****four", "a:b:", "::::x", 7 if native else "7"])] +
                        (["tail"] if rng.random() < 0.4 else []))
        elif el == "late_key":
            rows.append(["late:", "v"])
        else:
            rows.append([rng.choice(["", " "]) if not native else None, "payload", "more"])
    if rng.random() < 0.3:
        rows.append([])
    return rows, tables, kinds


ROW_LADDER_QUICK = [64, 255, 256, 257, 1025, 4097, 8193]
ROW_LADDER_FULL = [60, 63, 64, 65, 127, 128, 129, 255, 256, 257, 1000, 1023, 1024, 1025, 2047, 2048, 2049, 3072, 4095, 4096,
                   4097, 8191, 8192, 8193]


def ladder_stream(rng, n_row, native):
    """a stream whose main table has n_row rows (numbers with missing values at the ends and around 255 / 1023, text,
    booleans, timestamps), either orientation, after a metadata block and before a small table"""
    miss = ["-", "nan", "NaN", " - "] if not native else [None, float("nan"), "-"]
    hot = {0, n_row - 1, 254, 255, 256, 1023, 1024, n_row // 2}

    def num(i):
        if i in hot and rng.random() < 0.6 or rng.random() < 0.03:
            return rng.choice(miss)
        x = rng.choice([float(rng.randint(-999, 999)), round(rng.random() * 1000, 3), 1e16, 0.5])
        return x if native else repr(x)
    cols = [("n", rng.choice(["m", "kg", "-"]), [num(i) for i in range(n_row)])]
    for nm in rng.sample(["s", "o", "d"], rng.randint(1, 2)):
        if nm == "s":
            cols.append(("s", "text", [rng.choice(["a", "é", "x y", "nan", "-"]) for _ in range(n_row)]))
        elif nm == "o":
            cols.append(("o", "onoff", [(rng.random() < 0.5) if native else rng.choice(["0", "1", "true", "FALSE"]) for _ in range(n_row)]))
        else:
            base = datetime.datetime(2020, 1, 1)
            cols.append(("d", "datetime", [(base + datetime.timedelta(seconds=61 * i)) if native else
                                           str(base + datetime.timedelta(seconds=61 * i)) for i in range(n_row)]))
    rng.shuffle(cols)
    if cols[0][0] == "s":                       # row-wise first column: never blank, never a marker — fine for "s" too
        pass
    transposed = rng.random() < 0.4
    name = "ladder%d" % n_row
    rows = [["author:", "x"], []]
    start = len(rows)
    if transposed:
        grid = [["**" + name + "*"], ["all"]] + [[c[0], c[1]] + list(c[2]) for c in cols]
    else:
        grid = [["**" + name], ["all"], [c[0] for c in cols], [c[1] for c in cols]] + \
               [[c[2][i] for c in cols] for i in range(n_row)]
        for r in grid[4:]:
            if starts_block(r[0]):
                r[0] = "0" if cols[0][1] not in ("text",) else "a"
    rows += grid
    tables = [(start, len(grid), name, [c[1] for c in cols])]
    rows += [[], ["**small"], ["a b"], ["x"], ["-"], ["1.5"]]
    tables.append((len(rows) - 5, 5, "small", ["-"]))
    kinds = ["ladder rows:%d" % n_row, "transposed" if transposed else "rowwise", "rows:%d" % n_row, "col:num"]
    return rows, tables, kinds


def gen_filter(rng, tables):
    """-> (python predicate, model spec) or (None, None)"""
    if rng.random() < 0.75:
        return None, None
    names = sorted({t[2] for t in tables})
    accept = [["TABLE", n, rng.random() < 0.5] for n in names]
    for ty in ("METADATA", "DIRECTIVE", "TEMPLATE_ROW", "BLANK"):
        if rng.random() < 0.3:
            accept.append([ty, "", rng.random() < 0.4])
    spec = {"accept": accept, "default": rng.random() < 0.8}
    return bc.py_filter(spec), spec


def csv_safe(rows, sep=SEP):
    other = "," if sep != "," else ";"

    def cell(c):
        s = c if isinstance(c, str) else str(c)
        return s.replace(sep, other).replace("\n", " ").replace("\r", " ")
    return [[cell(c) for c in r] for r in rows]


def excel_safe(rows):
    def cell(c):
        if isinstance(c, float) and (c != c or math.isinf(c)):
            return 1.5
        if isinstance(c, int) and not isinstance(c, bool) and abs(c) > 10 ** 15:
            return 12345
        if isinstance(c, (datetime.date, datetime.time)) and not isinstance(c, datetime.datetime):
            return "2020-01-02"
        if isinstance(c, str):
            return "".join(ch for ch in c if ch in "\t\n" or ord(ch) >= 32)
        if hasattr(c, "to_pydatetime"):
            with warnings.catch_warnings():
                warnings.simplefilter("ignore")
                return c.to_pydatetime()
        return c
    return [[cell(c) for c in r] for r in rows]


# --------------------------------------------------------------------------- running the real readers

def make_fixer_arg(spec):
    """the reader's `fixer` argument: None (default), or a ParseFixer subclass / a fresh instance of it configured
    with strict_types and stop_on_errors (spec = {"strict_types": bool, "stop": bool, "as": "class" | "instance"})"""
    if not spec:
        return None
    from pdtable import ParseFixer
    strict_types, stop = spec["strict_types"], spec["stop"]

    class Configured(ParseFixer):
        def __init__(self):
            super().__init__()
            self.strict_types = strict_types
            self.stop_on_errors = 1 if stop else 0
            self._dbg = False
            self._called_from_test = True          # keeps report() from printing
    return Configured if spec["as"] == "class" else Configured()


def read_blocks(api, src, to, filt, plan=None, issues=None):
    """-> ("ok", [(BlockType name, value)]) | ("exc", class name)"""
    try:
        with warnings.catch_warnings():
            warnings.simplefilter("ignore")
            it = make_reader(api, src, to, filt, plan, issues)
            return "ok", [(bt.name, v) for bt, v in it]
    except Exception as e:  # noqa: BLE001
        return "exc", type(e).__name__


def make_reader(api, src, to, filt, plan=None, issues=None):
    """the reader generator, not yet started.  plan: "fixer" (every reader gets its own fixer object), "tracker":
    "collecting" (an issue tracker that does not raise; its issue list is put into issues[to]), "sep" (read_csv),
    "path" (src is a file path for read_csv), "origin" (read_csv from a stream)"""
    from pdtable.io.parsers.blocks import parse_blocks
    from pdtable import read_csv, read_excel
    plan = plan or {}
    kw = {} if not plan.get("fixer") else {"fixer": make_fixer_arg(plan["fixer"])}
    if plan.get("tracker") == "collecting":
        tr = bc.collecting_tracker()
        kw["issue_tracker"] = tr
        if issues is not None:
            issues[to] = tr.issues
    pos = plan.get("positional", 0)
    if api == "parse_blocks":
        # the caller's own row lists are handed over (not copies): they must be unchanged afterwards.
        # Positional calls follow the documented parameter order (cell_rows, location_sheet, to, filter, …)
        if pos >= 4:
            return parse_blocks(iter(src), None, to, filt, **kw)
        if pos == 3:
            return parse_blocks(iter(src), None, to, filter=filt, **kw)
        return parse_blocks(iter(src), to=to, filter=filt, **kw)
    if api == "read_csv":
        if plan.get("origin") and not plan.get("path"):
            kw["origin"] = plan["origin"]
        source = src if plan.get("path") else io.StringIO(src)
        if pos:                                           # (source, sep) are the positional parameters of read_csv
            return read_csv(source, plan.get("sep", SEP), to=to, filter=filt, **kw)
        return read_csv(source, sep=plan.get("sep", SEP), to=to, filter=filt, **kw)
    if plan.get("pattern"):
        import re
        kw["sheet_name_pattern"] = re.compile("S")          # every sheet of the generated workbooks is named S…
    if plan.get("excel_stream"):
        with open(src, "rb") as fh:
            source = io.BytesIO(fh.read())
        return read_excel(source, to=to, filter=filt, **kw)
    return read_excel(src, to=to, filter=filt, **kw)


def read_forms(api, src, filt, plan):
    """the three forms of one input -> {form: ("ok", blocks) | ("exc", class name)}.
    plan = {"mode": "sequential"}                     each reader created and read to completion, one after the other
         | {"mode": "lockstep", "order": [forms]}      all three readers alive: one block from each in turn
         | {"mode": "staggered", "order": [forms], "k": [k1, k2]}
                                                       k1 blocks of the first reader, then the second is started and
                                                       read for k2 blocks, then the third is started; then round-robin
    A reader must deliver its own form whatever other readers are alive."""
    issues = {}
    if plan["mode"] == "sequential":
        res = {f: read_blocks(api, src, f, filt, plan, issues) for f in FORMS}
        res["_issues"] = {f: len(issues.get(f, [])) for f in FORMS}
        return res
    order = plan["order"]
    res = {f: ["ok", []] for f in FORMS}
    gens, done = {}, set()

    def pull(f):
        if f in done:
            return
        try:
            with warnings.catch_warnings():
                warnings.simplefilter("ignore")
                if f not in gens:
                    gens[f] = make_reader(api, src, f, filt, plan, issues)
                bt, v = next(gens[f])
            res[f][1].append((bt.name, v))
        except StopIteration:
            done.add(f)
        except Exception as e:  # noqa: BLE001
            res[f] = ["exc", type(e).__name__]
            done.add(f)

    try:
        if plan["mode"] == "staggered":
            for f, k in zip(order, plan["k"]):
                for _ in range(k):
                    pull(f)
        while len(done) < len(order):
            for f in order:
                pull(f)
    finally:
        for g in gens.values():
            try:
                g.close()
            except Exception:  # noqa: BLE001
                pass
    final = {f: tuple(res[f]) for f in FORMS}
    final["_issues"] = {f: len(issues.get(f, [])) for f in FORMS}
    return final


def locale_encoding():
    """read_csv opens a path with the platform default encoding: the file is written in that encoding"""
    import locale
    return locale.getpreferredencoding(False)


def shorten_rows(rng, rows, tables):
    """cut one or two data rows of row-wise tables short (fewer cells than column names): a defect a fixer that does not
    stop on errors repairs by padding — in its own copy, never in the caller's rows; -> number of rows cut"""
    cut = 0
    for start, n, _name, units in tables:
        if not units or len(units) < 2 or str(rows[start][0]).endswith("*") or n <= 4:
            continue
        for ri in rng.sample(range(start + 4, start + n), min(2, n - 4)):
            if rng.random() < 0.9 and len(rows[ri]) >= 2:
                del rows[ri][len(units) - rng.randint(1, len(units) - 1):]
                cut += 1
    return cut


def gen_plan(rng):
    r = rng.random()
    order = list(FORMS)
    rng.shuffle(order)
    if r < 0.3:
        plan = {"mode": "sequential"}
    elif r < 0.7:
        plan = {"mode": "lockstep", "order": order}
    else:
        plan = {"mode": "staggered", "order": order, "k": [rng.randint(1, 3), rng.randint(0, 2)]}
    # the reader's fixer argument: default (none given), or a configured class / instance
    if rng.random() < 0.4:
        plan["fixer"] = {"strict_types": rng.random() < 0.4, "stop": rng.random() < 0.6,
                         "as": rng.choice(["class", "instance"])}
    if rng.random() < 0.3:
        plan["positional"] = rng.choice([3, 4])   # `to` (and `filter`) passed positionally, in the documented order
    if rng.random() < 0.12:
        plan["tracker"] = "collecting"            # an issue tracker that records instead of raising
    if rng.random() < 0.3:
        plan["sep"] = rng.choice([",", "\t", "|", "~"])       # read_csv only
    if rng.random() < 0.3:
        plan["excel_stream"] = True               # read_excel from a binary stream instead of a path
    if rng.random() < 0.3:
        plan["pattern"] = True                    # read_excel with a sheet_name_pattern (matching every sheet)
    if rng.random() < 0.2:
        plan["path"] = True                       # read_csv from a file path instead of a text stream
    elif rng.random() < 0.2:
        plan["origin"] = "some origin"
    return plan


_TZ = None


def drop_utc_offsets(rows):
    """without the strict unit/dtype check a datetime column of mixed UTC offsets is accepted as an object column
    (the reader model has no strict_types switch): such cases are kept offset-free"""
    import re
    global _TZ
    _TZ = _TZ or re.compile(r"^(\s*\d{4}-\d{1,2}-\d{1,2}[T ][\d:.]+?)(Z|z|UTC|[+-]\d{2}(?::?\d{2})?)(\s*)$")
    return [[_TZ.sub(r"\1\3", c) if isinstance(c, str) else c for c in r] for r in rows]


def header_units(grid, transposed):
    """the units the header rows of a generated table state, per column (trimmed)"""
    def strip(x):
        return x.strip("".join(chr(c) for c in rc.SPACE_CPS))
    if transposed:
        return [strip(line[1]) for line in grid[2:]]
    if len(grid) < 4:
        return []
    names = []
    for c in grid[2]:
        if ref_is_blank(c):
            break
        names.append(c)
    return [strip(u) for u in grid[3][:len(names)]]


def canon_val(v):
    from pdtable import Table
    if isinstance(v, dict) and not hasattr(v, "origin") and set(v) >= {"name", "columns", "destinations"}:
        return {"jsondata": {"ok": c08.jv(v)}}
    return bc.canon_block(None, v, None)


def canon_impl(status, blocks):
    if status == "exc":
        return {"ending": {"InputError": None} if blocks == "InputError" else {"escaped": blocks}}
    out = []
    for ty, v in blocks:
        first = None
        try:
            first = v.metadata.origin.input_location.row
        except AttributeError:
            pass
        out.append({"ty": ty, "first": first, "val": canon_val(v)})
    return {"blocks": out, "ending": "exhausted"}


def canon_model(ans):
    if "blocks" not in ans:
        return ans
    if ans["ending"] != "exhausted":
        e = ans["ending"]
        return {"ending": {"InputError": None} if "InputError" in e else e}
    out = []
    for b in ans["blocks"]:
        v, first = b["val"], b["first"]
        if "table" in v:
            t = dict(v["table"])
            t["destinations"] = sorted(set(t["destinations"]))
            v = {"table": t}
        else:
            first = None
        out.append({"ty": b["ty"], "first": first, "val": v})
    return {"blocks": out, "ending": "exhausted"}


# --------------------------------------------------------------------------- the oracle

def non_table_canon(v):
    from pdtable import MetadataBlock, Directive
    if isinstance(v, MetadataBlock):
        return ("metadata", [[k, x] for k, x in v.items()])
    if isinstance(v, Directive):
        return ("directive", v.name, grid_to_json([v.lines])[0])
    return ("rows", grid_to_json(v))


def oracle(out, case, api, sheets, tables, filt_py, results):
    """results: {form: (status, blocks)}; the pdtable read succeeded.  sheets: the rows the reader was fed, per
    worksheet (one list for parse_blocks / read_csv); tables: (sheet, start row in that sheet, number of rows, name)"""
    from pdtable.io.json import table_to_json_data
    P, J, C = (results[f][1] for f in FORMS)
    for f in ("jsondata", "cellgrid"):
        if results[f][0] != "ok":
            out.fail(f"{api}: the pdtable read succeeds but to='{f}' raises", case, results[f][1], "a block sequence",
                     key=f"raises:{f}:{results[f][1]}")
            return
    types = [[ty for ty, _ in X] for X in (P, J, C)]
    if not (types[0] == types[1] == types[2]):
        out.fail(f"{api}: the three forms deliver different block-type sequences", case,
                 {"pdtable": types[0], "jsondata": types[1], "cellgrid": types[2]}, "equal sequences", key="types")
        return
    expected = [t for t in tables if filt_py is None or filt_py(_bt("TABLE"), t[3])]
    k = 0
    for (ty, vp), (_, vj), (_, vc) in zip(P, J, C):
        if ty != "TABLE":
            a, b, c = non_table_canon(vp), non_table_canon(vj), non_table_canon(vc)
            if not (a == b == c):
                out.fail(f"{api}: a {ty} block differs between the forms", case, {"pdtable": a, "jsondata": b, "cellgrid": c},
                         "equal blocks", key="non_table:" + ty)
                return
            continue
        # every reader delivers the form it was asked for
        from pdtable import Table
        kinds = {"pdtable": isinstance(vp, Table), "jsondata": type(vj) is dict,
                 "cellgrid": isinstance(vc, (list, tuple)) and not isinstance(vc, Table)}
        if not all(kinds.values()):
            got = {"pdtable": type(vp).__name__, "jsondata": type(vj).__name__, "cellgrid": type(vc).__name__}
            out.fail(f"{api}: a reader delivered a table in another form than the one it was asked for", case, got,
                     {"pdtable": "Table", "jsondata": "dict", "cellgrid": "list"}, key="wrong_form")
            return
        # cellgrid == raw rows of the block
        if k >= len(expected):
            out.fail(f"{api}: more table blocks than tables in the input", case, len(P), len(expected), key="table_count")
            return
        sheet, start, n, name = expected[k][:4]
        units = expected[k][4] if len(expected[k]) > 4 else None
        k += 1
        origin = vp.metadata.origin.input_location.row
        raw = sheets[sheet][start:start + n]
        if origin != start or grid_to_json(vc) != grid_to_json(raw):
            out.fail(f"{api}: a cellgrid table is not the raw rows of its block", dict(case, table=name),
                     {"origin": origin, "cellgrid": grid_to_json(vc)}, {"origin": start, "rows": grid_to_json(raw)}, key="cellgrid_raw")
            return
        # the header of the two parsed forms agrees: the Table's destination set is the key set of the jsondata
        # destinations, the Table's units are the jsondata units in column order (what the header rows *mean* is
        # C02's / C13's subject and part of the model comparison, not of this oracle)
        got_d = {"pdtable": set(vp.metadata.destinations), "jsondata": set(vj.get("destinations", {}))}
        if got_d["pdtable"] != got_d["jsondata"]:
            out.fail(f"{api}: the destinations of the pdtable and the jsondata form of a table differ", dict(case, table=name),
                     sorted(got_d["jsondata"]), sorted(got_d["pdtable"]), key="destinations")
            return
        got_u = {"pdtable": list(vp.units), "jsondata": [c.get("unit") for c in vj.get("columns", {}).values()]}
        if got_u["pdtable"] != got_u["jsondata"]:
            out.fail(f"{api}: the units of the pdtable and the jsondata form of a table differ", dict(case, table=name),
                     got_u["jsondata"], got_u["pdtable"], key="units")
            return
        # jsondata == table_to_json_data(pdtable table)
        try:
            with warnings.catch_warnings():
                warnings.simplefilter("ignore")
                jt = table_to_json_data(vp)
        except Exception as e:  # noqa: BLE001
            out.fail(f"{api}: table_to_json_data raises on a table the reader produced", dict(case, table=name),
                     type(e).__name__ + ": " + str(e)[:100], "JsonData", key="t2j_exc:" + type(e).__name__)
            return
        bad = c08.impure_leaves(vj) + c08.impure_leaves(jt)
        if bad:
            out.fail(f"{api}: JsonData holds a value that is not plain JSON", dict(case, table=name), bad[:5], None,
                     key="impure:" + bad[0].split(": ")[-1])
            return
        if not c08.same_typed(vj, jt) or list(vj["columns"]) != list(jt["columns"]) or list(vj["columns"]) != list(vp.column_names):
            out.fail(f"{api}: the jsondata table differs from table_to_json_data of the pdtable table", dict(case, table=name),
                     str(vj)[:400], str(jt)[:400], key="jsondata_commutes")
            return
    if k != len(expected):
        out.fail(f"{api}: fewer table blocks than tables in the input", case, k, len(expected), key="table_count")


def _bt(name):
    from pdtable import BlockType
    return BlockType[name]


def write_workbook(path, sheets):
    """-> the rows openpyxl delivers per worksheet when the harness reads the file itself"""
    import openpyxl
    wb = openpyxl.Workbook()
    for k, rows in enumerate(sheets):
        ws = wb.active if k == 0 else wb.create_sheet(f"S{k + 1}")
        for r_i, r in enumerate(rows, 1):
            for c_i, c in enumerate(r, 1):
                if c is not None:
                    ws.cell(row=r_i, column=c_i, value=c)
    wb.save(path)
    wb.close()
    wb2 = openpyxl.load_workbook(path, read_only=True, data_only=True, keep_links=False)
    seen = [[list(r) for r in ws.iter_rows(values_only=True)] for ws in wb2.worksheets]
    wb2.close()
    return seen


def split_sheets(rng, rows, tables):
    """cut the stream after a blank line outside every table: two worksheets (read_excel runs parse_blocks per sheet)"""
    inside = set()
    for start, n, *_ in tables:
        inside.update(range(start, start + n))
    cuts = [i for i, r in enumerate(rows) if i not in inside and 0 < i < len(rows) - 1 and ref_kind(r).startswith("blank")
            and len(r) <= 1]
    if not cuts:
        return [rows], [(0, st, n, nm, un) for st, n, nm, un in tables]
    cut = rng.choice(cuts) + 1
    return [rows[:cut], rows[cut:]], [((0, st, n, nm, un) if st < cut else (1, st - cut, n, nm, un))
                                      for st, n, nm, un in tables]


def merge_model(answers):
    """one parse_blocks per worksheet, in order; a sheet that ends in an exception ends the read"""
    blocks = []
    for a in answers:
        if "blocks" not in a:
            return a
        blocks += a["blocks"]
        if a["ending"] != "exhausted":
            return {"blocks": blocks, "issues": a.get("issues", []), "ending": a["ending"]}
    return {"blocks": blocks, "issues": [], "ending": "exhausted"}


class RecordingIter:
    def __init__(self, rows):
        self._it = iter(rows)
        self.calls = 0

    def __iter__(self):
        return self

    def __next__(self):
        self.calls += 1
        return next(self._it)


class RecordingStream(io.StringIO):
    def __init__(self, text):
        super().__init__(text)
        self.reads = 0

    def readline(self, *a):
        self.reads += 1
        return super().readline(*a)

    def read(self, *a):
        self.reads += 1
        return super().read(*a)

    def __next__(self):
        self.reads += 1
        return super().__next__()

    def readlines(self, *a):
        self.reads += 1
        return super().readlines(*a)


def check_unknown_form(out, case, rows, text, xlsx, to, ops=None, pend=None, rng=None, sep=SEP):
    from pdtable.io.parsers.blocks import parse_blocks
    from pdtable import read_csv, read_excel, ParseFixer
    # the other arguments must not matter: a filter, a fixer, an issue tracker that does not raise
    kw, given = {}, []
    if rng is not None:
        if rng.random() < 0.5:
            kw["filter"] = rng.choice([lambda bt, name: True, lambda bt, name: False, lambda bt, name: bt.name == "TABLE"])
            given.append("filter")
        if rng.random() < 0.3:
            kw["fixer"] = rng.choice([ParseFixer, ParseFixer()])
            given.append("fixer")
        if rng.random() < 0.3:
            kw["issue_tracker"] = bc.collecting_tracker()
            given.append("issue_tracker")
        r = rng.random()
        if r < 0.25:
            kw["origin"] = "some origin"
            given.append("origin")
        elif r < 0.45:
            from pdtable.table_origin import NullLocationFile
            kw["location_sheet"] = NullLocationFile("somewhere").make_location_sheet()
            given.append("location_sheet")
    case = dict(case, given=given)
    out.count("unknown form probed with: " + ("+".join(given) or "no other argument"))
    rec = RecordingIter([list(r) for r in rows])
    positional = rng is not None and rng.random() < 0.4
    if positional:
        given.append("positional to")
        case = dict(case, given=given)
        kwp = {k: v for k, v in kw.items() if k not in ("filter", "location_sheet")}
        trials = [("parse_blocks", lambda: parse_blocks(rec, kw.get("location_sheet"), to, kw.get("filter"), **kwp), lambda: rec.calls)]
    else:
        trials = [("parse_blocks", lambda: parse_blocks(rec, to=to, **kw), lambda: rec.calls)]
    if text is not None:
        st = RecordingStream(text)
        trials.append(("read_csv", lambda: read_csv(st, sep=sep, to=to, **kw), lambda: st.reads))
    if xlsx is not None:
        import re
        kwx = {k: v for k, v in kw.items() if k != "location_sheet"}        # read_excel has location_file instead
        if rng is not None and rng.random() < 0.5:
            kwx["sheet_name_pattern"] = re.compile("S")
        if rng is not None and rng.random() < 0.5:
            with open(xlsx, "rb") as fh:
                xsrc = io.BytesIO(fh.read())
        else:
            xsrc = xlsx
        trials.append(("read_excel", lambda: read_excel(xsrc, to=to, **kwx), lambda: 0))
    for api, make, touched in trials:
        try:
            with warnings.catch_warnings():
                warnings.simplefilter("ignore")
                gen = make()
                first = next(gen, "exhausted")
            got = "delivered " + (first if isinstance(first, str) else first[0].name)
        except ValueError:
            got = "ValueError"
        except Exception as e:  # noqa: BLE001
            got = type(e).__name__
        c = dict(case, api=api, to=repr(to))
        if api == "parse_blocks" and ops is not None and isinstance(to, str):
            op = bc.model_op(rows, to="pdtable", filt=None, tracker="raising")
            op["op"], op["to"] = "parse_blocks_json", to
            ops.append(op)
            pend.append((f"parse_blocks(to={to!r})", c, {"exc": got}, 1))
        if got != "ValueError":
            out.fail(f"{api}: an unknown output form is not rejected with ValueError", c, got, "ValueError", key="unknown_form")
        elif touched() != 0:
            out.fail(f"{api}: an unknown output form is rejected only after input was read", c, touched(), 0, key="unknown_form_read")
        out.evaluations += 1


# --------------------------------------------------------------------------- run

def run(tier, seed, model_ok, translator, search=False):
    import openpyxl
    out = Outcome()
    out.rule = ("multi-block inputs: well-formed tables of every column kind (text and native cells, markers, missing values, datetimes down to "
                "nanoseconds (a column with one such value is held as datetime64[ns]), "
                "both orientations, zero rows, no columns at all (name and destination rows only), destination cells with doubled blanks / tabs / other "
                "whitespace, column names differing only in letter case, padding, comments after the names) interleaved with metadata, directives, "
                "template rows, comments, late `key:` rows and blank lines with payload, with and without blank separators, "
                "25 % with a read filter; `to` also passed positionally in the documented order; parse_blocks is handed the caller's own "
                "row lists, which must be unchanged afterwards — also with short data rows and a fixer that pads them; 40 % with the reader's fixer argument given (a ParseFixer subclass or an instance of it, "
                "strict_types False / True x stop_on_errors 0 / 1); the three readers of a case are consumed one after the other (30 %), in lock-step (40 %) "
                "or staggered (a reader started after k blocks of another, 30 %); plus a row-count ladder (a table of 64 … 8193 rows "
                "with missing numbers in every quick run, 60 … 20000 in thorough); each through parse_blocks (text / native cells), read_csv (StringIO; half of the texts "
                "without a final newline) and read_excel (openpyxl workbook in a scratch dir; a third split into two "
                "worksheets) x {pdtable, jsondata, cellgrid}; plus unknown output forms with a "
                "recording iterator / stream. Non-trivial: at least one table with a column and a row; distinct by rows.")
    rng = make_rng(seed, "C07")
    thorough = tier == "thorough" or search
    n = 6000 if thorough else 600
    n_x = 500 if thorough else 80
    ops, pend = [], []
    tmp = tempfile.mkdtemp(prefix="c07-")
    try:
        ladder = ROW_LADDER_FULL if thorough else ROW_LADDER_QUICK
        for i in range(n + len(ladder)):
            if i < n:
                api = "read_excel" if i < n_x else ("read_csv" if i % 3 == 0 else "parse_blocks")
                native = api == "read_excel" or (api == "parse_blocks" and rng.random() < 0.4)
                rows, tables, kinds = gen_stream(rng, native)
            else:
                # row-count ladder: a table of that many rows, always with missing numbers, next to a small one
                n_row = ladder[i - n]
                api = ["parse_blocks", "read_csv", "read_excel"][(i - n) % 3] if n_row <= 2100 else \
                    ["parse_blocks", "read_csv"][(i - n) % 2]
                native = api == "read_excel"
                rows, tables, kinds = ladder_stream(rng, n_row, native)
            filt_py, filt_spec = gen_filter(rng, tables)
            plan = gen_plan(rng)
            fx = plan.get("fixer")
            if fx and not fx["strict_types"]:
                rows = drop_utc_offsets(rows)
            n_cut = 0
            if api == "parse_blocks" and not native and i < n and rng.random() < 0.35:
                # short data rows + a fixer that does not stop on errors, the three forms one after the other over the
                # caller's own row lists (pdtable / jsondata first, cellgrid last)
                plan = dict(plan, mode="sequential", fixer={"strict_types": True, "stop": False, "as": rng.choice(["class", "instance"])})
                plan.pop("order", None), plan.pop("k", None)
                fx = plan["fixer"]
                n_cut = shorten_rows(rng, rows, tables)
                out.count("short data rows with a lenient fixer (rows cut: %s)" % ("some" if n_cut else "none"))
            fixer_kind = "strict" if not fx or fx["stop"] else "lenient"
            text = xlsx = None
            tables4 = [(0, st, k, nm, un) for st, k, nm, un in tables]
            if api != "read_csv":
                plan.pop("sep", None), plan.pop("path", None), plan.pop("origin", None)
            if api != "read_excel":
                plan.pop("excel_stream", None), plan.pop("pattern", None)
            if api == "read_csv":
                sep = plan.get("sep", SEP)
                rows = csv_safe(rows, sep)
                # half of the texts do not end with a newline (the last line is then read without one)
                text = "\n".join(sep.join(r) for r in rows) + ("\n" if rng.random() < 0.5 else "")
                out.count("csv:" + ("final newline" if text.endswith("\n") else "no final newline"))
                lines = text.split("\n")
                if lines[-1] == "":
                    lines.pop()          # iterating a text file yields nothing after the last newline
                sheets = [[line.split(sep) for line in lines]]
                src = text
                if plan.get("path"):
                    src = os.path.join(tmp, f"c{i}.csv")
                    with open(src, "w", encoding=locale_encoding(), newline="") as fh:
                        fh.write(text)
                    case_text = text
            elif api == "read_excel":
                rows = excel_safe(rows)
                xlsx = os.path.join(tmp, f"w{i}.xlsx")
                parts = [rows]
                if rng.random() < 0.35:
                    parts, tables4 = split_sheets(rng, rows, tables)
                out.count("excel:" + ("two worksheets" if len(parts) == 2 else "one worksheet"))
                sheets = write_workbook(xlsx, parts)
                src = xlsx
            else:
                sheets = [[list(r) for r in rows]]
                src = rows
            seen = sheets[0]
            case = {"seed": seed, "index": i, "api": api, "rows": grid_to_json(seen), "filter": filt_spec,
                    "tables": [list(t) for t in tables4]}
            if len(sheets) > 1:
                case["sheets"] = [grid_to_json(sh) for sh in sheets]
            case["plan"] = plan
            results = read_forms(api, src, filt_py, plan)
            if api == "parse_blocks" and grid_to_json(rows) != case["rows"]:
                out.fail("parse_blocks: reading changed the caller's own rows", case, grid_to_json(rows), case["rows"], key="caller_rows")
                rows = c02.common_rows_from_json(case["rows"])
            out.count("readers:" + plan["mode"])
            if plan.get("positional"):
                out.count("`to` passed positionally")
            out.count("fixer:" + ("default" if not fx else "%s strict_types=%s stop_on_errors=%s" % (
                fx["as"], fx["strict_types"], fx["stop"])))
            nontrivial = any(k.startswith("col:") for k in kinds) and any(k.startswith("rows:") and k != "rows:0" for k in kinds)
            c08.add_case(out, case, [api, case["rows"], case.get("sheets"), filt_spec], nontrivial)
            out.count("api:" + api)
            for k in kinds:
                out.count("el:" + k)
            if filt_spec is not None:
                out.count("with filter")
            for k_ in ("tracker", "sep", "path", "origin"):
                if plan.get(k_):
                    out.count("reader given %s" % ("a collecting issue tracker" if k_ == "tracker" else
                                                   "another separator" if k_ == "sep" else "a file path" if k_ == "path" else "an origin"))
            if results["pdtable"][0] == "ok" and not results["_issues"]["pdtable"]:
                out.count("pdtable read ok")
                oracle(out, case, api, sheets, tables4, filt_py, results)
            elif results["pdtable"][0] == "ok":
                out.count("pdtable read reports issues to the collecting tracker (not a successful read)")
            else:
                out.count("pdtable read fails:" + results["pdtable"][1])
            if model_ok:
                for f in FORMS:
                    for sh in sheets:
                        op = bc.model_op(sh, to=f, filt=filt_spec, tracker=plan.get("tracker", "raising"), fixer_kind=fixer_kind)
                        op["op"] = "parse_blocks_json"
                        ops.append(op)
                    pend.append((f"{api}(to={f})", case, canon_impl(*results[f]), len(sheets)))
            if i % 6 == 0 and i < n:
                check_unknown_form(out, {"seed": seed, "index": i}, seen, text, xlsx,
                                   rng.choice(["bogus", "", "PDTABLE", "json", None, 5, "cellgrid ", "Pdtable", "jsondata\n"]),
                                   ops if model_ok else None, pend, rng=rng, sep=plan.get("sep", SEP))
        # forms the source knows beyond the three of the property (translator diff): they must be rejected as unknown
        try:
            extra = [k for k, _ in (translator or {}).get("values", {}).get("table_handlers", {}).get("pairs", []) if k not in FORMS]
        except AttributeError:
            extra = []
        for to in extra:
            check_unknown_form(out, {"seed": seed, "stream": "translator: extra TABLE_HANDLERS key"},
                               [["**t"], ["all"], ["a"], ["-"], ["1"]], "**t;\nall\na\n-\n1\n", None, to,
                               ops if model_ok else None, pend)
        # regression stream: a table without rows whose unit row is shorter than its name row (an input error since
        # /repo 7179188; before, it read as a Table on which table_to_json_data raised IndexError)
        for i in range(n // 25):
            k = rng.randint(2, 4)
            names = ["c%d" % j for j in range(k)]
            units = [rng.choice(["m", "text", "onoff", "-"]) for _ in range(rng.randint(0, k - 1))]
            rows = ([["a:", "b"], []] if rng.random() < 0.5 else []) + [["**t"], ["all"], names, units]
            if rng.random() < 0.3:
                rows += [[], ["**u"], ["all"], ["x"], ["-"], ["1"]]
            tables = [(0, 2 if rows[0][0] == "a:" else 0, 4, "t", None)] + ([(0, len(rows) - 5, 5, "u", ["-"])] if rows[-1] == ["1"] else [])
            case = {"seed": seed, "index": i, "stream": "short units", "api": "parse_blocks", "rows": grid_to_json(rows),
                    "filter": None, "tables": [list(t) for t in tables]}
            results = {f: read_blocks("parse_blocks", rows, f, None) for f in FORMS}
            c08.add_case(out, case, ["short units", case["rows"]], False)
            out.count("short unit row:" + ("read ok" if results["pdtable"][0] == "ok" else "fails:" + results["pdtable"][1]))
            if results["pdtable"][0] == "ok":
                oracle(out, case, "parse_blocks", [rows], tables, None, results)
            if model_ok:
                for f in FORMS:
                    op = bc.model_op(rows, to=f, filt=None, tracker="raising")
                    op["op"] = "parse_blocks_json"
                    ops.append(op)
                    pend.append((f"parse_blocks(to={f})", case, canon_impl(*results[f]), 1))
    finally:
        shutil.rmtree(tmp, ignore_errors=True)

    if model_ok and ops:
        answers = common.run_model(ops)
        pos = 0
        for what, case, impl, k in pend:
            group, pos = answers[pos:pos + k], pos + k
            bad = [a for a in group if isinstance(a, dict) and "error" in a]
            if bad:
                out.mismatch("driver error", case, impl, bad[0])
                continue
            m = canon_model(merge_model(group))
            if m != impl:
                out.mismatch(f"{what}: pdtable vs Lean model", case, impl, m)
    return out


# --------------------------------------------------------------------------- replay

def replay(rep):
    inp = rep.get("input") or {}
    if "rows" not in inp and "to" not in inp:
        return False, "replay file has no input (no-failing-input-found): " + str(rep.get("broken"))[:300]
    out = Outcome()
    if "to" in inp and "rows" not in inp:
        import ast
        check_unknown_form(out, {}, [["**t"], ["all"], ["a"], ["-"], ["1"]], "**t;\nall\na\n-\n1\n", None, ast.literal_eval(inp["to"]))
    else:
        rows = c02.common_rows_from_json(inp["rows"])
        api = inp.get("api", "parse_blocks")
        filt_py = bc.py_filter(inp.get("filter"))
        tables = [tuple(t) if len(t) >= 4 and isinstance(t[3], str) else (0,) + tuple(t) for t in inp.get("tables", [])]
        sheets = [[list(r) for r in rows]] if "sheets" not in inp else [c02.common_rows_from_json(sh) for sh in inp["sheets"]]
        sheets_in = [[list(r) for r in sh] for sh in sheets]
        tmp = tempfile.mkdtemp(prefix="c07r-")
        try:
            plan_r = inp.get("plan") or {"mode": "sequential"}
            if api == "read_csv":
                src = "".join(plan_r.get("sep", SEP).join(r) + "\n" for r in rows)
                if plan_r.get("path"):
                    path = os.path.join(tmp, "r.csv")
                    with open(path, "w", encoding=locale_encoding(), newline="") as fh:
                        fh.write(src)
                    src = path
            elif api == "read_excel":
                src = os.path.join(tmp, "w.xlsx")
                sheets = write_workbook(src, sheets)
            else:
                src = rows
            snapshot = grid_to_json(rows)
            results = read_forms(api, src, filt_py, plan_r)
            if api == "parse_blocks" and grid_to_json(rows) != snapshot:
                out.fail("parse_blocks: reading changed the caller's own rows", dict(inp), grid_to_json(rows), snapshot, key="caller_rows")
            if results["pdtable"][0] == "ok" and not results["_issues"]["pdtable"]:
                oracle(out, dict(inp), api, sheets, tables, filt_py, results)
            # the other routing of the same rows: what the reader was fed, handed to parse_blocks directly (a workbook or
            # a text cannot always be rebuilt cell for cell — openpyxl reads 1.797e308 back as inf and cannot write inf)
            if api != "parse_blocks" and len(sheets_in) == 1 and not out.failures:
                plan_p = {k: v for k, v in plan_r.items() if k not in ("sep", "path", "origin", "excel_stream", "pattern")}
                results = read_forms("parse_blocks", sheets_in[0], filt_py, plan_p)
                if results["pdtable"][0] == "ok" and not results["_issues"]["pdtable"]:
                    oracle(out, dict(inp), "parse_blocks", sheets_in, tables, filt_py, results)
        finally:
            shutil.rmtree(tmp, ignore_errors=True)
    if out.failures:
        return False, out.failures[0]["what"] + " — observed " + str(out.failures[0]["observed"])[:200]
    return True, "property holds on this input"
