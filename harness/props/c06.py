"""C06 — unit conversion changes values and unit labels together, or neither.

Correspondence: the real `Table.convert_units` vs the Lean model `Convert.convertUnits` on the same table
(name, destinations, row labels, columns with unit and values as opaque tokens), the same dispatcher argument
and the converter's *observed* behaviour (a recording wrapper logs every call: values, from, to, outcome; the
model's converter answers call k from log entry k and only for identical arguments).
Oracle: the C06 statement evaluated on the implementation's result by `oracle()` — per-column targets
re-derived from the dispatcher argument, the expected values obtained by calling the pure converter directly on
the snapshot of the original column, compared position by position; the original is compared with a deep
snapshot taken before the call; exception classes for refusals and converter failures.
"""
import copy
import logging
import math
import warnings

from harness import common
from harness.common import Outcome, make_rng, InfraError

logging.disable(logging.CRITICAL)

EXTRA = {
    "assumptions": [
        "the converter honours its contract in shape: it returns (values, unit) with one value per row, or raises; "
        "a result of another length makes the positional assignment raise ValueError (modelled, compared) — except on "
        "a table without rows, where pandas accepts any length and re-indexes the frame (not modelled, not generated)",
        "the effect of the pandas primitives `df[name] = pd.Series(values).to_numpy()` (positional, index "
        "untouched, dtype coercion of the assigned values) and `df.copy()` (deep) is observed, not proved",
        "cell values are opaque in the model: no floating-point arithmetic is verified; values are compared by "
        "value (NaN = NaN) between implementation, model echo and a direct call of the pure converter",
        "the callable dispatcher form and the column names do not raise / are strings; `to` is a str, list, tuple, "
        "dict, callable or a non-Sequence object (bytes, range and other exotic Sequences are outside the model)",
        "the values setter's assignment primitive is a parameter of the model with the law `Positional` (values "
        "taken position by position, row labels untouched); pandas satisfying it is sampled on permuted, duplicate, "
        "string and float indexes, not proved",
        "a numeric column asked for the unit text / onoff / datetime with a converter that accepts it is relabelled "
        "(values = converter output, unit = requested): within C06 as stated; whether the resulting table is a "
        "valid table is C15's matter (with a dtype-changing converter the result cannot even be read: "
        "ColumnUnitException; reported, only dtype-preserving converters are generated for this shape)",
        "outside the domain (model and code differ or nothing is generated): `to` being a defaultdict (`.get` differs "
        "from `[]`), range / bytes / other exotic Sequences (non-str elements become units), a callable class such as "
        "`str`, an ndarray or Series (`to == 'origin'` is ambiguous: ValueError, the model says TypeError), a Mapping "
        "that is not a dict (generated once as a non-dispatcher: TypeError), a converter reporting a non-str base "
        "unit; convert_units also drops metadata.transposed and gives the result a derived origin (not in the statement)",
        "the oracle judges the returned table and the error class only — not how often, in which order or in which "
        "grouping the converter is consulted; when conversions fail, any of the errors of the failing columns (or "
        "the injected failure the converter actually raised) is accepted; which one comes first is proved for the "
        "model (first_failure_error) and compared with the code through the correspondence",
        "the correspondence is independent of the order in which the implementation converts the columns: returned "
        "tables are compared in full; an exception of the implementation must be the model's or one that some column "
        "raises on its own in the model; disagreements on dispatchers outside ColumnUnitDispatcher (a Mapping that is "
        "not a dict) are counted in the evidence, not reported",
        "the per-column spellings `__base__` / `__origin__` and the whole-table form 'origin' are modelled and "
        "compared with the code but are outside the oracle (the statement does not speak about them)",
    ],
    "explanation": "convertUnits_refines, convert_succeeds, convert_values_and_label, untargeted_unchanged, "
                   "original_unchanged, special_skipped_by_base, special_refused, failure_is_atomic, "
                   "first_failure_error and the dispatcher lemmas "
                   "(Props/C06.lean) hold for every table, row index, dispatcher argument and (stateful) converter; "
                   "INCONVERTIBLE_UNIT_INDICATORS is pinned from the source each run.",
    "trusted_base": ["pandas positional column assignment and DataFrame.copy (observed per case)",
                     "the oracle's reference converters: pint itself (own UnitRegistry, not pdtable.units.pint) and a "
                     "harness transcription of the demo converter's documented table (not pdtable.demo.unit_converter)",
                     "the recording wrapper around the converter (harness/props/c06.py:Recorder)"],
}

SPECIAL = ("text", "datetime", "onoff")       # literal copy of the statement ("unit text, onoff or datetime")

# ---------------------------------------------------------------- converters (pure, stateless)

AFF = {"u1": (1.0, 0.0), "u2": (2.0, 0.0), "uh": (0.5, 1.0), "uk": (4.0, -3.0), "p": (8.0, 0.0), "q": (1.0, 16.0)}


def affine(values, from_unit, to_unit=None):
    """value_in_u1 = a * x + b; reports the base unit as 'u1' and an explicit target in upper case"""
    import numpy as np
    if from_unit not in AFF:
        raise KeyError(from_unit)
    a, b = AFF[from_unit]
    base = np.asarray(values, dtype=float) * a + b
    if to_unit is None:
        return base, "u1"
    if to_unit not in AFF:
        raise KeyError(to_unit)
    a2, b2 = AFF[to_unit]
    return (base - b2) / a2, to_unit.upper()


def ident(values, from_unit, to_unit=None):
    """a permissive converter: knows every unit (also 'text' / 'onoff' / 'datetime' as targets), values unchanged"""
    import numpy as np
    return np.array(np.asarray(values), copy=True), (to_unit if to_unit is not None else from_unit + "_base")


def inplace(values, from_unit, to_unit=None):
    """a converter that avoids temporaries: doubles the buffer it is handed IN PLACE and returns that buffer"""
    import numpy as np
    buf = np.asarray(values)
    np.multiply(buf, 2, out=buf)
    return buf, (to_unit if to_unit is not None else from_unit + "_base")


def doubled(values, from_unit, to_unit=None):
    """what `inplace` computes, without touching its input (the oracle's reference for it)"""
    import numpy as np
    return np.asarray(values) * 2, (to_unit if to_unit is not None else from_unit + "_base")


def decoy(values, from_unit, to_unit=None):
    """the converter that must NOT be in force: installed as module default while another one is passed explicitly"""
    import numpy as np
    return np.full(len(np.asarray(values)), -1.0), "DECOY"


def affine_inverse(values, unit_now, unit_before):
    return affine(values, unit_now, unit_before)[0]


def demo(*a):
    from pdtable.demo.unit_converter import convert_this
    return convert_this(*a)


def pint_conv(*a):
    from pdtable.units.pint import pint_converter
    return pint_converter(*a)


_UREG = []


def pint_direct(values, from_unit, to_unit=None):
    """what pint itself says (own registry, never through pdtable.units.pint): the reference for the pint family"""
    import pint
    if not _UREG:
        _UREG.append(pint.UnitRegistry())
    q = _UREG[0].Quantity(values, from_unit)
    q = q.to_base_units() if to_unit is None else q.to(to_unit)
    return q.magnitude, str(q.units)


_DEMO_ALIAS = {"meter": "m", "metre": "m", "m\u00e8tre": "m"}
_DEMO_BASE = {"mm": "m", "C": "K", "g": "kg", "m": "m", "K": "K", "kg": "kg"}


def demo_direct(values, from_unit, to_unit=None):
    """the documented behaviour of the demo converter, written down independently of pdtable.demo.unit_converter"""
    f = _DEMO_ALIAS.get(from_unit, from_unit)
    if to_unit is None:
        if f not in _DEMO_BASE:
            raise KeyError(f)
        t = _DEMO_BASE[f]
    else:
        t = _DEMO_ALIAS.get(to_unit, to_unit)
    if to_unit is not None and to_unit == from_unit:
        return values, to_unit
    x = values
    table = {("m", "mm"): lambda: x * 1000, ("mm", "m"): lambda: x / 1000, ("C", "K"): lambda: x + 273.15,
             ("K", "C"): lambda: x - 273.15, ("kg", "g"): lambda: x * 1000, ("g", "kg"): lambda: x / 1000}
    if (f, t) not in table:
        raise KeyError((f, t))
    return table[(f, t)](), t


_IMPL_UREG = []


class MemoAffine:
    """a custom converter with internal state done right: remembers the coefficients of the units it has seen"""

    def __init__(self):
        self.seen = {}

    def __call__(self, values, from_unit, to_unit=None):
        import numpy as np
        for u in (from_unit,) + (() if to_unit is None else (to_unit,)):
            if u not in self.seen:
                if u not in AFF:
                    raise KeyError(u)
                self.seen[u] = AFF[u]
        a, b = self.seen[from_unit]
        base = np.asarray(values, dtype=float) * a + b
        if to_unit is None:
            return base, "u1"
        a2, b2 = self.seen[to_unit]
        return (base - b2) / a2, to_unit.upper()


def make_converter(family):
    """ONE converter object per case: it serves the warm-up conversions, the judged conversion and its repetitions,
    so whatever state it keeps (caches, registries) is carried from one request to the next — and a failing case is
    reproducible from the case alone"""
    if family == "pint":
        import pint
        from pdtable.units.pint import PintUnitConverter
        if not _IMPL_UREG:
            _IMPL_UREG.append(pint.UnitRegistry())
        c = PintUnitConverter()
        c.ureg = _IMPL_UREG[0]          # the registry is expensive; the converter object (and its state) is fresh
        return c
    if family == "memo":
        return MemoAffine()
    return PURE[family]


class ConvBoom(RuntimeError):
    pass


UNITS = {"affine": ["u1", "u2", "uh", "uk", "p", "q"],
         "demo": ["mm", "m", "C", "K", "g", "kg", "meter"],
         "pint": ["mm", "m", "cm", "km", "g", "kg", "degC", "kelvin", "s", "min"],
         "ident": ["m", "mm", "anything", "-", ""], "inplace": ["m", "mm", "km"],
         "memo": ["u1", "u2", "uh", "uk", "p", "q"]}
BAD_UNITS = {"affine": ["zz", "m"], "demo": ["furlong", "u1"], "pint": ["kg", "m", "nosuchunit"],
             "ident": ["text", "onoff", "datetime"],     # special units requested for a numeric column: relabelled
             "inplace": ["cm"], "memo": ["zz", "m"]}
PURE = {"affine": affine, "demo": demo, "pint": pint_conv, "ident": ident, "inplace": inplace, "memo": affine}
# what the oracle calls to obtain the expected values: for the two converters that ship with pdtable, references that
# do not go through pdtable's own modules
REF = {"affine": affine, "demo": demo_direct, "pint": pint_direct, "ident": ident, "inplace": doubled, "memo": affine}
# units that differ in letter case only and are different units (milli / mega, …)
CASE_PAIRS = [("mm", "Mm"), ("mPa", "MPa"), ("mW", "MW"), ("ms", "Ms"), ("mg", "Mg"), ("mN", "MN")]
CASE_PARTNER = {a: b for a, b in CASE_PAIRS} | {b: a for a, b in CASE_PAIRS}


class Recorder:
    """wraps a pure converter; fails on call number `fail_at`; returns a wrong-length result when `badlen`"""

    def __init__(self, pure, fail_at=None, badlen=None, ret=None):
        self.pure, self.fail_at, self.badlen, self.ret, self.log = pure, fail_at, badlen, ret, []

    def __call__(self, *args):
        import numpy as np
        import pandas as pd
        k = len(self.log)
        entry = {"vals": toks(pd.Series(args[0]).tolist()), "from": args[1], "to": args[2] if len(args) > 2 else None,
                 "nargs": len(args)}
        self.log.append(entry)
        if self.fail_at is not None and k == self.fail_at:
            entry["exc"] = "ConvBoom"
            raise ConvBoom("injected")
        try:
            vals, unit = self.pure(*args)
        except Exception as e:
            entry["exc"] = type(e).__name__
            raise
        if self.badlen == "short":
            vals = vals[:-1] if len(vals) else [1.0]
        elif self.badlen == "scalar":
            vals = 7.0
        # the container the converter hands back: a Series (own default labels 0..n-1), a list, a tuple
        if self.ret == "series":
            vals = pd.Series(np.asarray(vals))
        elif self.ret == "list":
            vals = np.asarray(vals).tolist()
        elif self.ret == "tuple":
            vals = tuple(np.asarray(vals).tolist())
        # what the values setter will see: pd.Series(values) (scalar -> one element; list -> coerced dtype)
        entry["ok"] = {"vals": toks(pd.Series(vals).tolist()), "unit": unit}
        return vals, unit


class FalsyRecorder(Recorder):
    """a converter object that is falsy (an empty container that is callable): still a converter"""

    def __len__(self):
        return 0


# ---------------------------------------------------------------- tokens

def tok(x):
    import numpy as np
    import pandas as pd
    if x is None:
        return "n"
    if x is pd.NaT:
        return "nat"
    if isinstance(x, (bool, np.bool_)):
        return "b:" + ("1" if x else "0")
    if isinstance(x, (int, np.integer)):
        return "i:" + str(int(x))
    if isinstance(x, (float, np.floating)):
        x = float(x)
        return "f:nan" if x != x else "f:" + repr(x)
    if isinstance(x, str):
        return "s:" + x
    if isinstance(x, pd.Timestamp):
        return "t:" + x.isoformat()
    raise InfraError("value outside the token kinds: " + type(x).__name__)


def toks(xs):
    return [tok(x) for x in xs]


def untok(t):
    if t == "n":
        return None
    if t == "nat":
        return "NaT"
    k, v = t[0], t[2:]
    if k == "i":
        return int(v)
    if k == "f":
        return float(v)
    if k == "b":
        return v == "1"
    return t


def same_val(a, b):
    """by value: numbers whatever the numeric type, NaN = NaN"""
    na, nb = isinstance(a, (int, float)) and not isinstance(a, bool), isinstance(b, (int, float)) and not isinstance(b, bool)
    if na and nb:
        return a == b or (isinstance(a, float) and isinstance(b, float) and math.isnan(a) and math.isnan(b))
    return type(a) is type(b) and a == b


def same_toks(xs, ys):
    return len(xs) == len(ys) and all(same_val(untok(x), untok(y)) for x, y in zip(xs, ys))


# ---------------------------------------------------------------- tables

def expand_values(col):
    """`{"seq": n}`: n deterministic values (long tables are written down compactly in the case)"""
    v = col["values"]
    if not isinstance(v, dict):
        return v
    n = v["seq"]
    if col["kind"] == "int":
        return [(i * 37) % 1000 - 500 for i in range(n)]
    if col["kind"] == "float":
        return [None if i % 97 == 5 else ((i * 53) % 4096) / 8.0 - 100.0 for i in range(n)]
    if col["kind"] == "text":
        return ["r%d" % (i % 7) for i in range(n)]
    if col["kind"] == "bool":
        return [i % 3 == 0 for i in range(n)]
    raise InfraError("no sequence for kind " + col["kind"])


def expand_index(index, n):
    if isinstance(index, dict):
        return {"rev": list(range(n - 1, -1, -1)), "odd_even": list(range(1, n, 2)) + list(range(0, n, 2)),
                "strings": ["r%d" % i for i in range(n)],
                "dates": __import__("pandas").to_datetime(["2020-01-01"] * n) +
                __import__("pandas").to_timedelta([(i * 7) % (n or 1) for i in range(n)], unit="D")}[index["gen"]]
    return index


def make_array(col):
    import numpy as np
    import pandas as pd
    k, vals = col["kind"], expand_values(col)
    if k == "int":
        return np.array(vals, dtype=np.int64)
    if k == "float":
        return np.array([float("nan") if v is None else v for v in vals], dtype=np.float64)
    if k == "text":
        return pd.array(vals, dtype="str")
    if k == "bool":
        return np.array(vals, dtype=bool)
    if k == "datetime":
        return pd.array([pd.NaT if v is None else pd.Timestamp(v) for v in vals], dtype="datetime64[us]")
    raise InfraError("unknown column kind " + k)


def build(spec):
    import pandas as pd
    from pdtable import Table
    n = spec["nrows"]
    idx = pd.Index(expand_index(spec["index"], n)) if spec["index"] is not None else pd.RangeIndex(n)
    data = {}
    for c in spec["cols"]:
        arr = make_array(c)
        data[c["name"]] = pd.Series(arr, index=idx, dtype=arr.dtype)
    df = pd.DataFrame(data, index=idx)
    with warnings.catch_warnings():
        warnings.simplefilter("ignore")
        return Table(df, name=spec["name"], destinations=set(spec["dests"]), units=[c["unit"] for c in spec["cols"]])


def snapshot(t):
    """deep, value-level picture of a table (independent of the objects it was taken from)"""
    df = t.df
    return {"name": t.name, "dests": sorted(t.destinations), "index": toks(df.index.tolist()),
            "index_dtype": str(df.index.dtype),
            "cols": [{"name": str(nm), "unit": u, "vals": toks(df.iloc[:, j].tolist()), "dtype": str(df.dtypes.iloc[j])}
                     for j, (nm, u) in enumerate(zip(t.column_names, t.units))]}


def model_table(snap):
    return {"name": snap["name"], "dests": snap["dests"], "index": snap["index"],
            "cols": [{"name": c["name"], "unit": c["unit"], "vals": c["vals"]} for c in snap["cols"]]}


# ---------------------------------------------------------------- dispatcher argument

def build_to(spec, colnames):
    """case spec -> (python object passed as `to`, model encoding)"""
    k = spec["kind"]
    if k == "str":
        return spec["s"], {"kind": "str", "s": spec["s"]}
    if k in ("list", "tuple"):
        xs = list(spec["xs"])
        return (xs if k == "list" else tuple(xs)), {"kind": "seq", "xs": xs}
    if k == "dict":
        d = {kk: v for kk, v in spec["m"]}
        return d, {"kind": "dict", "m": [[kk, v] for kk, v in d.items()]}
    if k == "callable":
        d = {kk: v for kk, v in spec["m"]}
        if spec.get("once"):
            # a callable within its contract that is not idempotent: it ticks every name off a work list, so a
            # second request for the same name is answered None.  The requested unit is its (first) answer.
            asked = set()

            def f(name):
                if name in asked:
                    return None
                asked.add(name)
                return d.get(name)
        else:
            f = (lambda name: d.get(name))
        f.backing = d
        return f, {"kind": "fn", "m": [[nm, d.get(nm)] for nm in colnames]}
    if k == "other":
        import types
        # (a Mapping that is not a dict is outside ColumnUnitDispatcher: neither Sequence, Dict nor callable)
        return {"int": 5, "none": None, "set": {"a", "b"}, "float": 3.5,
                "mappingproxy": types.MappingProxyType({"a": "m", "b": "mm"})}[spec["what"]], {"kind": "other"}
    raise InfraError("unknown dispatcher kind " + k)


def freeze_to(to_obj):
    """value-level picture of the caller's dispatcher argument (dict entries in order, list elements, the state a
    callable closes over)"""
    if isinstance(to_obj, dict):
        return ["dict"] + [[k, v] for k, v in to_obj.items()]
    if isinstance(to_obj, (list, tuple)):
        return [type(to_obj).__name__] + list(to_obj)
    if callable(to_obj) and hasattr(to_obj, "backing"):
        return ["callable"] + [[k, v] for k, v in to_obj.backing.items()]
    if isinstance(to_obj, set):
        return ["set"] + sorted(to_obj)
    return [type(to_obj).__name__, repr(to_obj)]


# ---------------------------------------------------------------- the implementation under observation

def run_impl(case):
    """-> dict(before, after, result | exc, log, is_new)"""
    import pdtable
    t = build(case["table"])
    before = snapshot(t)
    cv = case["conv"]
    rec = conv_obj = None
    if cv["kind"] != "none":
        conv_obj = make_converter(cv["pure"])
        # earlier use of the same converter object (other requests on the same table, failing ones included)
        for w in case.get("warmup", []):
            try:
                with warnings.catch_warnings():
                    warnings.simplefilter("ignore")
                    t.convert_units(build_to(w, [c["name"] for c in before["cols"]])[0], Recorder(conv_obj))
            except Exception:
                pass
        rec = (FalsyRecorder if cv.get("falsy") else Recorder)(conv_obj, fail_at=cv.get("fail_at"),
                                                                badlen=cv.get("badlen"), ret=cv.get("ret"))
    to_obj, to_model = build_to(case["to"], [c["name"] for c in before["cols"]])
    old_default = pdtable.units.default_converter
    res = {"before": before, "to_model": to_model, "to_before": freeze_to(to_obj)}
    dec = Recorder(decoy) if cv.get("decoy_default") else None
    try:
        with warnings.catch_warnings():
            warnings.simplefilter("ignore")
            if dec is not None:
                # configuration: a DIFFERENT converter is installed as module default; the explicit one must win
                pdtable.units.default_converter = dec
                r = t.convert_units(to_obj, rec)
            elif cv.get("as_default"):
                pdtable.units.default_converter = rec
                r = t.convert_units(to_obj)
            elif rec is None:
                r = t.convert_units(to_obj)
            else:
                r = t.convert_units(to_obj, rec)
        res["is_new"] = (r is not t) and (getattr(r, "df", None) is not t.df)
        res["result_type"] = type(r).__name__
    except Exception as e:
        res["exc"] = type(e).__name__
        r = None
    finally:
        pdtable.units.default_converter = old_default
    if r is not None:
        try:
            res["result"] = snapshot(r)
        except Exception as e:       # convert_units returned, but what it returned cannot be read
            res["unreadable"] = type(e).__name__
            res["result"] = None
    res["after"] = snapshot(t)
    res["to_after"] = freeze_to(to_obj)
    res["log"] = rec.log if rec is not None else []
    res["decoy_log"] = dec.log if dec is not None else []
    # the SAME dispatcher object used again for further conversions of the same (unchanged) table: same outcome
    res["repeats"] = []
    for _ in range(case.get("repeat", 0) if rec is not None and dec is None and not cv.get("as_default") else 0):
        rec_i = Recorder(conv_obj, fail_at=cv.get("fail_at"), badlen=cv.get("badlen"), ret=cv.get("ret"))
        try:
            with warnings.catch_warnings():
                warnings.simplefilter("ignore")
                r_i = t.convert_units(to_obj, rec_i)
            o_i = {"result": snapshot(r_i)}
        except Exception as e:
            o_i = {"exc": type(e).__name__}
        o_i["log"] = [{k: v for k, v in e.items() if k != "nargs"} for e in rec_i.log]
        res["repeats"].append(o_i)
    if r is not None and res.get("result") is not None and res["is_new"] and res["result_type"] == "Table":
        try:
            with warnings.catch_warnings():
                warnings.simplefilter("ignore")
                probe_aliasing(t, r, res)
        except Exception as e:
            res["probe_error"] = type(e).__name__
    return res


def _edit_in_place(tab, tag):
    """header and cell edits through the public facade of ONE table object (dtype-preserving)"""
    import pandas as pd
    tab.destinations.add("__probe_" + tag)
    if len(tab.destinations) > 1:
        tab.destinations.discard(sorted(d for d in tab.destinations if not d.startswith("__probe_"))[0])
    tab.metadata.name = tab.name + "~" + tag
    names, units = tab.column_names, tab.units
    num = [nm for nm, u in zip(names, units) if u not in SPECIAL]
    if num:
        tab[num[-1 if tag == "orig" else 0]].unit = "probe_" + tag
    if names and len(tab.df):
        j = (len(names) - 1) if tag == "orig" else 0
        kind = tab.df.dtypes.iloc[j].kind
        new = {"i": 12345, "u": 12345, "f": 12345.5, "b": not bool(tab.df.iloc[0, j]), "M": pd.Timestamp("1970-01-02")}
        tab.df.iloc[0, j] = new.get(kind, "probe")


def probe_aliasing(t, r, res):
    """after the call: edit the returned table in place and look at the original; then edit the original in place
    and look at the returned table.  Neither may notice the other."""
    _edit_in_place(r, "res")
    res["orig_after_result_edit"] = snapshot(t)
    r_now = snapshot(r)
    _edit_in_place(t, "orig")
    res["result_after_orig_edit"] = [r_now, snapshot(r)]


# ---------------------------------------------------------------- oracle (from the property text)

def ref_targets(to_spec, cols):
    """per-column requested unit for the four forms the statement names; None = the form is outside the statement"""
    k = to_spec["kind"]
    if k == "str":
        if to_spec["s"] == "base":
            return [None if c["unit"] in SPECIAL else "__base__" for c in cols]
        return None
    if k in ("list", "tuple"):
        return list(to_spec["xs"]) if len(to_spec["xs"]) == len(cols) else None
    if k in ("dict", "callable"):
        d = {kk: v for kk, v in to_spec["m"]}
        return [d.get(c["name"]) for c in cols]
    return None


def oracle(case, obs, out):
    before, after = obs["before"], obs["after"]

    def fail(what, observed, expected, key):
        out.fail(what, case, observed, expected, key=key)

    # the original table is not modified — whatever happened
    if after != before:
        fail("the original table was modified by convert_units", after, before, "original_modified")
        return
    # … nor afterwards through the returned table (no shared header / cells), and vice versa
    if "orig_after_result_edit" in obs and obs["orig_after_result_edit"] != before:
        fail("the original table changed when the returned table was edited in place (shared state)",
             obs["orig_after_result_edit"], before, "alias:result->original")
        return
    if "result_after_orig_edit" in obs and obs["result_after_orig_edit"][0] != obs["result_after_orig_edit"][1]:
        fail("the returned table changed when the original was edited in place (shared state)",
             obs["result_after_orig_edit"][1], obs["result_after_orig_edit"][0], "alias:original->result")
        return
    if obs["to_after"] != obs["to_before"]:
        fail("convert_units changed the caller's dispatcher argument", obs["to_after"], obs["to_before"],
             "dispatcher_argument_modified")
        return
    first = {"exc": obs["exc"]} if "exc" in obs else {"result": obs.get("result")}
    first["log"] = [{k: v for k, v in e.items() if k != "nargs"} for e in obs["log"]]
    for n_rep, o_i in enumerate(obs.get("repeats", []), 2):
        if o_i != first and not obs.get("unreadable"):
            fail(f"conversion number {n_rep} with the same dispatcher object and the same table gives another outcome",
                 o_i.get("exc") or o_i.get("result"), first.get("exc") or first.get("result"), "repeat_differs")
            return
    if obs.get("decoy_log"):
        fail("the module default converter was consulted although a converter was passed explicitly",
             [[e["from"], e["to"]] for e in obs["decoy_log"]], [], "default_overrides_explicit")
        return
    cols = before["cols"]
    targets = ref_targets(case["to"], cols)
    cv = case["conv"]
    if targets is None or cv["kind"] == "none" or cv.get("badlen"):
        out.count("oracle:original_only")
        return
    if any(t in ("__origin__",) for t in targets) or (case["to"]["kind"] != "str" and "__base__" in targets):
        out.count("oracle:original_only")
        return   # per-column spellings: modelled, not part of the statement
    pure = REF[cv["pure"]]
    if obs.get("unreadable"):
        fail("convert_units returned a table whose units / values cannot be read", obs["unreadable"], "a Table",
             "unreadable:" + obs["unreadable"])
        return
    # every column is judged on its own; nothing is assumed about how often, in which order or in which grouping the
    # implementation consults the converter (the statement promises the content of the columns, not a call protocol)
    expected_cols, static_errors = [], set()
    for c, tgt in zip(cols, targets):
        if tgt is None or tgt == c["unit"]:
            expected_cols.append((c, None))
            continue
        if c["unit"] in SPECIAL:
            static_errors.add("UnitConversionNotDefinedError")      # refused
            expected_cols.append((c, None))
            continue
        args = ([untok(v) for v in c["vals"]], c["unit"]) + (() if tgt == "__base__" else (tgt,))
        try:
            import numpy as np
            vals, reported = pure(np.array(args[0], dtype=float if c["dtype"].startswith("float") else np.int64), *args[1:])
        except Exception as e:
            static_errors.add(type(e).__name__)                      # this conversion is not defined
            expected_cols.append((c, None))
            continue
        import pandas as pd
        # the same container the converter hands back (an empty list has no numeric dtype, a Series keeps its own)
        if cv.get("ret") == "series":
            vals = pd.Series(np.asarray(vals))
        elif cv.get("ret") in ("list", "tuple"):
            vals = (list if cv["ret"] == "list" else tuple)(np.asarray(vals).tolist())
        expected_cols.append((c, {"vals": toks(pd.Series(vals).tolist()),
                                  "dtype": str(pd.Series(vals).to_numpy().dtype),
                                  "unit": reported if tgt == "__base__" else tgt}))
    # failures the converter actually produced during the call (failure injection), whatever call it was
    observed_errors = {e["exc"] for e in obs["log"] if "exc" in e}
    possible = static_errors | observed_errors
    out.count("oracle:expects_" + ("error" if possible else "table"))
    if not possible and any(e is not None and e["unit"] in SPECIAL and c["unit"] not in SPECIAL
                            for c, e in expected_cols):
        out.count("oracle:numeric_column_relabelled_special")
    if possible:
        if "exc" not in obs:
            fail("a conversion failed / was refused but a table was returned", "table", sorted(possible),
                 "no_error:" + "+".join(sorted(possible)))
        elif obs["exc"] not in possible:
            fail("the caller did not get the error of a failing conversion", obs["exc"], sorted(possible),
                 "error_class:" + "+".join(sorted(possible)))
        return
    if "exc" in obs:
        fail("convert_units raised although every requested conversion is defined", obs["exc"], "table",
             "raised:" + obs["exc"])
        return
    r = obs["result"]
    if not obs["is_new"] or obs["result_type"] != "Table":
        fail("convert_units did not return a new Table", obs["result_type"], "new Table", "not_new")
        return
    if (r["name"], r["dests"], r["index"], r["index_dtype"]) != (before["name"], before["dests"], before["index"],
                                                                 before["index_dtype"]):
        fail("name / destinations / row index changed", [r["name"], r["dests"], r["index"]],
             [before["name"], before["dests"], before["index"]], "header_changed")
        return
    if [c["name"] for c in r["cols"]] != [c["name"] for c in cols]:
        fail("column names / order changed", [c["name"] for c in r["cols"]], [c["name"] for c in cols], "columns_changed")
        return
    for j, ((c, exp), got) in enumerate(zip(expected_cols, r["cols"])):
        if exp is None:
            if got != c:
                fail(f"untargeted column {c['name']!r} changed", got, c, "untargeted_changed")
                return
        else:
            if got["unit"] != exp["unit"]:
                fail(f"column {c['name']!r} does not carry the requested unit", got["unit"], exp["unit"], "unit_label")
                return
            if not same_toks(got["vals"], exp["vals"]):
                fail(f"column {c['name']!r} does not hold the converter's output row for row", got["vals"], exp["vals"],
                     "values")
                return
            if got["dtype"] != exp["dtype"]:
                fail(f"column {c['name']!r} does not have the data type of the converter's output", got["dtype"],
                     exp["dtype"], "dtype")
                return
            if cv["pure"] == "affine":
                back = affine_inverse([untok(v) for v in got["vals"]], "u1" if targets[j] == "__base__" else targets[j],
                                      c["unit"])
                import pandas as pd
                if not same_toks(toks(pd.Series(back).tolist()), toks([float(untok(v)) for v in c["vals"]])):
                    fail(f"column {c['name']!r}: converting back does not give the original values",
                         toks(pd.Series(back).tolist()), c["vals"], "inverse")
                    return


# ---------------------------------------------------------------- comparison with the model

OUT_OF_DOMAIN_OTHER = ("mappingproxy",)     # dispatcher kinds outside ColumnUnitDispatcher (Sequence | Dict | Callable)
MISS = "<oracle-miss>"


def compare(case, obs, ans, out):
    """implementation vs model.  The model converts the columns first to last; the statement fixes neither the order
    of work nor a priority between the errors of different columns, so: tables are compared in full; when the
    implementation raised, its exception must be the model's, or one that some column raises on its own in the model
    (`col_errors`); a converter call of the model that the implementation never made ("<oracle-miss>") is a mismatch
    only when the implementation returned a table."""
    if not isinstance(ans, dict) or "error" in ans or "res" not in ans:
        out.mismatch("driver error", case, {k: obs.get(k) for k in ("exc", "result")}, ans)
        return
    m = ans["res"]
    if obs.get("unreadable"):
        return          # reported by the oracle; there is no observation to compare
    if case["to"]["kind"] == "other" and case["to"].get("what") in OUT_OF_DOMAIN_OTHER:
        # outside the declared domain: what the code does with such a dispatcher is counted, not judged
        agree = (m == {"exc": obs["exc"]}) if "exc" in obs else ("table" in m)
        out.count("out_of_domain_dispatcher:" + ("agree" if agree else "disagree"))
        return
    if "exc" in obs:
        col_errors = set(ans.get("col_errors", [])) - {MISS}
        if m == {"exc": obs["exc"]}:
            pass
        elif "exc" in m and obs["exc"] in col_errors:
            out.count("correspondence:another_column's_error_first")
        elif "exc" in m and obs["exc"] in {e["exc"] for e in obs["log"] if "exc" in e}:
            # the converter itself raised this during the call (on whichever call): it reached the caller
            out.count("correspondence:converter_error_on_another_call")
        else:
            out.mismatch("convert_units: exception vs Lean model", case, {"exc": obs["exc"]},
                         dict(m, col_errors=sorted(col_errors)))
            return
    else:
        if "table" not in m:
            out.mismatch("convert_units: table vs Lean model", case, obs["result"], m)
            return
        mt, it = m["table"], model_table(obs["result"])
        ok = (mt["name"], mt["dests"], mt["index"]) == (it["name"], it["dests"], it["index"]) and \
            len(mt["cols"]) == len(it["cols"]) and all(
                a["name"] == b["name"] and a["unit"] == b["unit"] and same_toks(a["vals"], b["vals"])
                for a, b in zip(mt["cols"], it["cols"]))
        if not ok or m.get("ref") != 1:
            out.mismatch("convert_units: result table vs Lean model", case, it, m)
            return
    if ans.get("orig") != model_table(obs["after"]):
        out.mismatch("convert_units: original table afterwards vs Lean model", case, model_table(obs["after"]),
                     ans.get("orig"))


# ---------------------------------------------------------------- generator

NAMES = ["t", "tab", "é_1"]
# names that differ in letter case only / have inner blanks sit next to each other: a lookup that folds case or strips
# would hit the wrong column
COLNAMES = ["a", "b", "c", "d", "e", "col é", "A", "B", "a b", "A B", "Col É", "f", "g"]
COLNAMES = COLNAMES + ["k%d" % i for i in range(8)]
NUMS_INT = [0, 1, 2, 3, -4, 16, 1000, -1]
NUMS_FLOAT = [0.0, 1.0, 0.5, -3.0, 1.25, 1e6, None, 2.0, -0.0, 1024.0]
TS = ["2020-01-01T00:00:00", "1999-12-31T23:59:59", None]


def gen_table(rng, family):
    n = rng.choice([0, 1, 2, 3, 3, 4, 5])
    ncol = rng.choice([0, 1, 2, 2, 3, 3, 4, 5, 6, 8, 11, 14, 17])
    names = rng.sample(COLNAMES, ncol)
    cols = []
    for nm in names:
        kind = rng.choice(["int", "float", "float", "int", "text", "bool", "datetime"])
        if kind == "int":
            c = {"kind": "int", "unit": rng.choice(UNITS[family]), "values": [rng.choice(NUMS_INT) for _ in range(n)]}
        elif kind == "float":
            c = {"kind": "float", "unit": rng.choice(UNITS[family]), "values": [rng.choice(NUMS_FLOAT) for _ in range(n)]}
        elif kind == "text":
            c = {"kind": "text", "unit": "text", "values": [rng.choice(["x", "y", "", None]) for _ in range(n)]}
        elif kind == "bool":
            c = {"kind": "bool", "unit": "onoff", "values": [rng.choice([True, False]) for _ in range(n)]}
        else:
            c = {"kind": "datetime", "unit": "datetime", "values": [rng.choice(TS) for _ in range(n)]}
        if family == "pint" and kind in ("int", "float") and rng.random() < 0.35:
            c["unit"] = rng.choice(list(CASE_PARTNER))
        if kind in ("int", "float") and rng.random() < 0.08:
            c["unit"] = rng.choice(["gork", "nosuchunit", "Gork"])       # a source unit no converter knows
        c["name"] = nm
        cols.append(c)
    ik = rng.choice(["default", "default", "permuted", "offset", "strings", "dup", "floats", "dates"])
    index = {"default": None, "dates": {"gen": "dates"}, "permuted": rng.sample(range(n), n), "offset": list(range(10, 10 + n)),
             "strings": [f"r{i}" for i in rng.sample(range(n), n)], "dup": [7] * n,
             "floats": [i + 0.5 for i in range(n)]}[ik]
    return {"name": rng.choice(NAMES), "dests": rng.choice([["all"], ["x", "y"], ["x", "y", "z"], ["All", "all", "x ", "q", "r"], []]), "nrows": n,
            "index": index,
            "cols": cols, "index_kind": ik}


def unit_choice(rng, col, family):
    """a target for one column: None / same / another known unit / an unknown unit"""
    if col["unit"] in SPECIAL:
        return rng.choice([None, None, None, col["unit"], rng.choice(UNITS[family]), "text", "onoff"])
    if family == "pint" and col["unit"] in CASE_PARTNER and rng.random() < 0.6:
        return CASE_PARTNER[col["unit"]]           # the same letters in another case: a different unit
    r = rng.random()
    if r < 0.25:
        return None
    if r < 0.35:
        return col["unit"]
    if r < (0.70 if family == "ident" else 0.92):
        return rng.choice(UNITS[family])
    return rng.choice(BAD_UNITS[family])


def gen_to(rng, table, family):
    cols = table["cols"]
    form = rng.choice(["base", "base", "list", "list", "tuple", "dict", "dict", "callable", "callable", "str", "origin",
                       "other", "badlen", "percol"])
    if form == "base":
        return {"kind": "str", "s": "base"}
    if form == "origin":
        return {"kind": "str", "s": "origin"}
    if form == "str":
        # a str is a Sequence: wrong length -> ValueError, right length -> its characters are the targets
        if family == "affine" and cols and rng.random() < 0.6:
            return {"kind": "str", "s": "".join(rng.choice("pq") for _ in cols)}
        return {"kind": "str", "s": rng.choice(["mm", "m", "", "pq", "Base", "u1"])}
    if form in ("list", "tuple"):
        return {"kind": form, "xs": [unit_choice(rng, c, family) for c in cols]}
    if form == "badlen":
        xs = [unit_choice(rng, c, family) for c in cols]
        return {"kind": "list", "xs": xs[:-1] if (xs and rng.random() < 0.5) else xs + [None]}
    if form in ("dict", "callable"):
        m = [[c["name"], unit_choice(rng, c, family)] for c in cols if rng.random() < 0.7]
        if rng.random() < 0.5:
            m.insert(rng.randint(0, len(m)), ["no such column", rng.choice(UNITS[family])])
        # keys that are NOT column names but differ from one only in letter case or by surrounding / inner blanks:
        # superfluous names, to be ignored
        names = {c["name"] for c in cols}
        taken = {k for k, _ in m}
        for c in cols:
            if rng.random() < 0.35:
                near = rng.choice([c["name"].swapcase(), c["name"].upper(), " " + c["name"], c["name"] + " ",
                                   c["name"].replace(" ", "  ") + "\t"])
                if near not in names and near not in taken:
                    taken.add(near)
                    m.append([near, rng.choice(UNITS[family] + BAD_UNITS[family])])
        rng.shuffle(m)
        if form == "callable" and rng.random() < 0.3:
            return {"kind": form, "m": m, "once": True}
        return {"kind": form, "m": m}
    if form == "percol":
        # per-column spellings __base__ / __origin__ inside a positional list
        return {"kind": "list", "xs": [rng.choice([None, "__base__", "__base__", "__origin__", c["unit"]]) for c in cols]}
    return {"kind": "other", "what": rng.choice(["int", "none", "set", "float", "mappingproxy"])}


def gen_conv(rng, family):
    r = rng.random()
    if r < 0.62:
        extra = {"decoy_default": True} if rng.random() < 0.25 else {}
        if rng.random() < 0.3:
            extra["ret"] = rng.choice(["series", "list", "tuple"])       # the result in another container
        if rng.random() < 0.1:
            extra["falsy"] = True                                        # a converter object with len() == 0
        return dict({"kind": "pure", "pure": family}, **extra)
    if r < 0.80:
        return dict({"kind": "fail", "pure": family, "fail_at": rng.choice([0, 0, 1, 2, 3])},
                    **({"decoy_default": True} if rng.random() < 0.25 else {}))
    if r < 0.86:
        return {"kind": "badlen", "pure": family, "badlen": rng.choice(["short", "scalar"])}
    if r < 0.93:
        return {"kind": "default", "pure": family, "as_default": True}
    return {"kind": "none"}


def gen_case(rng, seed, idx, tier):
    family = rng.choice(["affine", "affine", "memo", "demo", "demo", "pint", "pint", "ident", "inplace"])
    table = gen_table(rng, family)
    to = gen_to(rng, table, family)
    conv = gen_conv(rng, family)
    if table["nrows"] == 0 and conv.get("badlen"):
        # pandas re-indexes a frame without rows to whatever length is assigned: outside the model (EXTRA)
        conv = {"kind": "pure", "pure": family}
    case = {"seed": seed, "index": idx, "family": family, "table": table, "to": to, "conv": conv}
    if to["kind"] in ("dict", "list", "callable") and rng.random() < 0.4:
        case["repeat"] = rng.choice([1, 2])
    if rng.random() < 0.3:
        # the converter object has served other requests on this table before (some of them failing)
        case["warmup"] = [gen_to(rng, table, family) for _ in range(rng.choice([1, 2]))]
        case["repeat"] = max(case.get("repeat", 0), 1)
    if to.get("once"):
        case.pop("repeat", None)       # the work-list callable is used up by one conversion
    return case


LADDER = [60, 63, 64, 65, 127, 128, 129, 255, 256, 257, 1000, 1023, 1024, 1025, 2047, 2048, 2049, 4095, 4096, 4097,
          8191, 8192, 8193, 12288, 16384, 20001]
LADDER_QUICK = [1025, 4096, 4097, 8192, 8193, 12288]     # always: above 1024, 4096 and 8192; exact multiples of 4096


def ladder_cases(rng, seed, tier):
    """long tables: every row of every converted column is compared by position with the direct converter result"""
    sizes = LADDER if tier == "thorough" else LADDER_QUICK + rng.sample([x for x in LADDER if x < 1025], 2)
    out = []
    for k, n in enumerate(sizes):
        family = ["affine", "inplace", "demo", "affine"][k % 4]
        u = {"affine": ("u1", "u2", "uk"), "inplace": ("m", "mm", "km"), "demo": ("mm", "m", "m")}[family]
        cols = [{"name": "a", "kind": "float", "unit": u[1], "values": {"seq": n}},
                {"name": "b", "kind": "int", "unit": u[2], "values": {"seq": n}},
                {"name": "c", "kind": "text", "unit": "text", "values": {"seq": n}}]
        table = {"name": "long", "dests": ["all"], "nrows": n, "index_kind": "ladder",
                 "index": rng.choice([None, {"gen": "rev"}, {"gen": "odd_even"}, {"gen": "strings"}]), "cols": cols}
        to = rng.choice([{"kind": "str", "s": "base"}, {"kind": "dict", "m": [["a", u[0]], ["b", u[0]]]},
                         {"kind": "list", "xs": [u[0], None, None]}, {"kind": "callable", "m": [["b", u[0]]]}])
        out.append({"seed": seed, "index": -1000 - k, "family": family, "table": table, "to": to,
                    "conv": {"kind": "pure", "pure": family}, "rows": n})
    return out


def fixed_cases(seed):
    """the shapes every run must contain (each model branch at least once)"""
    t = {"name": "t", "dests": ["all"], "nrows": 3, "index": [2, 0, 1], "index_kind": "permuted", "cols": [
        {"name": "a", "kind": "int", "unit": "u2", "values": [1, 2, 3]},
        {"name": "b", "kind": "float", "unit": "uh", "values": [1.5, None, 3.0]},
        {"name": "c", "kind": "text", "unit": "text", "values": ["x", None, "z"]},
        {"name": "d", "kind": "bool", "unit": "onoff", "values": [True, False, True]},
        {"name": "e", "kind": "datetime", "unit": "datetime", "values": [TS[0], None, TS[1]]}]}
    pure = {"kind": "pure", "pure": "affine"}
    tos = [{"kind": "str", "s": "base"}, {"kind": "str", "s": "origin"}, {"kind": "str", "s": "pq"},
           {"kind": "list", "xs": ["u1", "uk", None, None, None]}, {"kind": "tuple", "xs": ["u1", None, "text", "onoff", "datetime"]},
           {"kind": "list", "xs": [None, None, "u1", None, None]}, {"kind": "list", "xs": [None, None, None, None, "u1"]},
           {"kind": "list", "xs": ["u1"]}, {"kind": "dict", "m": [["a", "u1"], ["zz", "q"], ["b", None]]},
           {"kind": "callable", "m": [["b", "uk"]]}, {"kind": "other", "what": "int"},
           {"kind": "list", "xs": ["__base__", "__origin__", None, None, None]},
           {"kind": "dict", "m": [["a", "zz"]]}, {"kind": "dict", "m": [["d", "u1"]]}, {"kind": "dict", "m": []},
           {"kind": "callable", "m": []}, {"kind": "list", "xs": [None, None, None, None, None]},
           {"kind": "callable", "m": [["a", "u1"], ["b", "uk"]], "once": True}]
    out = []
    for to in tos:
        for cv in (pure, dict(pure, decoy_default=True), {"kind": "fail", "pure": "affine", "fail_at": 1}, {"kind": "none"},
                   {"kind": "default", "pure": "affine", "as_default": True},
                   {"kind": "badlen", "pure": "affine", "badlen": "short"}):
            out.append({"seed": seed, "index": -1 - len(out), "family": "affine", "table": copy.deepcopy(t),
                        "to": copy.deepcopy(to), "conv": dict(cv)})
    two = {"name": "t", "dests": ["all"], "nrows": 2, "index": ["r1", "r0"], "index_kind": "strings", "cols": [
        {"name": "a", "kind": "int", "unit": "p", "values": [8, 16]}, {"name": "b", "kind": "float", "unit": "q", "values": [0.5, None]}]}
    # a numeric column asked for a special unit with a converter that accepts it: relabelled (C06 holds; C15 matter)
    for to in ({"kind": "dict", "m": [["a", "text"]]}, {"kind": "list", "xs": ["onoff", "datetime"]},
               {"kind": "callable", "m": [["b", "text"]]}):
        out.append({"seed": seed, "index": -1 - len(out), "family": "ident", "table": copy.deepcopy(
            dict(two, cols=[dict(two["cols"][0], unit="m"), dict(two["cols"][1], unit="mm")])),
            "to": to, "conv": {"kind": "pure", "pure": "ident"}})
    for s in ("pq", "qp", "pp", "ab", "p", "base", "origin"):
        out.append({"seed": seed, "index": -1 - len(out), "family": "affine", "table": copy.deepcopy(two),
                    "to": {"kind": "str", "s": s}, "conv": dict(pure)})
    # pint: units that differ in letter case only (milli vs mega) requested through every explicit form
    pt = {"name": "t", "dests": ["all"], "nrows": 3, "index": [1, 2, 0], "index_kind": "permuted", "cols": [
        {"name": "a", "kind": "float", "unit": "mm", "values": [1.5, None, 2500.0]},
        {"name": "b", "kind": "int", "unit": "MPa", "values": [1, 2, 3]},
        {"name": "c", "kind": "float", "unit": "mW", "values": [0.5, 1e6, -3.0]}]}
    for to in ({"kind": "dict", "m": [["a", "Mm"], ["b", "mPa"], ["c", "MW"]]}, {"kind": "list", "xs": ["Mm", "mPa", "MW"]},
               {"kind": "callable", "m": [["a", "Mm"], ["c", "MW"]]}, {"kind": "tuple", "xs": ["Mm", None, None]}):
        out.append({"seed": seed, "index": -1 - len(out), "family": "pint", "table": copy.deepcopy(pt), "to": to,
                    "conv": {"kind": "pure", "pure": "pint"}, "repeat": 1})
    # a converter object with a history: a good request, then a request that must fail (source unit nobody knows /
    # inconvertible pair), then the very same failing request again and again — it must fail every time
    for fam, good, bad_unit, tgt in (("pint", "mm", "gork", "m"), ("pint", "mm", "kg", "m"), ("demo", "mm", "gork", "m"),
                                     ("memo", "u2", "gork", "u1"), ("affine", "u2", "zz", "u1")):
        ht = {"name": "t", "dests": ["all"], "nrows": 2, "index": [5, 3], "index_kind": "permuted", "cols": [
            {"name": "a", "kind": "float", "unit": bad_unit, "values": [1.5, 2.0]},
            {"name": "b", "kind": "float", "unit": good, "values": [1000.0, None]}]}
        for to in ({"kind": "dict", "m": [["a", tgt]]}, {"kind": "list", "xs": [tgt, None]},
                   {"kind": "callable", "m": [["a", tgt]]}):
            out.append({"seed": seed, "index": -1 - len(out), "family": fam, "table": copy.deepcopy(ht), "to": to,
                        "conv": {"kind": "pure", "pure": fam}, "repeat": 2,
                        "warmup": [{"kind": "dict", "m": [["b", tgt]]}]})
    # one mapping / list / callable object used for three consecutive conversions
    for to in ({"kind": "dict", "m": [["a", "u1"], ["zz", "q"], ["b", "uk"]]}, {"kind": "list", "xs": ["u1", "uk", None, None, None]},
               {"kind": "callable", "m": [["b", "uk"]]}, {"kind": "dict", "m": []}):
        out.append({"seed": seed, "index": -1 - len(out), "family": "affine", "table": copy.deepcopy(t), "to": to,
                    "conv": dict(pure), "repeat": 2})
    return out


# ---------------------------------------------------------------- run

def eval_case(case, out, ops, pend, model_ok, record=True):
    obs = run_impl(case)
    out.count("form:" + case["to"]["kind"] + (":" + case["to"]["s"] if case["to"].get("s") in ("base", "origin") else ""))
    out.count("conv:" + case["conv"]["kind"] + ":" + case["conv"].get("pure", "-"))
    if case["conv"].get("decoy_default"):
        out.count("config:other_default_converter_installed")
    if "orig_after_result_edit" in obs:
        out.count("aliasing_probed")
    if obs.get("repeats"):
        out.count("same_dispatcher_object_reused", len(obs["repeats"]))
    if case["family"] == "pint" and any(c["unit"] in CASE_PARTNER for c in case["table"]["cols"]):
        out.count("pint_case_only_units")
    if "probe_error" in obs:
        out.count("aliasing_probe_error:" + obs["probe_error"])
    out.count("index:" + case["table"].get("index_kind", "?"))
    if case.get("rows"):
        out.count("ladder_rows:%d" % case["rows"])
    out.count("outcome:" + obs.get("exc", "table"))
    out.count("converter_calls:" + str(min(len(obs["log"]), 4)))
    nontrivial = bool(obs["log"]) or obs.get("exc") in ("UnitConversionNotDefinedError",)
    if record:
        out.case(case, nontrivial=nontrivial)
    else:
        out.evaluations += 1
    oracle(case, obs, out)
    if model_ok:
        cv = case["conv"]
        log = [{k: v for k, v in e.items() if k != "nargs"} for e in obs["log"]]
        conv_j = None if (cv["kind"] == "none" or cv.get("as_default")) else log
        dflt_j = log if cv.get("as_default") else None
        if cv.get("decoy_default"):
            dflt_j = [{k: v for k, v in e.items() if k != "nargs"} for e in obs["decoy_log"]]
        ops.append({"op": "convert_units", "table": model_table(obs["before"]), "to": obs["to_model"],
                    "conv": conv_j, "dflt": dflt_j})
        pend.append((case, obs))


def run(tier, seed, model_ok, translator, search=False):
    out = Outcome()
    out.rule = ("tables of 0-17 columns x 0-5 rows, 0-5 destinations (case / blank variants) (int64 / float64 with NaN / str / bool / datetime columns; default, "
                "permuted, offset, string, duplicate, float and DatetimeIndex row labels) x dispatcher argument ('base', 'origin', "
                "other str, list, tuple, wrong-length list, dict with superfluous names and None values, callable, "
                "non-dispatcher objects, per-column __base__/__origin__) x converter (affine with known inverse, "
                "pdtable.demo convert_this, pdtable pint_converter; each also failing on its k-th call, returning a "
                "wrong length, returning a Series / list / tuple, being a falsy object, installed as default converter, passed explicitly while a DIFFERENT converter is the "
                "module default, or absent); a converter computing in place on the buffer it is handed; long tables on a "
                "size ladder (rows at and around 64 … 1024, 4096, 8192, 12288, 20001; every row compared by position); "
                "ONE converter object per case serving warm-up "
                "requests, the judged request and its repetitions (failing requests included: unknown source units, "
                "inconvertible pairs), a stateful custom converter; pint units differing in letter case only; the caller's dispatcher object compared with its snapshot "
                "and reused for up to three consecutive conversions; after every returned table the result and then the original are edited "
                "in place (destinations, name, a unit, a cell) and the other one is compared with its snapshot; a callable dispatcher that "
                "ticks names off a work list (second request for a name: None). Bulk conversion while reading (pdtable/utils.py): streams of 0-5 "
                "blocks (tables with repeated / case-variant names, metadata, directive, blank, template, TABLE blocks without value) through "
                "normalized_table_generator and — as CSV text with 5 separators — read_bundle_from_csv x table dispatcher (dict with superfluous "
                "and None entries, callable, empty dict, None, non-dispatchers of either truth value) x converter (pure, failing on its k-th call "
                "overall, module default, absent), judged by a reference loop over twin tables, identity of passed-through blocks, snapshots of "
                "the incoming tables and the Lean model of the generator. Non-trivial: the converter was called or a "
                "special column was refused.")
    rng = make_rng(seed, "C06")
    ops, pend = [], []
    n = 14000 if tier == "thorough" else 3300
    cases = fixed_cases(seed) + ladder_cases(make_rng(seed, "C06-ladder"), seed, tier) + \
        [gen_case(rng, seed, i, tier) for i in range(n)]
    for case in cases:
        eval_case(case, out, ops, pend, model_ok)
        if len(out.failures) >= 50:
            break
    # bulk conversion while reading (pdtable/utils.py): normalized_table_generator, read_bundle_from_csv
    from harness.props import c06_bulk
    brng = make_rng(seed, "C06-bulk")
    bulk_cases = c06_bulk.fixed_bulk_cases(seed) + \
        [c06_bulk.gen_bulk_case(brng, seed, i) for i in range(2400 if tier == "thorough" else 600)]
    for case in bulk_cases:
        c06_bulk.eval_bulk(case, out, ops, pend, model_ok)
        if len(out.failures) >= 50:
            break
    if model_ok:
        for (case, obs), ans in zip(pend, common.run_model(ops)):
            if case.get("bulk"):
                c06_bulk.compare_bulk(case, obs, ans, out)
            else:
                compare(case, obs, ans, out)
    if translator and sorted(translator.get("values", {}).get("inconvertible", [])) != sorted(SPECIAL):
        out.notes.append("INCONVERTIBLE_UNIT_INDICATORS in the source differs from the statement's text/onoff/datetime")
    return out


def replay(rep):
    inp = rep.get("input") or {}
    if inp.get("bulk"):
        from harness.props import c06_bulk
        out = Outcome()
        c06_bulk.eval_bulk(inp, out, [], [], False, record=False)
        if out.failures:
            return False, out.failures[0]["what"]
        return True, "property holds on this input"
    if "table" not in inp:
        return False, "replay file has no input (no-failing-input-found): " + str(rep.get("broken"))[:300]
    out = Outcome()
    eval_case(inp, out, [], [], False, record=False)
    if out.failures:
        return False, out.failures[0]["what"]
    return True, "property holds on this input"
