"""C17 — with a root folder set, nothing outside it is ever opened.

Correspondence (model = lean/PdtModel/Model/PathRes.lean through the compiled driver):
  * pathlib level: `PurePosixPath(s)`, `a / b`, `relative_to` vs `parsePath`, `join`, `relativeTo`;
  * `Path.resolve()` on the scratch tree vs `FS.resolve` over the observed symlink map (this is how the
    *specified* resolve of the abstract file system is compared with the real one);
  * function level: `FileSystemLoader._resolve_load_item_path` vs `resolveLoadItem` (accept / refuse,
    exception class, resolved path) for hostile specifications x source folder x root configuration;
  * API level: `load_files(roots, root_folder=root, issue_tracker=...)` fully consumed vs `loadFiles`
    over the observed world (folder listings, include lines): how the run ends and the ordered list of
    `open` / `listdir` events.
  * histories: within one process the scratch tree is edited between consecutive loads of the same
    specifications (folder/file <-> outward or inward symlink, symlink retargeted); each call is compared with
    the model over the symlink map and world observed at that call and judged by the oracle at that call.
  * roots that are not canonical as written (a tenth of the API cases) are outside the property's quantifier: only
    "nothing outside the real root is touched" is judged; that the code refuses everything is compared with the model
    while it does.  When several refusals apply to one specification, which of them fires first is not compared.
  * the API-level comparison is order-free (sub-multiset of the model's envelope `runAll`, end = done iff nothing
    reachable fails); the os.stat family and Path.resolve are wrapped in the watch window: stat-family calls outside
    Path.resolve() only on successfully checked paths, resolve() calls as in the model (a stat outside the root is a
    correspondence mismatch, not an oracle failure: C17 speaks of opening and listing).
Oracle (does not use the model): every `open` / `os.listdir` / `os.scandir` audit event of a run is on a path
whose real path is inside the root; a specification whose target (documented rule: `file:` ignored, leading
`/` or `\\` anchors at the root, else relative to the including folder; joined and resolved by pathlib) is
outside the root is reported as a LoadError; one whose target is inside is accepted and its tables come out.
"""
import logging
import os
import re
import shutil
import sys
import tempfile
import warnings
from pathlib import Path, PurePosixPath

from harness import common
from harness.common import Outcome, make_rng

logging.disable(logging.CRITICAL)

EXTRA = {
    "assumptions": [
        "the root folder is given as an absolute, resolved path (the property's quantifier); for any other root "
        "the code refuses every specification (theorem noncanonical_root_refuses_all, compared on the real code)",
        "POSIX pathlib semantics (CPython 3.12): a backslash is not a separator, exactly two leading slashes are kept",
        "the file system does not change between the containment check and the later open/listdir (no TOCTOU); "
        "races are outside every theorem here",
        "a symbolic-link loop makes Path.resolve() raise RuntimeError (not LoadError, the tracker is not told); nothing "
        "is opened in that case; modelled as such and outside the property's two clauses (DESIGN 13.5)",
        "the resolver model is CPython <= 3.12's algorithm; on a later interpreter the resolver / function / API "
        "correspondence is not run (oracle streams only) and the evidence says so",
        "no path component longer than NAME_MAX (a NUL character in a specification is in scope: ValueError of "
        "resolve() becomes a reported LoadError, modelled and generated)",
    ],
    "explanation": "contained / no_access_before_check / trace_inside / inside_loaded_normally / "
                   "outside_reported / noncanonical_root_refuses_all (Props/C17.lean) are proved for every "
                   "specification, source, symlink map, world and work-list over the abstract file system. "
                   "The loader theorems hold for every resolver; the on-disk reading needs the resolver law "
                   "'a fixpoint of resolve() is canonical', proved for the specified resolver (spec_resolver_lawful) and "
                   "for the faithful model of CPython 3.12's realpath (py312_lawful: when it gives up at a symlink loop "
                   "the plain walk over the same path never ends, so such a path cannot pass the final stat()). "
                   "PARTIAL in that the operating system is outside: both resolver models are compared with the real "
                   "Path.resolve() on the scratch tree each run, not proved of it.",
    "trusted_base": [
        "abstract file system: pathlib.Path.resolve / is_dir / iterdir / open are modelled (FS.resolve is specified "
        "in Lean and compared with the real Path.resolve() on the scratch tree each run)",
        "sys.addaudithook reports every open / os.listdir / os.scandir made from Python code; every event of a "
        "load is recorded wherever it points and judged by its real path, minus an allow-list of interpreter "
        "prefixes (sys.prefix, standard library, sys.path entries, site-packages, pdtable source, /proc /sys /dev) "
        "snapshotted before the first load",
    ],
}

NFD_CAFE, NFC_CAFE = "cafe\u0301", "caf\u00e9"
NFC_UBER, NFD_UBER = "\u00fcber", "u\u0308ber"
NFD_RESUME, NFC_RESUME = "re\u0301sume\u0301", "r\u00e9sum\u00e9"
HANGUL_JAMO, HANGUL_SYLLABLE = "\u1112\u1161\u11ab", "\ud55c"
STRASSE_ROOT = "stra\u00dfe"                     # casefold() == "strasse" == "STRASSE".casefold()
CASE_ROOTS = {"Project": ["project", "PROJECT"], STRASSE_ROOT: ["STRASSE", "strasse"], "root": ["Root", "ROOT"],
              "croot": ["CRoot"]}
FILE_PATTERN = re.compile(r"(?!~\$).*\.(csv|xlsx)$", re.IGNORECASE)   # make_loader default (compared via API runs)
DECOYS = ["/etc/passwd", "/etc/hostname"]
NONEX = ["nope", "ghost.csv", "zz", "nope", "ghost.csv", "zz", "*.csv", "?", "[a-z]*", "\U0001F600.csv", "a\x85b.csv", "x\u2028y", "\ufeffq.csv",
         "\U00020000", "v\x0bw\x1c.csv"]
# which model of `Path.resolve()` matches the running interpreter: CPython <= 3.12 gives up at a symlink loop the
# way `FS.py312Resolve` does; 3.13 changed that (no RuntimeError in non-strict mode) and has no model here
RESOLVER_MODEL = "py312" if sys.version_info[:2] <= (3, 12) else None
RESOLVE_FUEL = 600
LOOP_FUEL = 400

# --------------------------------------------------------------------------- audit hook (one per process)

_AUDIT = {"installed": False, "active": False, "prefix": None, "events": [], "cwd": "/", "allow": []}


class _Event(tuple):
    """(kind, path as given) with the real path at the time of the access in `.rp`"""
    rp = None


def _real_now(p):
    for _ in range(5):
        q = os.path.realpath(p)
        if q == p:
            break
        p = q
    return p


def _hook(event, args):
    st = _AUDIT
    if not st["active"]:
        return
    if event == "open" or event == "os.listdir" or event == "os.scandir":
        p = args[0] if args else None
        if p is None:
            p = "."
        if isinstance(p, int):
            return
        try:
            p = os.fsdecode(p)
        except Exception:      # noqa
            return
        ap = p if p.startswith("/") else st["cwd"].rstrip("/") + "/" + p
        # EVERY event of the window is recorded, wherever it points; the allow-list is applied afterwards.
        # The real path is taken NOW (the tree may be edited later, even during the same load)
        e = _Event(("open" if event == "open" else "listdir", ap))
        st["busy"] = True
        try:
            e.rp = _real_now(ap)
        except Exception:      # noqa
            e.rp = None
        finally:
            st["busy"] = False
        st["events"].append(e)


def _allow_list(T):
    """prefixes the interpreter itself may read during a load (lazy imports, byte code, package data), taken
    BEFORE the first watch window: the interpreter's prefixes, the standard library, every sys.path entry,
    site-packages, the pdtable source dir, the harness dir, /proc /sys /dev.  Nothing that is the scratch dir,
    inside it, or a parent of it is ever allow-listed."""
    import site
    import sysconfig
    cands = [sys.prefix, sys.base_prefix, sys.exec_prefix, sys.base_exec_prefix, "/proc", "/sys", "/dev",
             str(common.REPO), str(common.ROOT)]
    cands += [q for q in sys.path if q]
    cands += list(sysconfig.get_paths().values())
    try:
        cands += site.getsitepackages() + [site.getusersitepackages()]
    except Exception:      # noqa
        pass
    out = set()
    for c in cands:
        try:
            r = os.path.realpath(c)
        except Exception:      # noqa
            continue
        if r == "/" or inside(T, r) or inside(r, T):
            continue
        out.add(r)
    return sorted(out)


def _install_hook():
    if not _AUDIT["installed"]:
        sys.addaudithook(_hook)
        _AUDIT["installed"] = True


class _Events(list):
    """the open / listdir events of a window; `.stats` = paths handed to the os.stat family outside
    `Path.resolve()`, `.resolves` = arguments of the `Path.resolve()` calls"""

    def __init__(self):
        super().__init__()
        self.stats, self.resolves = [], []


STAT_FAMILY = ["stat", "lstat", "access", "readlink"]       # os.path.exists/isdir/isfile/getsize/islink go through these


class _Watch:
    """window in which (1) the audit hook records every open / listdir / scandir, (2) the os.stat family
    (os.stat, os.lstat, os.access, os.readlink — and with them os.path.exists / isdir / isfile / getsize / islink,
    Path.stat / is_dir / exists) is wrapped and every path handed to it OUTSIDE `Path.resolve()` is recorded,
    (3) `Path.resolve` is wrapped and its arguments recorded (what it stats and reads on the way is its business:
    the trusted part)"""

    def __init__(self, T):
        self.T = T

    def __enter__(self):
        import pathlib
        _AUDIT["prefix"] = self.T
        _AUDIT["cwd"] = os.getcwd()
        ev = _AUDIT["events"] = _Events()
        self.saved = {n: getattr(os, n) for n in STAT_FAMILY}
        self.saved_resolve = pathlib.Path.resolve
        st = _AUDIT
        st["in_resolve"] = 0

        def wrap(name, orig):
            def w(path, *a, **k):
                if st["active"] and not st["in_resolve"] and not st.get("busy") and not isinstance(path, int):
                    try:
                        q = os.fsdecode(path)
                        ev.stats.append(q if q.startswith("/") else st["cwd"].rstrip("/") + "/" + q)
                    except Exception:      # noqa
                        pass
                return orig(path, *a, **k)
            return w

        for n, orig in self.saved.items():
            setattr(os, n, wrap(n, orig))
        saved_resolve = self.saved_resolve

        def resolve(self_, *a, **k):
            if st["active"] and not st["in_resolve"]:
                ev.resolves.append(str(self_))
            st["in_resolve"] += 1
            try:
                return saved_resolve(self_, *a, **k)
            finally:
                st["in_resolve"] -= 1

        pathlib.Path.resolve = resolve
        _AUDIT["active"] = True
        return ev

    def __exit__(self, *a):
        import pathlib
        _AUDIT["active"] = False
        for n, orig in self.saved.items():
            setattr(os, n, orig)
        pathlib.Path.resolve = self.saved_resolve
        ev, allow, T = _AUDIT["events"], _AUDIT["allow"], self.T
        keep = []
        for e in ev:
            k, ap = e
            if not inside(ap, T):
                rp = e.rp or ap
                if not inside(rp, T) and any(inside(rp, a) for a in allow):
                    continue
            keep.append(e)
        ev[:] = keep
        def allowed(q):
            try:
                rq = os.path.realpath(q)
            except Exception:      # noqa  (e.g. an embedded NUL)
                return False
            # also the folders ABOVE an interpreter prefix (realpath of sys.prefix walks them), unless they are
            # above the scratch dir as well
            return any(inside(rq, a) or (inside(a, rq) and not inside(T, rq)) for a in allow)

        ev.stats = [q for q in ev.stats if inside(q, T) or not allowed(q)]


# --------------------------------------------------------------------------- scratch tree

def _table(name):
    return f"**{name};\nall\nx\n-\n1\n\n"


DEPTH_LADDER = [1, 2, 8, 31, 32, 33, 40, 64, 100]


def depth_ladder(T):
    """folder levels below `outside/dd` resp. `root/di`: the ladder, plus the levels at which the ABSOLUTE depth of
    the file (segments from `/`) is 31, 32, 33, 63, 64, 65"""
    base = len([x for x in T.split("/") if x]) + 2          # T/outside/dd  resp.  T/root/di
    extra = [a - base - 1 for a in (31, 32, 33, 63, 64, 65)] + [a - base for a in (31, 32, 33)]
    return sorted({k for k in DEPTH_LADDER + extra if 1 <= k <= 100})


def depth_spec(rng, T, rooted_only=True, up=None):
    """a specification aimed at a ladder depth: outside through `..`, through an absolute prefix, through a symlink;
    inside; deep inside and out again; deep outside and in again.  `up` = the `../` prefix that leads from the
    including folder to the root's parent (relative forms)"""
    k = rng.choice(depth_ladder(T))
    chain = "d/" * k
    leaf = rng.choice(["x.csv", "x.csv", ""])
    forms = ["/../outside/dd/" + chain + leaf, "/" + T + "/outside/dd/" + chain + leaf, "/lo%d/" % k + leaf,
             "/di/" + chain + leaf, "/di/" + "d/" * 40 + "lnout/secret.csv", "/di/" + "d/" * 40 + "lnout",
             "/lo40/lnin/a.csv", "/lo40/lnin/di/" + chain + leaf, "/di/" + "d/" * 33 + "lnrel/x.csv",
             "/di/" + chain + "../" * (k + 2) + "outside/dd/" + chain + leaf,
             "/../outside/dd/" + chain + "../" * k + "../../root/di/" + chain + leaf]
    if not rooted_only and up is not None:
        forms += [up + "outside/dd/" + chain + leaf, up + "root/di/" + chain + leaf, "di/" + chain + leaf]
    spec = rng.choice(forms)
    if spec[:1] == "/" and rng.random() < 0.15:
        spec = "\\" + spec[1:]
    if rng.random() < 0.2:
        spec = rng.choice(["file:", "FILE:"]) + spec
    return spec.rstrip("/") if spec.rstrip("/") else "/", ["depth", "depth:%d" % k, "has:.."]


def build_tree():
    """returns (T, tables: canonical csv path -> table name)"""
    T = os.path.realpath(tempfile.mkdtemp(prefix="pdt_c17_"))
    tables = {}

    def f(rel, extra=""):
        p = os.path.join(T, rel)
        os.makedirs(os.path.dirname(p), exist_ok=True)
        name = "t_" + re.sub(r"\W", "_", rel)
        if not rel.isascii():
            name = "t_u%d_" % len(tables) + re.sub(r"[^A-Za-z0-9]", "_", rel)
        with open(p, "w", encoding="utf-8") as fh:
            fh.write(_table(name) + extra)
        if rel.lower().endswith(".csv"):
            tables[p] = name
        return p

    f("root/a.csv")
    f("root/b.csv", "***include;\nsub/c.csv\n\n")
    f("root/UP.CSV")
    f("root/notes.txt")
    f("root/sub/c.csv")
    f("root/sub/deep/d.csv", "***include;\n/a.csv\n\n")
    f("root/sub/deep/e.csv")
    os.makedirs(os.path.join(T, "root/emptydir"))
    os.makedirs(os.path.join(T, "root/data.csv"))            # a folder whose name matches the file pattern
    f("root/data.csv/inner.csv")
    f("root/clean/g.csv")
    f("root/clean/h.csv", "***include;\n../a.csv\n\n")
    f("root2/e.csv")                                         # sibling whose name extends the root's name
    f("secret_top.csv")                                      # a file directly in the parent of the roots
    f("croot/m.csv")                                         # a second, symlink-free root (its folder listing completes)
    f("croot/sub/n.csv")
    f("croot/sub/m.csv")
    f("root2/m.csv")
    f("outside/u.csv")
    # depth ladder: one chain of 100 one-letter folders outside the root and one inside, a file at every ladder
    # depth; symlinks from the root to each outside ladder folder, from deep inside out and from deep outside in
    for k in depth_ladder(T):
        f("outside/dd/" + "d/" * k + "x.csv")
        f("root/di/" + "d/" * k + "x.csv")
    # case-variant siblings: next to each root a folder whose name differs from the root's only in letter case
    # (for non-ASCII: only after case folding), holding files; roots whose own name has mixed case
    f("Root/a.csv"); f("ROOT/a.csv"); f("CRoot/m.csv")
    f("Project/p.csv"); f("Project/sub/q.csv"); f("project/p.csv"); f("PROJECT/p.csv"); f("PROJECT/sub/q.csv")
    f(STRASSE_ROOT + "/p.csv"); f(STRASSE_ROOT + "/sub/q.csv"); f("STRASSE/p.csv"); f("strasse/p.csv")
    # non-ASCII names: the decomposed and the composed spelling of the same text are DIFFERENT directory entries on
    # Linux; one is a real folder / file inside the root, the other an outward symlink (both ways), also Hangul
    # conjoining jamo vs the precomposed syllable
    f("root/" + NFD_CAFE + "/u.csv")                          # real folder, decomposed  e + U+0301
    f("root/" + NFC_UBER + "/u.csv")                          # real folder, composed    U+00FC
    f("root/" + NFD_RESUME + ".csv")                          # real file, decomposed
    f("root/" + HANGUL_JAMO + "/u.csv")                       # real folder, conjoining jamo
    f("root/sub/" + NFC_CAFE + "/u.csv")                      # real folder, composed (its decomposed twin is the link)
    f("outside/secret.csv")
    f("outside/more/f.csv")
    f("outside/inc_out.csv", "***include;\nsecret.csv\n\n")
    ln = [
        ("root/ln_out_file.csv", os.path.join(T, "outside/secret.csv")),
        ("root/ln_out_dir", "../outside"),
        ("root/ln_out_abs", os.path.join(T, "outside")),
        ("root/ln_sibling", "../root2"),
        ("root/ln_in_dir", "sub"),
        ("root/ln_in_file.csv", "sub/c.csv"),
        ("root/ln_in_abs", os.path.join(T, "root/sub/deep")),
        ("root/ln_in_dots", "./sub/../sub//deep/."),
        ("root/sub/ln_up", ".."),
        ("root/sub/ln_upup", "../.."),
        ("root/sub/deep/ln_out_deep.csv", "../../../outside/secret.csv"),
        ("root/loop", "loop"),
        ("root/loopa", "loopb"),
        ("root/loopb", "loopa"),
        ("root/ln_chain", "ln_in_dir"),
        ("root/ln_out_chain", "ln_out_dir"),
        ("root/dangling", "nowhere.csv"),
        ("root/clean/ln_c.csv", "../sub/c.csv"),
        ("root/dangling_out", "../outside/nowhere"),
        ("outside/ln_back", "../root"),
        ("outside/ln_back_file.csv", "../root/a.csv"),
        ("rootlink", "root"),
    ] + [("root/lo%d" % k, os.path.join(T, "outside/dd/" + "d/" * k).rstrip("/")) for k in depth_ladder(T)] + [
        ("root/di/" + "d/" * 40 + "lnout", os.path.join(T, "outside")),
        ("root/di/" + "d/" * 33 + "lnrel", "../" * 35 + "outside/dd/" + "d/" * 33),
        ("outside/dd/" + "d/" * 40 + "lnin", os.path.join(T, "root")),
        ("root/ln_case", "../Root"), ("root/ln_case_file.csv", "../ROOT/a.csv"), ("Root/ln_back", "../root"),
        ("Project/ln_sib", "../project"), ("Project/ln_sib_file.csv", "../PROJECT/p.csv"),
        ("Project/ln_in", "sub"), ("project/ln_back", "../Project"), ("project/ln_back_file.csv", "../Project/p.csv"),
        (STRASSE_ROOT + "/ln_sib", "../STRASSE"), (STRASSE_ROOT + "/ln_sib_file.csv", "../strasse/p.csv"),
        ("STRASSE/ln_back", "../" + STRASSE_ROOT),
        ("root/" + NFC_CAFE, "../outside"),                   # composed twin of the real decomposed folder
        ("root/" + NFD_UBER, "../outside"),                   # decomposed twin of the real composed folder
        ("root/" + NFC_RESUME + ".csv", "../outside/secret.csv"),
        ("root/" + HANGUL_SYLLABLE, "../outside"),
        ("root/sub/" + NFD_CAFE, "../../outside"),
    ]
    for rel, target in ln:
        os.symlink(target, os.path.join(T, rel))
    return T, tables


def snapshot_fs(T, extra_paths=()):
    """the symlink map of the scratch tree (+ links on the way to the decoys), as the abstract FS"""
    links = []
    for d, dirs, files in os.walk(T, followlinks=False):
        for n in dirs + files:
            p = os.path.join(d, n)
            if os.path.islink(p):
                links.append([p, os.readlink(p)])
    for p in list(extra_paths):
        parts = [x for x in p.split("/") if x]
        cur = ""
        for x in parts:
            cur = cur + "/" + x
            if os.path.islink(cur):
                links.append([cur, os.readlink(cur)])
    return {"links": sorted(links), "cwd": os.getcwd(), "fuel": RESOLVE_FUEL}


_INC_CACHE = {}


def include_lines(path):
    """what pdtable's own reader extracts as include lines from a csv / xlsx file (observed, not modelled here)"""
    from pdtable import read_csv, read_excel, BlockType
    st = os.stat(path)
    key = (path, st.st_mtime_ns, st.st_size)
    if key not in _INC_CACHE:
        lines = []
        with warnings.catch_warnings():
            warnings.simplefilter("ignore")
            for bt, b in (read_excel(path) if path.lower().endswith(".xlsx") else read_csv(path)):
                if bt == BlockType.DIRECTIVE and b.name == "include":
                    lines.extend(str(x) for x in b.lines)
        _INC_CACHE[key] = lines
    return _INC_CACHE[key]


def snapshot_world(T):
    """what is where, for the model: folders, readable files, other files, and what each location pushes.
    The deep chain below `outside/dd` is left out: it is outside every root used, so the model (which refuses
    such paths before looking at them) never asks about it — any disagreement still shows as a mismatch."""
    dirs, files, unsup, entries = [], [], [], []
    skip = T + "/outside/dd/d"
    for d, ds, fs in os.walk(T, followlinks=False):
        if inside(d, skip):
            ds[:] = []
            continue
        if not os.path.islink(d):
            dirs.append(d)
            names = [n for n in os.listdir(d) if FILE_PATTERN.match(n)]
            if names:
                entries.append([d, names])
        for n in fs:
            p = os.path.join(d, n)
            if os.path.islink(p):
                continue
            if Path(p).suffix.lower() in (".csv", ".xlsx"):
                files.append(p)
                inc = include_lines(p)
                if inc:
                    entries.append([p, inc])
            else:
                unsup.append(p)
    return {"dirs": dirs, "files": files, "unsupported": unsup, "entries": entries}


def world_plus(base, created):
    """the world after the files `created` were added to a tree whose snapshot is `base`"""
    if not created:
        return base
    folders = {os.path.dirname(p) for p in created}
    entries = [e for e in base["entries"] if e[0] not in folders and e[0] not in created]
    for d in sorted(folders):
        names = [n for n in os.listdir(d) if FILE_PATTERN.match(n)]
        if names:
            entries.append([d, names])
    for p in created:
        inc = include_lines(p)
        if inc:
            entries.append([p, inc])
    return {"dirs": base["dirs"], "files": base["files"] + list(created), "unsupported": base["unsupported"],
            "entries": entries}


# --------------------------------------------------------------------------- hostile-path grammar

def walk_segments(rng, start, n):
    """random walk over the real tree from directory `start` (follows what is really there)"""
    cur, segs = start, []
    for i in range(n):
        r = rng.random()
        children = []
        if cur and _AUDIT["prefix"] and inside(cur, _AUDIT["prefix"]) and os.path.isdir(cur):
            try:
                children = sorted(os.listdir(cur))
            except OSError:
                children = []
        if r < 0.10:
            s = "."
        elif r < 0.30:
            s = ".."
        elif r < 0.35:
            s = ""
        elif r < 0.41 or not children:
            s = rng.choice(NONEX)
        else:
            if i == n - 1 and rng.random() < 0.5:
                cs = [c for c in children if c.lower().endswith(".csv")] or children
                s = rng.choice(cs)
            else:
                s = rng.choice(children)
        segs.append(s)
        if s in (".", ""):
            continue
        if s == "..":
            cur = os.path.dirname(cur) if cur else cur
        else:
            cur = os.path.realpath(os.path.join(cur, s)) if cur else cur
    return segs


def gen_spec(rng, T, src_folder):
    """one specification from the hostile grammar; returns (spec, tags)"""
    root = T + "/root"
    tags = []
    form = rng.choice(["rooted", "rooted", "rooted", "relative", "relative", "abs", "dslash_abs", "decoy", "plain"])
    n = rng.choice([1, 1, 2, 2, 3, 3, 4, 5, 7])
    if form == "relative" and src_folder is None:
        form = "rooted"
    if form == "rooted":
        body = "/".join(walk_segments(rng, root, n))
        spec = "/" + body
    elif form == "relative":
        spec = "/".join(walk_segments(rng, src_folder, n))
    elif form == "plain":
        spec = rng.choice(["/a.csv", "/sub/c.csv", "/sub", "/", "/sub/deep/d.csv", "/b.csv", "/UP.CSV", "/data.csv",
                           "/ln_in_file.csv", "/ln_in_dir/c.csv", "/emptydir", "/notes.txt", "", ".", "..", "/..",
                           "/clean", "/clean/", "\\clean", "file:/clean", "/clean/../clean/h.csv", "/sub/deep",
                           "/" + NFD_CAFE + "/u.csv", "/" + NFC_CAFE + "/u.csv", "/" + NFD_CAFE, "/" + NFC_CAFE,
                           "/" + NFC_UBER + "/u.csv", "/" + NFD_UBER + "/u.csv", "file:/" + NFC_UBER,
                           "/" + NFD_RESUME + ".csv", "/" + NFC_RESUME + ".csv",
                           "/" + HANGUL_JAMO + "/u.csv", "/" + HANGUL_SYLLABLE + "/u.csv", "\\" + HANGUL_JAMO,
                           "/sub/" + NFC_CAFE + "/u.csv", "/sub/" + NFD_CAFE + "/u.csv",
                           "/sub/../" + NFD_CAFE + "/../" + NFC_UBER + "/u.csv",
                           "/../Root/a.csv", "/../ROOT", "/ln_case/a.csv", "/ln_case", "/ln_case_file.csv",
                           "file:/../Root/a.csv", "\\../ROOT/a.csv", "/../project/p.csv", "/../PROJECT",
                           "/../PROJECT/sub/q.csv", "/ln_sib/p.csv", "/ln_sib", "/ln_sib_file.csv", "/../STRASSE/p.csv",
                           "/../strasse", "/../CRoot/m.csv", "/p.csv", "/sub/q.csv", "/ln_in/q.csv",
                           "/../Project/p.csv", "/../" + STRASSE_ROOT + "/p.csv",
                           "/../outside/*.csv", "/*.csv", "/sub/?.csv", "/[ab].csv", "/../outside/*", "/**/secret.csv",
                           "file:/../outside/s*.csv", "/ln_out_dir/*.csv", "/../*/secret.csv", "*.csv", "../*"])
    elif form in ("abs", "dslash_abs"):
        base = rng.choice([root, root + "/sub", T + "/outside", T + "/root2", T, T + "/rootlink", "/",
                           T + "/Root", T + "/PROJECT", T + "/Project"])
        tail = walk_segments(rng, base if os.path.isdir(base) else None, max(1, n - 1))
        spec = (base.rstrip("/") + "/" + "/".join(tail))
        if form == "dslash_abs":
            spec = rng.choice(["/", "\\", "//", "/./"]) + spec
    else:
        d = rng.choice(DECOYS)
        spec = rng.choice(["/" + d, "\\" + d, "/" + "../" * 12 + d[1:], "../" * 14 + d[1:], "/" + d[1:], d,
                           "/ln_out_dir/" + "../" * 12 + d[1:], "///" + d[1:]])
    tags.append(form)
    # separator mutations
    if rng.random() < 0.35:
        out = []
        for i, ch in enumerate(spec):
            r = rng.random()
            if ch == "/" and r < 0.12:
                out.append("//"); tags.append("dslash")
            elif ch == "/" and r < 0.20 and i > 0:
                out.append("\\"); tags.append("bslash")
            else:
                out.append(ch)
        spec = "".join(out)
    if spec[:1] == "/" and rng.random() < 0.2:
        spec = "\\" + spec[1:]; tags.append("lead_bslash")
    if rng.random() < 0.1:
        spec += "/"; tags.append("trail")
    if rng.random() < 0.3:
        pre = rng.choice(["file:", "FILE:", "File:", "fIlE:", "file:file:", "file://", "fİle:", "file", "files:"])
        spec = pre + spec; tags.append("proto:" + pre)
    if rng.random() < 0.04:
        i = rng.randrange(0, len(spec) + 1)
        spec = spec[:i] + "\0" + spec[i:]; tags.append("nul")
    for t in ("..", "ln_", "loop", "rootlink", "root2", "outside"):
        if t in spec:
            tags.append("has:" + t)
    if not spec.isascii():
        tags.append("non-ascii")
    return spec, sorted(set(tags))


PARTIAL_KEY = "C17:partial-resolve-after-symlink-loop"
NUL_KEY = "escape:ValueError:nul-in-specification"


def intended(root, spec, src):
    """target of a specification by the documented rule, computed with pathlib only (never pdtable, never
    the model).  Returns ("none",) | ("loop",) | ("path", canonical_str) | ("partial", str): the last when
    Path.resolve() itself returned a path that still has a symlink component (CPython <= 3.12 does that after
    meeting a symlink loop) — then there is no trustworthy target and only the access oracle applies
    | ("invalid",): the operating system rejects the text as a path (embedded NUL): must be refused"""
    s = spec[5:] if spec[:5].lower() == "file:" else spec
    if s[:1] in ("/", "\\"):
        base = PurePosixPath(root) / s[1:]
    elif src is None:
        return ("none",)
    else:
        base = PurePosixPath(src) / s
    try:
        r = str(Path(base).resolve())
    except RuntimeError:
        return ("loop",)
    except ValueError:
        return ("invalid",)          # e.g. an embedded NUL character: denotes no location at all
    parts = [x for x in r.split("/") if x]
    cur = ""
    for x in parts:
        cur += "/" + x
        if os.path.islink(cur):
            return ("partial", r)
    return ("path", r)


def real_target(p):
    """where the operating system ends up when it opens `p` (iterated: realpath may stop at a loop)"""
    for _ in range(5):
        try:
            q = os.path.realpath(p)
        except ValueError:
            # e.g. an embedded NUL: no path the operating system accepts — certainly not one inside the root
            return "\x00<not-a-path>"
        if q == p:
            break
        p = q
    return p


def inside(p, root):
    return p == root or p.startswith(root.rstrip("/") + "/")


def tok(s, T):
    """scratch-dir independent form of a string / nested structure (the directory name differs between runs)"""
    if isinstance(s, str):
        return s.replace(T, "$T").replace(os.path.basename(T), "$B")
    if isinstance(s, (list, tuple)):
        return [tok(x, T) for x in s]
    if isinstance(s, dict):
        return {k: tok(v, T) for k, v in s.items()}
    return s


def untok(s, T):
    if isinstance(s, str):
        return s.replace("$T", T).replace("$B", os.path.basename(T))
    if isinstance(s, (list, tuple)):
        return [untok(x, T) for x in s]
    if isinstance(s, dict):
        return {k: untok(v, T) for k, v in s.items()}
    return s


# --------------------------------------------------------------------------- implementation calls

def impl_resolve(root, spec, src, src_none_folder=False):
    from pdtable.io.load._loaders import FileSystemLoader, LocationFolder
    from pdtable.io.load import LoadError
    from pdtable.table_origin import LoadItem, NullLocationFile
    loader = FileSystemLoader(file_reader=None, folder_reader=None,
                              root_folder=None if root is None else Path(root))
    if src is None:
        source = NullLocationFile("x", "x") if src_none_folder else None
    else:
        source = LocationFolder(local_folder_path=Path(src), load_specification=None)
    try:
        with warnings.catch_warnings():
            warnings.simplefilter("ignore")
            p = loader._resolve_load_item_path(LoadItem(spec, source))
        return {"ok": str(p)}
    except LoadError:
        return {"exc": "LoadError"}
    except Exception as e:      # noqa
        return {"exc": type(e).__name__}


def write_xlsx_include(path, table_name, lines):
    """a workbook whose only sheet holds one table and one include directive"""
    import openpyxl
    wb = openpyxl.Workbook()
    ws = wb.active
    for row in [["**" + table_name], ["all"], ["x"], ["-"], [1], [None], ["***include"]] + [[l] for l in lines] + [[None]]:
        ws.append(row)
    wb.save(path)
    wb.close()


def mem_loader(lines):
    """a `mem:` protocol loader: its location has no local folder (`local_folder_path is None`), its reader opens
    nothing and yields one include directive with the given lines"""
    from pdtable import BlockType
    from pdtable.auxiliary import Directive
    from pdtable.io.load._protocol import LoadProxy
    from pdtable.table_origin import NullLocationFile, LocationSheet, TableOrigin

    class MemReader:
        def read(self, load_location, orchestrator):
            block = LocationSheet(file=load_location, sheet_name=None).make_location_block(row=0)
            yield BlockType.DIRECTIVE, Directive("include", list(lines), TableOrigin(input_location=block))

    class MemLoader:
        def resolve(self, load_item, orchestrator):
            return LoadProxy(load_location=NullLocationFile("mem", "mem:" + load_item.specification),
                             reader=MemReader())

    return MemLoader()


def impl_load(T, root_arg, roots, raising, protocol_loaders=None, after_first_table=None):
    from pdtable import load_files, BlockType
    from pdtable.io.load import LoadError
    from pdtable.table_origin import InputIssueTracker, InputError

    class Collect(InputIssueTracker):
        def __init__(self):
            self.lst = []

        def add_issue(self, input_issue):
            self.lst.append(input_issue)

        @property
        def issues(self):
            return self.lst

    tracker = None if raising else Collect()
    tables, refused = [], []

    def note(iss):
        if isinstance(getattr(iss, "issue", None), LoadError) and iss.load_item is not None:
            src = iss.load_item.source
            folder = None if src is None or src.local_folder_path is None else str(src.local_folder_path)
            refused.append([iss.load_item.specification, folder])

    with _Watch(T) as events:
        try:
            with warnings.catch_warnings():
                warnings.simplefilter("ignore")
                for bt, b in load_files(roots, root_folder=root_arg, issue_tracker=tracker,
                                        additional_protocol_loaders=protocol_loaders):
                    if bt == BlockType.TABLE:
                        tables.append(b.name)
                        if after_first_table is not None and len(tables) == 1:
                            _AUDIT["active"] = False     # the consumer edits the tree while the load is suspended
                            try:
                                after_first_table()
                            finally:
                                _AUDIT["active"] = True
            end = "done"
        except LoadError:
            end = {"exc": "LoadError"}
        except InputError as e:
            end = {"exc": "InputError"}
            note(e.args[0] if e.args else None)
        except (FileNotFoundError, NotADirectoryError):
            end = {"exc": "FileNotFoundError"}
        except Exception as e:      # noqa
            end = {"exc": type(e).__name__}
    if tracker is not None:
        for i in tracker.lst:
            note(i)
    return end, events, tables, refused


# --------------------------------------------------------------------------- the run

def check_lower_assumption(out):
    """`spec.lower().startswith('file:')` is modelled with ASCII lower-casing: no other code point may lower
    to text that could take part in matching `file:`"""
    bad = []
    for c in range(128, sys.maxunicode + 1):
        lo = chr(c).lower()
        if lo != chr(c) and set(lo) & set("file:") and c != 0x130:
            bad.append(hex(c))
    if "fİle:x".lower().startswith("file:"):
        bad.append("U+0130 matches")
    if bad:
        out.mismatch("str.lower assumption of stripProto", {"codepoints": bad}, bad, [])
    out.count("lower_table_checked", 1)


def run(tier, seed, model_ok, translator, search=False):
    out = Outcome()
    out.rule = ("hostile-path grammar: random walks over the real scratch tree (segments from existing names incl. "
                "symlinks pointing outward/inward/looping/dangling, '.', '..', '', missing names) in root-anchored, "
                "relative, absolute-prefix, double-slash-absolute and decoy (/etc/passwd) forms, mutated with doubled "
                "slashes, backslashes, trailing slash and file:/FILE:/… prefixes; x placement (root item, include in a "
                "root-level file, include in a nested file, include reached through a symlinked folder) x root "
                "configuration x tracker kind; plus histories in one process: the same specifications re-loaded while the "
                "tree is edited between loads (folder/file <-> outward or inward symlink, symlink retargeted), every "
                "call judged and compared with the tree as it is at that call. Non-trivial: the specification contains at least one hostile element "
                "('..', symlink, absolute prefix, doubled/back slash, protocol prefix) or is refused; distinct by "
                "(level, placement, root configuration, specification with the scratch dir abstracted).")
    thorough = tier == "thorough"
    n_parse = 8000 if thorough else 1500
    n_fn = 40000 if thorough else 4000
    n_api = 6000 if thorough else 500
    n_hist = 150 if thorough else 14
    rng = make_rng(seed, "C17")
    _install_hook()
    import pdtable  # noqa  (imports happen before the audit window: the import system lists sys.path folders)
    import pdtable.io.load._loaders  # noqa
    check_lower_assumption(out)
    exp_ls = "re.compile('/|\\\\\\\\')"
    got = (translator.get("values", {}).get("loader_consts") or {})
    if got.get("_LEADING_SLASH") != exp_ls or got.get("ignore_protocol") != "file:":
        out.notes.append(f"translator: loader constants changed: {got}")
    old_cwd = os.getcwd()
    T, tables = build_tree()
    _AUDIT["prefix"] = T
    _AUDIT["allow"] = _allow_list(T)
    ops, pend = [], []
    try:
        root = T + "/root"
        os.chdir(T)
        fs = snapshot_fs(T, DECOYS)
        _pathlib_cases(rng, T, n_parse, ops, pend, out)
        if RESOLVER_MODEL is None:
            out.notes.append("no model of Path.resolve() for Python %d.%d: the resolver, function-level and API-level "
                             "correspondence is NOT run on this interpreter; the oracle streams are"
                             % sys.version_info[:2])
            model_ok = False
        else:
            _realpath_cases(rng, T, fs, n_parse // 3, ops, pend, out)
        _function_cases(rng, T, seed, fs, n_fn, ops, pend, out, model_ok)
        os.chdir(old_cwd)
        fs = snapshot_fs(T, DECOYS)
        _api_cases(rng, T, tables, seed, fs, n_api, ops, pend, out, model_ok)
        _history_cases(T, seed, n_hist, ops, pend, out, model_ok)
        _shared_loader_dict_cases(T, tables, seed, n_hist, ops, pend, out, model_ok)
        if model_ok:
            answers = common.run_model(ops)
            for (what, case, impl, post), ans in zip(pend, answers):
                if isinstance(ans, dict) and "error" in ans:
                    out.mismatch("driver error: " + what, case, impl, ans)
                    continue
                try:
                    m = post(ans, impl) if post else ans
                except TypeError:
                    m = post(ans)
                if m != impl:
                    out.mismatch(what, case, impl, m)
    finally:
        os.chdir(old_cwd)
        shutil.rmtree(T, ignore_errors=True)
    return out


def _pathlib_cases(rng, T, n, ops, pend, out):
    """PurePosixPath parsing / join / relative_to vs the model"""
    alpha = ["/", "/", "/", ".", ".", "a", "b", "\\", "..", "file:", " "]
    fixed = ["", ".", "/", "//", "///", "////a", "//a", "///a", "/a//b/", "a/./b", "./a", "a/.", "a/..", "..", "/..",
             "\\a", "a\\b", "/\\a", "//a/../b", ".//", "/./a", "/.//./a/", "a//", "//.", "//./a", "/.a", "..a", "a..",
             "...", "/.../", "./..", "../.", " /a", "/ /a"]
    strings = list(fixed)
    for _ in range(n):
        L = rng.choice([1, 2, 3, 4, 5, 6, 8])
        strings.append("".join(rng.choice(alpha) for _ in range(L)))
    for s in strings:
        p = PurePosixPath(s)
        impl = {"anchor": len(p.anchor), "segs": list(p.parts[1:] if p.anchor else p.parts), "str": str(p),
                "abs": p.is_absolute()}
        ops.append({"op": "pathres_parse", "s": s})
        pend.append(("PurePosixPath(s) vs parsePath", {"s": s}, impl, None))
    out.count("pathlib_parse_strings", len(strings))
    for _ in range(n // 2):
        a, b = rng.choice(strings), rng.choice(strings)
        p = PurePosixPath(a) / b
        impl = {"anchor": len(p.anchor), "segs": list(p.parts[1:] if p.anchor else p.parts), "str": str(p),
                "abs": p.is_absolute()}
        ops.append({"op": "pathres_join", "a": a, "b": b})
        pend.append(("PurePosixPath(a) / b vs join", {"a": a, "b": b}, impl, None))
        try:
            PurePosixPath(a).relative_to(PurePosixPath(b))
            rel = True
        except ValueError:
            rel = False
        ops.append({"op": "pathres_relative_to", "p": a, "root": b})
        pend.append(("relative_to vs relativeTo", {"p": a, "root": b}, rel, None))
        # prefixes are the interesting positive cases
        q = PurePosixPath(a)
        if q.parts:
            k = rng.randrange(0, len(q.parts) + 1)
            pre = str(PurePosixPath(*q.parts[:k])) if k else "."
            try:
                q.relative_to(pre)
                rel = True
            except ValueError:
                rel = False
            out.count("relative_to:" + str(rel))
            ops.append({"op": "pathres_relative_to", "p": a, "root": pre})
            pend.append(("relative_to vs relativeTo", {"p": a, "root": pre}, rel, None))
    out.count("pathlib_join_pairs", n // 2)


def _real_resolve(p):
    try:
        return str(Path(p).resolve())
    except RuntimeError:
        return {"exc": "RuntimeError"}
    except ValueError:
        return {"exc": "ValueError"}


def _realpath_cases(rng, T, fs, n, ops, pend, out):
    """`Path.resolve()` on the scratch tree vs the specified `FS.resolve` (cwd = T)"""
    starts = [T, T + "/root", T + "/root/sub", T + "/root/sub/deep", T + "/outside"]
    for i in range(n):
        st = rng.choice(starts)
        segs = walk_segments(rng, st if os.path.isdir(st) else None, rng.choice([1, 2, 3, 4, 6, 9]))
        if rng.random() < 0.25:
            p = "/".join(segs) or "."                    # relative to cwd
        else:
            p = rng.choice(["", "/", "//"]) + st + "/" + "/".join(segs)
        if rng.random() < 0.05:
            i = rng.randrange(0, len(p) + 1)
            p = p[:i] + "\0" + p[i:]
        impl = _real_resolve(p)
        out.count("realpath:impl:" + (impl["exc"] if isinstance(impl, dict) else "ok"))
        ops.append({"op": "pathres_realpath", "fs": fs, "p": p})
        pend.append(("Path.resolve() vs FS.py312Resolve (CPython 3.12 algorithm)", {"p": tok(p, T)}, impl,
                     lambda a: a["py312"]))
        # law: whenever the *specified* resolve finds no symlink loop, the real one returns the same path
        ops.append({"op": "pathres_realpath", "fs": fs, "p": p})
        pend.append(("Path.resolve() vs the specified FS.resolve (no-loop domain)", {"p": tok(p, T)}, impl,
                     lambda a, impl=impl, out=out: (out.count("realpath:spec-loop-domain") or impl)
                     if isinstance(a["spec"], dict) else (out.count("realpath:spec-agrees-domain") or a["spec"])))


ROOT_CFGS = ["canonical"] * 7 + ["none", "trailing", "dotted", "symlink_alias", "dotdot", "dslash", "relative",
                                 "inner_link", "sub", "canon_project", "canon_project", "canon_strasse",
                                 "case_alias"]
CANON_ROOTS = {"canonical": "/root", "trailing": "/root", "dotted": "/root", "canon_project": "/Project",
               "canon_strasse": "/" + STRASSE_ROOT}


def make_root(kind, T):
    return {
        "canonical": T + "/root", "none": None, "trailing": T + "/root/", "dotted": T + "/./root/.",
        "symlink_alias": T + "/rootlink", "dotdot": T + "/root/sub/..", "dslash": "/" + T + "/root",
        "relative": "root", "inner_link": T + "/root/ln_in_dir", "sub": T + "/root/sub",
        "canon_project": T + "/Project", "canon_strasse": T + "/" + STRASSE_ROOT,
        "case_alias": T + "/PROJECT/../Project",          # not canonical as written: refuses everything
    }[kind]


def _function_cases(rng, T, seed, fs, n, ops, pend, out, model_ok):
    srcs = [None, T + "/root", T + "/root/sub", T + "/root/sub/deep", T + "/root/emptydir", T + "/outside",
            "root/sub", T + "/root/ln_in_dir"]
    for idx in range(n):
        rng = make_rng(seed, f"C17:fn:{idx}")
        rk = rng.choice(ROOT_CFGS)
        src = rng.choice(srcs[:5]) if rng.random() < 0.85 else rng.choice(srcs)
        if rk in ("canon_project", "canon_strasse", "case_alias"):
            src = rng.choice([None, make_root(rk if rk != "case_alias" else "canon_project", T),
                              make_root(rk if rk != "case_alias" else "canon_project", T) + "/sub"])
        if idx % 40 == 7:
            spec, tags = depth_spec(rng, T, rooted_only=src is None)
        else:
            spec, tags = gen_spec(rng, T, None if src is None else os.path.realpath(src))
        null_folder = src is None and rng.random() < 0.2
        case = {"level": "function", "seed": seed, "index": idx, "root_cfg": rk, "root": tok(make_root(rk, T), T),
                "spec": tok(spec, T), "src": tok(src, T), "null_folder": null_folder, "tags": tags}
        _exec_function(T, fs, case, out, ops, pend, model_ok)


def _exec_function(T, fs, case, out, ops, pend, model_ok):
    """one function-level case, from its record alone (cwd must be the scratch dir): the real
    `_resolve_load_item_path`, the oracle, and the model operation"""
    rk, tags = case["root_cfg"], case.get("tags", [])
    root = make_root(rk, T)
    spec, src, null_folder = untok(case["spec"], T), untok(case["src"], T), case.get("null_folder", False)
    with _Watch(T) as events:
        impl = impl_resolve(root, spec, src, null_folder)
    key = ("ok" if "ok" in impl else impl["exc"])
    out.count("fn:" + rk.split("_")[0] + ":" + key)
    for t in tags:
        out.count("tag:" + t)
    hostile = bool(tags and set(tags) - {"plain", "rooted", "relative"}) or "exc" in impl
    out.case(case, nontrivial=hostile)
    # ---- oracle
    if events:
        out.fail("_resolve_load_item_path opened or listed something", case, events, [], key="fn:access")
    if rk in CANON_ROOTS:
        canon_root = T + CANON_ROOTS[rk]
        want = intended(canon_root, spec, src if src is None else os.path.abspath(src))
        if "ok" in impl:
            rp = real_target(impl["ok"])
            if not inside(rp, canon_root):
                known = want[0] == "partial"
                out.count("fn:escape" + (":after-loop" if known else ""))
                if not known or out.dist["fn:escape:after-loop"] <= 3:
                    out.fail("accepted specification resolves outside the root", case,
                             [tok(impl["ok"], T), tok(rp, T)], "LoadError",
                             key=PARTIAL_KEY if known else "fn:escape")
            elif want[0] == "path" and want[1] != impl["ok"]:
                out.fail("accepted specification resolved to another path than its target", case,
                         tok(impl["ok"], T), tok(want[1], T), key="fn:wrong-target")
        if want[0] == "path" and inside(want[1], canon_root) and "ok" not in impl:
            out.fail("specification whose target is inside the root was refused", case, impl,
                     tok(want[1], T), key="fn:refused-inside")
        if (want[0] in ("none", "invalid") or (want[0] == "path" and not inside(want[1], canon_root))) \
                and impl != {"exc": "LoadError"}:
            out.fail("specification whose target is outside the root (or is no path at all) was not a "
                     "LoadError", case, {k: tok(v, T) for k, v in impl.items()}, "LoadError",
                     key=NUL_KEY if want[0] == "invalid" else "fn:not-refused")
        out.count("want:" + want[0] + (":in" if want[0] == "path" and inside(want[1], canon_root) else
                                       ":out" if want[0] == "path" else ""))
        case["want"] = want[0]
    if model_ok:
        ops.append({"op": "pathres_resolve_item", "resolver": RESOLVER_MODEL, "root": root, "spec": spec, "src": src, "fs": fs})
        def post(a, rec):
            # accepted path / exception class as in the model; no stat-family access outside Path.resolve(); the
            # Path.resolve() calls are among the model's (when several refusals apply, which one fires first — and so
            # whether the second resolve() is still made — is not compared)
            from collections import Counter
            m_res = Counter(e[1] for e in a["trace"] if e[0] == "resolve")
            ok = a["res"] == rec["res"] and not rec["stats"] and not (Counter(rec["resolves"]) - m_res) and \
                ("ok" not in rec["res"] or Counter(rec["resolves"]) == m_res)
            return rec if ok else {"res": a["res"], "stats": [], "resolves": sorted(m_res.elements())}

        pend.append(("_resolve_load_item_path vs resolveLoadItem (result, Path.resolve() calls, no other stat-family "
                     "access)", case, {"res": impl, "stats": list(events.stats), "resolves": list(events.resolves)},
                     post))


PLACEMENTS = ["root_item", "root_item", "include_root", "include_root", "include_nested", "include_nested",
              "include_via_link", "default_roots", "folder_then_include", "folder_then_include", "folder_then_item",
              "include_root_folder_then_hostile", "include_xlsx", "include_mem", "case_sibling", "case_sibling",
              "depth", "depth", "empty_roots"]

# specifications aimed at entries directly in the PARENT of the root folder (file and folder), and deeper ones;
# `$T` is replaced by the scratch directory.  Relative forms are for a file at the top level of the root.
PARENT_TARGETS_ROOTED = ["/../secret_top.csv", "FILE:/../secret_top.csv", "\\../secret_top.csv", "/./../secret_top.csv",
                         "/..//secret_top.csv", "/../outside", "/../outside/", "file:/../outside", "/../root2",
                         "/../root2/e.csv", "/../outside/secret.csv", "/sub/../../secret_top.csv", "/$T/secret_top.csv",
                         "/$T/outside", "/../croot/../secret_top.csv", "/../rootlink", "/../root", "/../root/a.csv"]
PARENT_TARGETS_RELATIVE = ["../secret_top.csv", "file:../secret_top.csv", "..//secret_top.csv", "./../secret_top.csv",
                           "../outside", "../outside/", "../root2", "sub/../../secret_top.csv", "../outside/secret.csv",
                           "../root2/e.csv", "../croot/../outside", "../root/a.csv"]


def _impl_record(end, events, root_arg=None):
    # Path.resolve() of the root folder itself (as written, or its real path) is nobody's business: dropped
    roots = set() if root_arg is None else {str(root_arg), str(Path(root_arg)), os.path.realpath(str(root_arg))}
    return {"end": end, "events": [[k, q] for k, q in events], "stats": [q for q in events.stats if q not in roots],
            "resolves": [q for q in events.resolves if q not in roots]}


def _load_verdict(out):
    """ORDER-FREE comparison of one fully consumed load with the model (returns the post-processor for the
    driver's answer: the implementation's own record when consistent, a diagnosis otherwise).  The order in which
    a folder's children or the work-list are taken is not part of C17; what is compared is
      * open / listdir events: a sub-multiset of the model's envelope (everything reachable, `runAll`), equal to
        it when nothing reachable fails;
      * the end: `done` iff nothing reachable fails, else one of the exception classes the envelope meets;
      * `Path.resolve()` calls: a sub-multiset of the envelope's;
      * os.stat-family calls outside `Path.resolve()`: only on paths the envelope has checked successfully
        (the `stat` clause of no_access_before_check / trace_inside).
    Whether the exact order also agrees with the model's LIFO run is counted, not judged."""
    from collections import Counter

    def post(a, impl):
        ev_all = Counter((e[0], e[1]) for e in a["all_trace"] if e[0] in ("open", "listdir"))
        ev_impl = Counter((k, q) for k, q in impl["events"])
        why = []
        if not a.get("all_complete", True):
            why.append("model envelope ran out of fuel")
        if ev_impl - ev_all:
            why.append("events outside the model's envelope: " + str(sorted((ev_impl - ev_all).elements())[:4]))
        errs = set(a["all_errors"])
        if not errs:
            if impl["end"] != "done":
                why.append("ended in an exception although nothing reachable fails in the model")
            elif ev_impl != ev_all:
                why.append("events missing: " + str(sorted((ev_all - ev_impl).elements())[:4]))
        elif not (isinstance(impl["end"], dict) and impl["end"].get("exc") in errs):
            why.append("end %r is none of the exceptions the model meets %s" % (impl["end"], sorted(errs)))
        res_all = Counter(e[1] for e in a["all_trace"] if e[0] == "resolve")
        res_impl = Counter(impl["resolves"])
        if res_impl - res_all:
            why.append("Path.resolve() calls the model does not make: " + str(sorted((res_impl - res_all).elements())[:4]))
        checked = {e[1] for e in a["all_trace"] if e[0] == "check" and e[2]}
        bad = [q for q in impl["stats"] if q not in checked]
        if bad:
            why.append("os.stat-family access (outside Path.resolve) on a path without successful check: " + str(bad[:4]))
        exact = (a["end"] == impl["end"] and
                 [e[:2] for e in a["trace"] if e[0] in ("open", "listdir")] == impl["events"])
        out.count("order:" + ("as-model-LIFO" if exact else "other-order-or-envelope"))
        if why:
            return {"why": why, "model_end": a["end"], "model_errors": sorted(errs),
                    "model_events": sorted(ev_all.elements())[:12]}
        return impl
    return post


def _judge_load(out, case, T, root, spec, planted_src, raising, end, events, got_tables, refused, tables):
    """the property itself on one fully consumed load_files call (no use of the model): judged with the tree
    as it is right after the call (the harness never edits the tree while a load is running)"""
    reported = [spec, planted_src] in refused
    # ---- oracle 1: nothing outside the root is opened or listed
    want = ("none",) if planted_src == "unplantable" else intended(root, spec, planted_src)
    case["want"] = want[0]
    for ev in events:
        k, p = ev
        rp = getattr(ev, "rp", None) or real_target(p)
        if not inside(rp, root):
            known = want[0] == "partial"
            out.count("api:outside-access" + (":after-loop" if known else ""))
            if not known or out.dist["api:outside-access:after-loop"] <= 3:
                out.fail(f"{k} on a path outside the root folder", case, [k, tok(p, T), tok(rp, T)],
                         "no access outside " + tok(root, T),
                         key=PARTIAL_KEY if known else "api:outside-access")
            break
    # ---- oracle 2: outside => reported LoadError; inside => loaded normally
    if planted_src != "unplantable":
        if want[0] in ("none", "invalid") or (want[0] == "path" and not inside(want[1], root)):
            ok = (end == {"exc": "InputError" if raising else "LoadError"}) and reported
            if not ok:
                out.fail("specification whose target is outside the root (or is no path at all) was not reported "
                         "as a load error",
                         case, {"end": end, "refused": [[tok(a, T), tok(b, T)] for a, b in refused]},
                         "LoadError reported and raised",
                         key=NUL_KEY if want[0] == "invalid" else "api:not-refused")
            out.count("api:want-out")
        elif want[0] == "path":
            tgt = want[1]
            out.count("api:want-in")
            if reported:
                out.fail("specification whose target is inside the root was refused", case,
                         {"end": end}, tok(tgt, T), key="api:refused-inside")
            elif end == "done" or (raising and end == {"exc": "InputError"}):
                exp_tabs = []
                if os.path.isfile(tgt) and tgt.lower().endswith(".csv"):
                    exp_tabs = [tables[tgt]] if tgt in tables else []
                elif os.path.isdir(tgt):
                    exp_tabs = [tables[os.path.join(tgt, c)] for c in os.listdir(tgt)
                                if os.path.join(tgt, c) in tables and os.path.isfile(os.path.join(tgt, c))
                                and not os.path.islink(os.path.join(tgt, c))]
                if end == "done":
                    missing = [t for t in exp_tabs if t not in got_tables]
                    if missing:
                        out.fail("tables of a specification inside the root did not come out", case,
                                 {"missing": missing, "got": got_tables}, exp_tabs, key="api:not-loaded")
        else:
            out.count("api:want-" + want[0])


def _api_cases(rng, T, tables, seed, fs, n, ops, pend, out, model_ok):
    _WORLD_BASE.clear()
    for idx in range(n):
        rng = make_rng(seed, f"C17:api:{idx}")
        placement = rng.choice(PLACEMENTS)
        if idx == 0:
            placement = "witness"
        raising = rng.random() < 0.2
        root = T + ("/croot" if placement in ("folder_then_include", "folder_then_item",
                                              "include_root_folder_then_hostile") else "/root")
        case_root = rng.choice(sorted(CASE_ROOTS))
        if placement == "case_sibling":
            root = T + "/" + case_root
        if placement in ("folder_then_include", "include_root_folder_then_hostile"):
            # these runs load some file twice (as listed child and as item): a raising tracker would stop at the
            # duplicate report before the planted specification is reached
            raising = False
        root_as = "str" if rng.random() < 0.6 else "PosixPath"
        csv_files, xlsx_files = [], []          # [path, content] / [path, table name, include lines]
        protocol, mem_lines, plant_file = None, None, None

        def inc_csv(path, name, lines):
            csv_files.append([path, _table(name) + "***include;\n" + "\n".join(lines) + "\n\n"])

        if placement in ("folder_then_include", "include_root_folder_then_hostile"):
            # state carried across the items of ONE load: the root folder itself is an item first, a hostile
            # specification aimed at the root's parent comes later, from a file at the top level of the root
            spec = rng.choice(PARENT_TARGETS_ROOTED + PARENT_TARGETS_RELATIVE).replace("$T", T)
            tags = ["parent-target", "has:.."]
            inc = os.path.join(root, f"inc{idx}.csv")
            benign = rng.choice(["m.csv", "/sub/n.csv", "/sub", "sub"])
            if placement == "folder_then_include":
                lines = rng.choice([[spec], [benign, spec], [spec, benign]])
                roots = rng.choice([None, ["/"], ["/."], ["\\"], ["file:/"], ["/sub", "/"], ["/", "/sub"]])
            else:
                # the including file is the root item; its last include line (processed first) is the root folder
                lines = [spec, rng.choice(["/", ".", "/sub/..", "\\"])]
                roots = [f"/inc{idx}.csv"]
            inc_csv(inc, f"t_inc{idx}", lines)
            planted_src, plant_file = root, inc
        elif placement == "case_sibling":
            # a sibling of the root whose name differs only in letter case (or only before case folding) is
            # OUTSIDE the root on a case-sensitive file system: aimed at from a root item, from an include in a
            # top-level or nested file, directly or through an outward symlink; also the way back in
            sib = rng.choice(CASE_ROOTS[case_root])
            fname = {"root": "a.csv", "croot": "m.csv"}.get(case_root, "p.csv")
            where = rng.choice(["root_item", "include_root", "include_nested"])
            rooted = ["/../" + sib + "/" + fname, "/../" + sib, "file:/../" + sib + "/" + fname,
                      "\\../" + sib + "/" + fname, "/" + T + "/" + sib + "/" + fname, "/../" + sib + "/../" + sib,
                      "/../" + sib + "/../" + case_root + "/" + fname, "/" + fname, "/sub/../../" + sib]
            if case_root in ("Project", STRASSE_ROOT):
                rooted += ["/ln_sib/p.csv", "/ln_sib", "/ln_sib_file.csv", "/ln_sib/ln_back/p.csv"]
            if case_root == "root":
                rooted += ["/ln_case/a.csv", "/ln_case", "/ln_case_file.csv", "/ln_case/ln_back/a.csv"]
            tags = ["case-sibling", "has:..", where]
            if where == "root_item":
                spec = rng.choice(rooted)
                roots, planted_src = [spec], None
            else:
                folder = root if where == "include_root" else root + "/sub"
                up = "../" if where == "include_root" else "../../"
                spec = rng.choice(rooted + [up + sib + "/" + fname, up + sib, "file:" + up + sib + "/" + fname,
                                            up + sib + "/../" + case_root + "/" + fname])
                inc = os.path.join(folder, f"inc{idx}.csv")
                inc_csv(inc, f"t_inc{idx}", [spec])
                roots = [f"/inc{idx}.csv" if where == "include_root" else f"/sub/inc{idx}.csv"]
                planted_src, plant_file = folder, inc
        elif placement == "depth":
            # depth ladder: targets 1 .. 100 folder levels deep, outside and inside, as root item and as include
            where = rng.choice(["root_item", "include_root", "include_nested"])
            folder = {"root_item": None, "include_root": root, "include_nested": root + "/sub/deep"}[where]
            up = {"root_item": None, "include_root": "../", "include_nested": "../../../"}[where]
            spec, tags = depth_spec(rng, T, rooted_only=folder is None, up=up)
            tags = tags + [where]
            if folder is None:
                roots, planted_src = [spec], None
            else:
                inc = os.path.join(folder, f"inc{idx}.csv")
                inc_csv(inc, f"t_inc{idx}", [spec])
                roots = [f"/inc{idx}.csv" if where == "include_root" else f"/sub/deep/inc{idx}.csv"]
                planted_src, plant_file = folder, inc
        elif placement == "include_xlsx":
            # the including location is a sheet block of a workbook at the top level of the root
            spec, tags = gen_spec(rng, T, root)
            if any(ord(ch) < 32 for ch in spec):          # openpyxl refuses control characters in a cell
                spec, tags = "/ln_out_dir/secret.csv", ["has:ln_", "xlsx-fallback"]
            inc = os.path.join(root, f"inc{idx}.xlsx")
            benign = rng.choice(["/sub/c.csv", "a.csv", "/UP.CSV"])
            lines = [benign, spec] if rng.random() < 0.7 else [spec, benign]
            xlsx_files.append([inc, f"t_inc{idx}", lines])
            tags = tags + ["xlsx"]
            roots = [f"/inc{idx}.xlsx"]
            planted_src, plant_file = root, inc
        elif placement == "include_mem":
            # the including location has no local folder (`local_folder_path is None`): a `mem:` protocol source
            spec, tags = gen_spec(rng, T, None)
            benign = rng.choice(["/sub/c.csv", "/a.csv", "/UP.CSV", "file:/b.csv"])
            mem_lines = [benign, spec] if rng.random() < 0.7 else [spec, benign]
            protocol = "mem"
            tags = tags + ["mem"]
            roots = ["mem:x"]
            planted_src = "unplantable" if spec.lower().startswith("mem:") else None
        elif placement == "folder_then_item":
            # two root items: a folder is processed first (it is LAST in the list: pop() takes from the end),
            # then a specification aimed at that folder's parent
            spec = rng.choice(PARENT_TARGETS_ROOTED).replace("$T", T)
            tags = ["parent-target", "has:.."]
            roots = [spec, rng.choice(["/", "/", "/.", "/sub", "/sub/..", "file:/"])]
            planted_src = None
        elif placement == "root_item":
            spec, tags = gen_spec(rng, T, None)
            roots = [spec] if rng.random() < 0.7 else ["/a.csv", spec]
            planted_src = None
            if rng.random() < 0.15:
                protocol = "empty"                # additional_protocol_loaders={} : an empty, caller-owned dict
        elif placement == "empty_roots":
            # empty (not None) containers: nothing is to be loaded, nothing may be touched
            spec, tags, roots, planted_src = "", ["empty-roots"], [], "unplantable"
            protocol = rng.choice([None, "empty"])
        elif placement == "witness":
            # the Lean negation witness (Props/C17.lean `prefix_escape_witness`) replayed on the real code
            spec, tags, planted_src = "/loop/../ln_out_dir/secret.csv", ["witness", "has:loop"], None
            roots = [spec]
        elif placement == "default_roots":
            spec, tags, roots, planted_src = "/", ["default"], None, None
        else:
            folder = {"include_root": root, "include_nested": root + "/sub/deep",
                      "include_via_link": root + "/sub/deep"}[placement]
            spec, tags = gen_spec(rng, T, folder)
            if not spec.strip() or ";" in spec or "\n" in spec:
                spec, tags = "/a.csv", ["plain"]
            inc = os.path.join(folder, f"inc{idx}.csv")
            benign = rng.choice(["/sub/c.csv", "e.csv" if folder != root else "a.csv", "/UP.CSV"])
            lines = [benign, spec] if rng.random() < 0.7 else [spec, benign]
            inc_csv(inc, f"t_inc{idx}", lines)
            if placement == "include_root":
                roots = [f"/inc{idx}.csv"]
            elif placement == "include_nested":
                inc_csv(os.path.join(root, f"top{idx}.csv"), f"t_top{idx}", [f"sub/deep/inc{idx}.csv"])
                roots = [f"/top{idx}.csv"]
            else:
                roots = [f"/ln_in_abs/inc{idx}.csv"]        # the including file is reached through a symlinked folder
            planted_src, plant_file = folder, inc
        root_kind, roots_as_path = None, False
        if root == T + "/root" and placement != "witness" and rng.random() < 0.12:
            root_kind = rng.choice(["trailing", "dotted", "symlink_alias", "dotdot", "dslash", "relative",
                                    "symlink_alias", "dotdot", "dslash", "relative"])
        if roots and protocol != "mem" and rng.random() < 0.2:
            roots_as_path = True                  # root items handed over as Path objects
        x = {"root_kind": root_kind, "roots_as_path": roots_as_path,
             "root": root, "root_as": root_as, "raising": raising, "roots": roots, "spec": spec,
             "planted_src": planted_src, "plant_file": plant_file, "csv": csv_files, "xlsx": xlsx_files,
             "protocol": protocol, "mem_lines": mem_lines}
        case = {"level": "api", "seed": seed, "index": idx, "placement": placement, "spec": tok(spec, T),
                "roots": tok(roots, T), "raising_tracker": raising, "root_as": root_as, "tags": tags,
                "x": tok(x, T)}
        _exec_api(T, tables, fs, case, out, ops, pend, model_ok)


_WORLD_BASE = {}


def _exec_api(T, tables, fs, case, out, ops, pend, model_ok):
    """one API-level case from its record alone: write the including files, run `load_files` fully consumed under
    the audit hook, judge, queue the model operation, remove the files again"""
    x = untok(case["x"], T)
    root, roots, spec, raising = x["root"], x["roots"], x["spec"], x["raising"]
    planted_src, tags, placement = x["planted_src"], case.get("tags", []), case.get("placement", "?")
    kind = x.get("root_kind")
    root_txt = make_root(kind, T) if kind else root          # the root as written by the caller
    noncanon = kind is not None and kind not in ("trailing", "dotted")
    root_arg = root_txt if x["root_as"] == "str" else Path(root_txt)
    impl_roots = roots
    if x.get("roots_as_path") and roots and all(str(Path(r)) == r for r in roots if r != spec):
        # (companions of the planted specification keep their meaning only if str(Path(r)) == r: `file:/` would
        # become `file:`)
        impl_roots = [Path(r) for r in roots]
        eff = [str(q) for q in impl_roots]                   # what load_files makes of them: str(Path(...))
        if spec in roots:
            spec = eff[roots.index(spec)]
        roots = eff
    protocol_loaders = {"mem": mem_loader(x["mem_lines"])} if x["protocol"] == "mem" else \
        ({} if x["protocol"] == "empty" else None)
    created = []
    old_cwd = os.getcwd()
    if model_ok and T not in _WORLD_BASE:      # the tree is static during the API stream apart from `created`
        _WORLD_BASE[T] = snapshot_world(T)
    try:
        for path, content in x["csv"]:
            with open(path, "w", encoding="utf-8", newline="") as fh:
                fh.write(content)
            created.append(path)
        for path, name, lines in x["xlsx"]:
            write_xlsx_include(path, name, lines)
            created.append(path)
        if x["plant_file"] is not None and spec not in include_lines(x["plant_file"]):
            out.count("api:not-plantable")
            planted_src = "unplantable"
        if kind == "relative":
            os.chdir(T)                           # a relative root means something only relative to a cwd
            fs = snapshot_fs(T, DECOYS) if fs is not None else None
        end, events, got_tables, refused = impl_load(T, root_arg, impl_roots, raising, protocol_loaders)
        evs = [[k, p] for k, p in events]
        out.count("api:" + placement + ":" + (end if isinstance(end, str) else end["exc"]))
        if kind:
            out.count("api:root-as-written:" + kind)
        if impl_roots is not roots and roots:
            out.count("api:roots-as-Path")
        hostile = bool(set(tags) - {"plain", "rooted", "relative", "default"}) or end != "done" or noncanon
        out.case(case, nontrivial=hostile)
        code_refuses_all = True
        if noncanon:
            # a root that is not canonical as written lies outside the property's quantifier: the only judgement is
            # that nothing outside the REAL root is touched (`root` is the real root).  That today's code refuses
            # everything (theorem noncanonical_root_refuses_all) is compared with the model only while it still does.
            planted_src = "unplantable"
            code_refuses_all = (not len(events)) and not events.stats and \
                (end in ({"exc": "LoadError"}, {"exc": "InputError"}) or roots == [])
            out.count("api:noncanonical-root:" + ("refuses-all" if code_refuses_all else "works-with-it"))
        _judge_load(out, case, T, root, spec, planted_src, raising, end, events, got_tables, refused, tables)
        if noncanon and not code_refuses_all:
            model_ok = False
        if x["protocol"] == "empty" and protocol_loaders != {}:
            out.count("api:caller-dict-changed")
        if model_ok:
            world = world_plus(_WORLD_BASE[T], created)
            # a `mem:` source opens nothing and has no folder: its include lines are items without a source,
            # pushed in order — exactly what root items are in the model
            ops.append({"op": "pathres_load", "resolver": RESOLVER_MODEL, "root": str(root_arg),
                        "roots": x["mem_lines"] if x["mem_lines"] is not None else roots, "fs": fs, "world": world,
                        "tracker_raises": raising, "loop_fuel": LOOP_FUEL})
            if noncanon:
                # only "refused with the same exception class, nothing touched" is compared (the candidate paths are
                # built from the root as written in the model, possibly from a resolved root in the code)
                pend.append(("load_files with a non-canonical root vs loadFiles (refusal only)", case,
                             {"end": end, "events": []},
                             lambda a: {"end": a["end"], "events": [e[:2] for e in a["trace"]
                                                                    if e[0] in ("open", "listdir")]}))
            else:
                pend.append(("load_files vs loadFiles (end, open/listdir events in order)", case,
                             _impl_record(end, events, root_arg), _load_verdict(out)))
    finally:
        os.chdir(old_cwd)
        for p in created:
            try:
                os.remove(p)
            except OSError:
                pass


# --------------------------------------------------------------------------- histories: the tree is edited between loads

H_SLOTS = {
    # slot name -> state -> how to make it (relative to the history root `hroot`)
    "sub": {"dir": ("dir", None), "link_out": ("link", "../hout/sub"), "link_in": ("link", "inner"),
            "link_out_abs": ("link", "$T/hout/sub")},
    "f.csv": {"file": ("file", None), "link_out": ("link", "../hout/x.csv"), "link_in": ("link", "inner/a.csv")},
    "ln": {"link_in": ("link", "inner"), "link_out": ("link", "../hout/sub"), "link_in_abs": ("link", "$T/hroot/inner")},
}
H_SPECS = ["/sub/a.csv", "/sub", "/f.csv", "/ln/a.csv", "/ln", "file:/sub/a.csv", "\\sub//a.csv", "/top.csv",
           "/sub/../f.csv", "/ln/../sub/a.csv"]


def _rm(p):
    if os.path.islink(p) or os.path.isfile(p):
        os.remove(p)
    elif os.path.isdir(p):
        shutil.rmtree(p)


def _set_slot(T, htables, slot, state):
    """edit the scratch tree: put `slot` of the history root into `state`"""
    p = T + "/hroot/" + slot
    for k in [k for k in htables if k == p or k.startswith(p + "/")]:
        del htables[k]
    _rm(p)
    kind, target = H_SLOTS[slot][state]
    if kind == "link":
        os.symlink(target.replace("$T", T), p)
    elif kind == "dir":
        os.makedirs(p)
        with open(p + "/a.csv", "w") as fh:
            fh.write(_table("t_hin_sub_a"))
        htables[p + "/a.csv"] = "t_hin_sub_a"
    else:
        with open(p, "w") as fh:
            fh.write(_table("t_hin_f"))
        htables[p] = "t_hin_f"


def _history_setup(T):
    htables = {}

    def put(rel, name, extra=""):
        q = os.path.join(T, rel)
        os.makedirs(os.path.dirname(q), exist_ok=True)
        with open(q, "w") as fh:
            fh.write(_table(name) + extra)
        htables[q] = name

    put("hroot/inner/a.csv", "t_hin_inner_a")
    put("hroot/top.csv", "t_hin_top", "***include;\nf.csv\nsub/a.csv\n\n")
    put("hout/sub/a.csv", "t_hout_sub_a")
    put("hout/x.csv", "t_hout_x")
    return htables


def _history_cases(T, seed, n, ops, pend, out, model_ok):
    """state carried across calls in ONE process: the same specifications are loaded again and again while the
    scratch tree is edited between the loads (folder -> outward symlink, file -> outward symlink, symlink
    retargeted inside -> outside and back), and sometimes WHILE a load is suspended at a block it has yielded.
    Every call is judged on its own: real path of every opened / listed path at the time of the access, refusal
    of what lies outside, loading of what lies inside; and compared with the model over the symlink map and world
    observed at that call.  A history is a script (edits and calls) that is executed from its record alone."""
    htables = _history_setup(T)
    for h in range(n):
        rng = make_rng(seed, f"C17:hist:{h}")
        n_steps = rng.choice([3, 4, 5])
        specs = rng.sample(H_SPECS, rng.choice([2, 3, 4]))
        if h == 0:
            specs = ["/sub/a.csv", "/sub", "/f.csv"]
        script = {"raising": rng.random() < 0.25, "specs": specs, "steps": []}
        for step in range(n_steps):
            edits = {slot: rng.choice(sorted(H_SLOTS[slot])) for slot in H_SLOTS}
            if step and rng.random() < 0.4:
                keep = rng.choice(sorted(H_SLOTS))
                edits[keep] = script["steps"][-1]["edits"][keep]
            if h == 0:
                edits = {"sub": ["dir", "link_out", "dir", "link_out_abs", "link_in"][step % 5],
                         "f.csv": ["file", "link_out", "link_in", "file", "link_out"][step % 5],
                         "ln": ["link_in", "link_out", "link_in_abs", "link_out", "link_in"][step % 5]}
            calls = [{"roots": [sp]} for sp in specs]
            if rng.random() < 0.3:
                calls.append({"roots": list(specs)})
            if rng.random() < 0.5 or h == 1:
                # the consumer edits the tree after the first table of a multi-item load: later items must be
                # checked against the tree as it is when THEY are reached
                mid = {slot: rng.choice(sorted(H_SLOTS[slot])) for slot in rng.sample(sorted(H_SLOTS), 2)}
                order = list(specs) + ["/inner/a.csv"]
                rng.shuffle(order)
                calls.append({"roots": order + ["/inner/a.csv"], "mid_edit": mid})
            script["steps"].append({"edits": edits, "calls": calls})
        _exec_history(T, htables, {"level": "history", "seed": seed, "index": h, "script": script},
                      out, ops, pend, model_ok)


def _exec_history(T, htables, base_case, out, ops, pend, model_ok):
    """run one history from its script alone"""
    root = T + "/hroot"
    script, h = base_case["script"], base_case.get("index", 0)
    raising = script["raising"]
    state = {}
    for step, st in enumerate(script["steps"]):
        for slot, val in st["edits"].items():
            if state.get(slot) != val:
                out.count(f"hist:edit:{slot}:{state.get(slot)}->{val}")
            _set_slot(T, htables, slot, val)
            state[slot] = val
        for j, call in enumerate(st["calls"]):
            roots, mid = call["roots"], call.get("mid_edit")
            spec = roots[-1]                      # processed first
            root_arg = root if (h + j) % 2 else Path(root)
            fs = snapshot_fs(T, DECOYS)
            world = snapshot_world(T) if (model_ok and not mid) else None
            case = dict(base_case, step=step, load=j, tree=dict(state), roots=roots, spec=spec,
                        raising_tracker=raising, mid_edit=mid,
                        script={"raising": raising, "specs": script.get("specs"),
                                "steps": script["steps"][:step] + [{"edits": st["edits"], "calls": st["calls"][:j + 1]}]})

            def edit_now(mid=mid):
                for slot, val in mid.items():
                    _set_slot(T, htables, slot, val)
                    state[slot] = val

            end, events, got_tables, refused = impl_load(T, root_arg, roots, raising if not mid else False, None,
                                                         edit_now if mid else None)
            out.count("hist:" + ("mid:" if mid else "") + (end if isinstance(end, str) else end["exc"]))
            out.case(case, nontrivial=step > 0 or bool(mid))
            if mid:
                # the tree changed during the call: only the access oracle (real path at access time) applies
                _judge_load(out, case, T, root, spec, "unplantable", raising, end, events, got_tables, refused, htables)
                continue
            _judge_load(out, case, T, root, spec, None, raising, end, events, got_tables, refused, htables)
            if model_ok:
                ops.append({"op": "pathres_load", "resolver": RESOLVER_MODEL, "root": str(root_arg), "roots": roots, "fs": fs, "world": world,
                            "tracker_raises": raising, "loop_fuel": LOOP_FUEL})
                pend.append(("load_files vs loadFiles after tree edits (end, open/listdir events in order)", case,
                             _impl_record(end, events, root_arg), _load_verdict(out)))


def _shared_loader_dict_cases(T, tables, seed, n, ops, pend, out, model_ok):
    """two or three load_files calls in one process that pass the SAME `additional_protocol_loaders` dict object
    (holding a harmless `mem` loader) but different root folders (B inside / beside A): every call is judged
    against ITS OWN root (audit oracle, refusal, loading) and compared with the model for that root"""
    roots_pool = [T + "/croot", T + "/croot/sub", T + "/root2", T + "/root", T + "/root/sub", T + "/Project",
                  T + "/project", T + "/PROJECT"]
    specs_pool = ["/m.csv", "/sub/n.csv", "/sub/m.csv", "/", "/sub", "/../m.csv", "/e.csv", "/a.csv", "/c.csv",
                  "file:/m.csv", "\\m.csv", "/../croot/m.csv", "/../sub/m.csv", "/p.csv", "/../project/p.csv", "/../Project/p.csv"]
    for h in range(n):
        rng = make_rng(seed, f"C17:shared:{h}")
        n_calls = rng.choice([2, 3])
        seq_roots = rng.sample(roots_pool, n_calls)
        if h == 0:
            seq_roots, n_calls = [T + "/croot", T + "/croot/sub"], 2
        spec = rng.choice(specs_pool) if h else "/m.csv"
        calls = []
        for j, root in enumerate(seq_roots):
            call_spec = spec if rng.random() < 0.8 else rng.choice(specs_pool)
            calls.append({"root": root, "roots": [call_spec], "root_as": "str" if (h + j) % 2 else "PosixPath"})
        case = {"level": "shared-loaders", "seed": seed, "index": h, "raising_tracker": rng.random() < 0.25,
                "calls": tok(calls, T)}
        _exec_shared(T, tables, case, out, ops, pend, model_ok)


def _exec_shared(T, tables, base_case, out, ops, pend, model_ok):
    calls, raising = untok(base_case["calls"], T), base_case["raising_tracker"]
    fs = snapshot_fs(T, DECOYS)
    world = snapshot_world(T) if model_ok else None
    shared = {"mem": mem_loader([])}
    for j, call in enumerate(calls):
        root, roots = call["root"], call["roots"]
        root_arg = root if call["root_as"] == "str" else Path(root)
        keys_before = sorted(shared)
        case = dict(base_case, call=j, root=tok(root, T), roots=roots, spec=roots[-1],
                    earlier_roots=[tok(c["root"], T) for c in calls[:j]], calls=tok(calls[:j + 1], T))
        end, events, got_tables, refused = impl_load(T, root_arg, roots, raising, shared)
        out.count("shared:" + (end if isinstance(end, str) else end["exc"]))
        out.case(case, nontrivial=j > 0)
        _judge_load(out, case, T, root, roots[-1], None, raising, end, events, got_tables, refused, tables)
        if sorted(shared) != keys_before:
            out.count("shared:caller-dict-changed")
        if model_ok:
            ops.append({"op": "pathres_load", "resolver": RESOLVER_MODEL, "root": str(root_arg), "roots": roots, "fs": fs, "world": world,
                        "tracker_raises": raising, "loop_fuel": LOOP_FUEL})
            pend.append(("load_files (shared protocol-loader dict, own root) vs loadFiles", case,
                         _impl_record(end, events, root_arg), _load_verdict(out)))


def replay(rep):
    """FAITHFUL replay: the failing case's record (`input`) is executed again on a fresh scratch tree — the same
    specification / files / roots / script of edits and calls — and judged by the same oracles, independent of
    seed, tier and position in any stream.  (The scratch directory name differs between runs: records hold `$T`.)"""
    inp = rep.get("input") or {}
    level = inp.get("level")
    if level not in ("function", "api", "history", "shared-loaders"):
        return False, "replay file has no input (no-failing-input-found): " + str(rep.get("broken"))[:300]
    if (level == "function" and "null_folder" not in inp) or (level == "api" and "x" not in inp) or \
            (level == "history" and "script" not in inp) or (level == "shared-loaders" and "calls" not in inp):
        return True, "record predates self-contained replay inputs: nothing to execute"
    out = Outcome()
    _install_hook()
    import pdtable  # noqa
    import pdtable.io.load._loaders  # noqa
    old_cwd = os.getcwd()
    T, tables = build_tree()
    _AUDIT["prefix"] = T
    _AUDIT["allow"] = _allow_list(T)
    try:
        if level == "function":
            os.chdir(T)
            _exec_function(T, None, inp, out, [], [], False)
        elif level == "api":
            _exec_api(T, tables, None, inp, out, [], [], False)
        elif level == "history":
            _exec_history(T, _history_setup(T), inp, out, [], [], False)
        else:
            _exec_shared(T, tables, inp, out, [], [], False)
    finally:
        os.chdir(old_cwd)
        shutil.rmtree(T, ignore_errors=True)
    if out.failures:
        f = out.failures[0]
        return False, f["what"] + ": " + str(f["observed"])[:200]
    return True, "property holds on this input"
