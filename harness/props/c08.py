"""C08 — JsonData is plain JSON and converts back to the same table.

Oracle (the property, evaluated on the real code only):
  purity      every leaf of table_to_json_data(t) / reader JsonData has *exactly* type dict, list, str, int,
              float, bool or NoneType (no numpy / pandas scalars), dict keys are str, no float is NaN;
  order       list(j["columns"]) == table.column_names;
  strict      json.dumps(j, allow_nan=False) succeeds  <=>  the table holds no infinity;
  round trip  for tables without missing datetimes: json_data_to_table(json.loads(text)) has the same name,
              destinations, column order, units and values (Table.equals both ways + explicit field checks),
              a missing number is a JSON null.
Correspondence (model vs code): to_json_serializable (function level, a zoo of Python / numpy / pandas objects),
table_to_json_data vs Lean `Json.ofTable`, make_table_json_data vs `Json.ofPrecursor`, json_data_to_table vs
`Json.toTable` (also on malformed JsonData: exception classes), json.dumps(allow_nan=False) vs `dumpsStrictOk`.
"""
import datetime
import decimal
import json
import logging
import math
import warnings

from harness import common, reader_common as rc
from harness.common import Outcome, make_rng, float_tok, grid_to_json

logging.disable(logging.CRITICAL)

EXTRA = {
    "assumptions": [
        "the JSON text trip is modelled and proved (Model/JsonText.lean `dumps` / `loads`, theorems loads_dumps and "
        "json_roundtrip_through_text) and compared with CPython's json module on every run: the model's dumps text char "
        "for char with json.dumps(j, allow_nan=False) on every generated JsonData, the model's loads with json.loads on "
        "that text, on the listed edge cases and on randomly damaged texts (accept / reject and the value). What stays "
        "external: the *values* of numerals — int(text) and repr(float(text)) — enter as oracle tables (NumCodec), and the "
        "codec laws int(str(i)) == i, repr(float(repr(x))) == repr(x) for finite x, str(i) / repr(x) being JSON numerals, "
        "are hypotheses (`JWF`, `NumText`) sampled on every case; Python strings holding lone surrogates are outside the "
        "model (a Lean Char is a Unicode scalar value); where CPython accepts what JVal cannot express — the literals "
        "NaN / Infinity / -Infinity and lone-surrogate \\\\u escapes — the model rejects and the harness skips exactly "
        "those two named classes (counted in the evidence)",
        "pandas.to_datetime(str(Timestamp)) == Timestamp for microsecond timestamps (the codec law of the theorem's "
        "`DtCodec` hypothesis; sampled every run for each generated timestamp, years 1900-2200)",
        "what `list(df[col])` yields per dtype (Python float / int / bool / str, pd.Timestamp / NaT) is assumed by the "
        "model (Json.valPVal) and checked on every table case: the elements are classified one by one by exact type "
        "(table_obs: a numpy scalar would arrive as npscalar), compared with the assumed types, and sent through the "
        "model unchanged (op json_of_table_obs, theorem tablePVal_obs links the two); which numpy dtype a parsed column "
        "has is observed per case",
        "pandas nullable (Int64, Float64, boolean) and string extension columns, with and without pd.NA, are inside the "
        "domain for purity, column order, strict dumps and the leaves (pd.NA travels as null; list(df[col]) yields numpy "
        "scalars there, which to_json_serializable converts through .item() since /repo 7ce6114, D36); for the round-trip "
        "clause a missing boolean and a missing text are excluded like a missing datetime (a null in an onoff column is "
        "refused by the strict fixer; a null in a text column comes back as the text 'None'); the values come back, the "
        "dtype does not (float64 / bool / str)",
        "column labels are strings (TableVal names are Str): a frame with integer column labels gives int dict keys, which "
        "json.dumps coerces to text — outside the domain, as is a Python str holding lone surrogates",
        "row labels of the backing frame (permuted, string, duplicate — concat without ignore_index —, DatetimeIndex) are "
        "not part of a StarTable table: the JsonData must hold one value per ROW in row order whatever the labels "
        "(expected leaves from the generator) and the round trip must reproduce header, row count and values in order; "
        "Table.equals (label-aligned, C14's subject) is consulted only for tables with default row numbering, since "
        "json_data_to_table always returns default numbering",
        "well-formed tables only (DESIGN §3 clauses 1-5 without the separator / marker conditions): unique "
        "non-blank trimmed column names, trimmed units matching the column kind, name not ending in '*', non-empty "
        "set of blank-free destinations, integers of magnitude below 2^53 (WF clause `isNumber`; 2^53+1 is the proved "
        "and sampled counter-example); the round trip is claimed for tables without missing "
        "datetimes only (a null reaches _parse_datetime_column as None, which the strict fixer rejects)",
    ],
    "explanation": "Props/C08.lean: loads_dumps (json.loads(json.dumps(v)) = v for every well-formed JSON value, by mutual "
                   "induction over the nested value; strings incl. \\\\uXXXX and surrogate pairs, the short escapes, numerals, "
                   "whitespace) and json_roundtrip_through_text; toJson never yields NaN (json_pure / no_nan for every input of "
                   "to_json_serializable), ofTable / ofPrecursor total with an explicit value (ofTable_eq), "
                   "strict_dumps_iff, columns_in_order, json_roundtrip (toTable (ofTable t) = ok (observe t) for every "
                   "well-formed t without missing datetimes, every ext satisfying the codec law).",
}

PLAIN = (dict, list, str, int, float, bool, type(None))


# --------------------------------------------------------------------------- wire forms

def jv(x):
    """Python JSON data -> JVal wire form, by *exact* type; anything else is {"bad": <type name>}"""
    t = type(x)
    if x is None:
        return None
    if t is bool or t is str:
        return x
    if t is int:
        return {"i": x}
    if t is float:
        return {"f": float_tok(x)}
    if t is list:
        return [jv(e) for e in x]
    if t is dict:
        return {"o": [[k if type(k) is str else {"bad": type(k).__name__}, jv(v)] for k, v in x.items()]}
    return {"bad": t.__module__ + "." + t.__name__}


def classify(obj):
    """Python object -> PVal wire form.  The external facts (`type(obj)`, `isinstance`, `obj[0]`, `pd.isna`, numpy
    dtype and `.tolist()`) are observed here with the primitives themselves, never through pdtable."""
    import numpy as np
    import pandas as pd
    t = type(obj)
    if obj is None:
        return None
    if t is bool or t is str:
        return obj
    if t is int:
        return {"i": obj}
    if t is float:
        return {"f": float_tok(obj)}
    if t is list:
        return {"list": [classify(e) for e in obj]}
    if t is dict:
        return {"dict": [[k, classify(v)] for k, v in obj.items()]}
    if isinstance(obj, np.ndarray):
        if f"{obj.dtype}" == "float64":
            return {"f64": [float_tok(float(v)) for v in obj.tolist()]}
        return {"nd": [classify(v) for v in obj.tolist()]}
    if isinstance(obj, datetime.datetime):
        return {"dt": "NaT" if str(obj) == "NaT" else obj.isoformat()}
    if isinstance(obj, np.generic):
        return {"np": classify(obj.item())}
    try:
        obj[0]
    except TypeError:
        try:
            na = pd.isna(obj)
        except Exception:  # noqa: BLE001
            na = False
        return {"k": "na"} if na is True or (isinstance(na, (bool, np.bool_)) and bool(na)) else {"k": "other"}
    except IndexError:
        return {"k": "unmodelled"}
    except Exception:  # noqa: BLE001
        return {"k": "unmodelled"}
    return {"k": "other"}


EXT_DTYPES = ("Int64", "Float64", "boolean", "string")


def table_val(t):
    """real Table -> protocol TableVal: values typed by the dtype pandas holds them in (read through
    `.to_numpy()`, not through `list(series)`), destinations in the set's iteration order"""
    cols = []
    if any(str(t.df[nm].dtype) in EXT_DTYPES for nm in t.df.columns):
        return None
    for idx, nm in enumerate(t.df.columns):
        s = t.df[nm]
        k = s.dtype.kind
        raw = s.to_numpy()
        if k == "b":
            vals = [bool(x) for x in raw]
        elif k in "iu":
            vals = [{"i": int(x)} for x in raw]
        elif k == "f":
            vals = [{"f": float_tok(float(x))} for x in raw]
        elif k == "M":
            vals = [{"d": rc.ts_tok(x)} for x in s]
        else:
            vals = [x if isinstance(x, str) else {"bad": type(x).__name__} for x in raw]
        cols.append({"name": str(nm), "unit": t.units[idx], "values": vals})
    return {"name": t.name, "destinations": [str(d) for d in t.metadata.destinations],
            "transposed": bool(t.metadata.transposed), "columns": cols}


def table_obs(t):
    """real Table -> the elements of `list(table.df[col])` as *observed* (classified by exact Python type: a numpy
    scalar arrives as npscalar, never coerced), for driver op json_of_table_obs"""
    cols = []
    for idx, nm in enumerate(t.df.columns):
        cols.append({"name": str(nm), "unit": t.units[idx], "values": [classify(x) for x in list(t.df[nm])]})
    return {"name": t.name, "destinations": [str(d) for d in t.metadata.destinations], "columns": cols}


def assumed_element(v):
    """the element type the model assumes for a dtype-typed value (`Json.valPVal`), in PVal wire form"""
    if isinstance(v, dict) and "d" in v:
        return {"dt": v["d"]}
    return v


def assumed_array(cv):
    """the array type the model assumes for a parsed column (`Json.colPVal`), in PVal wire form"""
    k, v = cv["k"], cv["v"]
    if k == "text":
        return {"nd": list(v)}
    if k == "onoff":
        return {"nd": list(v)}
    if k == "num":
        return {"f64": list(v)}
    if k == "dt":
        return {"nd": [{"dt": t} for t in v]}
    if k == "raw":
        return {"list": []}
    return {"k": "unmodelled"}


def canon_destinations(ans):
    """{"ok": JVal wire} with the members of the top-level "destinations" object sorted by key"""
    try:
        members = ans["ok"]["o"]
    except (KeyError, TypeError):
        return ans
    out = []
    for k, v in members:
        if k == "destinations" and isinstance(v, dict) and "o" in v:
            v = {"o": sorted(v["o"], key=lambda kv: str(kv[0]))}
        out.append([k, v])
    return {"ok": {"o": out}}


def strings_of(j, acc):
    if isinstance(j, str):
        acc.append(j)
    elif isinstance(j, list):
        for e in j:
            strings_of(e, acc)
    elif isinstance(j, dict):
        for k, v in j.items():
            acc.append(k)
            strings_of(v, acc)
    return acc


def ints_of(j, acc):
    if type(j) is int:
        try:
            acc[str(j)] = repr(float(j))
        except OverflowError:
            acc[str(j)] = "OverflowError"
    elif isinstance(j, list):
        for e in j:
            ints_of(e, acc)
    elif isinstance(j, dict):
        for v in j.values():
            ints_of(v, acc)
    return acc


def to_table_op(j):
    strs = strings_of(j, [])
    try:        # a str where a list of values is expected is iterated character by character
        for col in j["columns"].values():
            if isinstance(col["values"], str):
                strs += list(col["values"])
    except (TypeError, KeyError, AttributeError):
        pass
    return {"op": "json_to_table", "j": jv(j), "ints": ints_of(j, {}), "ext": rc.ext_tables([strs])}


# --------------------------------------------------------------------------- oracles (no model involved)

def impure_leaves(j, path="$"):
    """paths of leaves / keys that are not plain JSON by exact type, and of NaN floats"""
    t = type(j)
    if t is dict:
        bad = []
        for k, v in j.items():
            if type(k) is not str:
                bad.append(f"{path}: key of type {type(k).__name__}")
            bad += impure_leaves(v, f"{path}.{k}")
        return bad
    if t is list:
        bad = []
        for i, v in enumerate(j):
            bad += impure_leaves(v, f"{path}[{i}]")
        return bad
    if t not in PLAIN:
        return [f"{path}: {t.__module__}.{t.__name__}"]
    if t is float and j != j:
        return [f"{path}: NaN"]
    return []


def has_inf(j):
    if type(j) is float:
        return math.isinf(j)
    if isinstance(j, list):
        return any(has_inf(e) for e in j)
    if isinstance(j, dict):
        return any(has_inf(v) for v in j.values())
    return False


def same_typed(a, b):
    """deep equality with exact leaf types; dict member order ignored (Python ==), NaN equals NaN"""
    if type(a) is not type(b):
        return False
    if type(a) is dict:
        return a.keys() == b.keys() and all(same_typed(a[k], b[k]) for k in a)
    if type(a) is list:
        return len(a) == len(b) and all(same_typed(x, y) for x, y in zip(a, b))
    if type(a) is float:
        return (a != a and b != b) or (a == b and math.copysign(1, a) == math.copysign(1, b))
    return a == b


def check_json_of_table(out, case, j, names, infinite, what):
    """purity / order / strict-dumps oracles on one JsonData; returns the JSON text or None"""
    bad = impure_leaves(j)
    if bad:
        out.fail(f"{what}: JsonData holds a value that is not plain JSON", case, bad[:5], "dict/list/str/int/float/bool/None",
                 key="impure:" + bad[0].split(": ")[-1])
        return None
    if list(j["columns"].keys()) != list(names):
        out.fail(f"{what}: columns are not in table order", case, list(j["columns"].keys()), list(names), key="order")
        return None
    try:
        text = json.dumps(j, allow_nan=False)
        ok = True
    except ValueError:
        text, ok = None, False
    if ok == infinite:
        out.fail(f"{what}: strict json.dumps " + ("accepted a table with an infinity" if ok else
                 "rejected a table without infinities"), case, ok, not infinite, key="strict")
        return None
    return text


def _isna(x):
    import pandas as pd
    try:
        return bool(pd.isna(x))
    except (TypeError, ValueError):
        return False


def col_values(t):
    """values of a Table by column, typed by dtype kind, for the explicit round-trip comparison"""
    out = []
    for nm in t.df.columns:
        s = t.df[nm]
        k = s.dtype.kind
        if len(s) == 0:
            out.append(("empty", []))
        elif k == "b":
            out.append(("onoff", [None if _isna(x) else bool(x) for x in s]))
        elif k in "fiu":
            out.append(("num", [float("nan") if _isna(x) else float(x) for x in s]))
        elif k == "M":
            out.append(("dt", [rc.ts_tok(x) for x in s]))
        else:
            out.append(("text", [None if _isna(x) else str(x) for x in s]))
    return out


def same_values(a, b):
    if len(a) != len(b):
        return False
    for (ka, va), (kb, vb) in zip(a, b):
        if ka != kb or len(va) != len(vb):
            return False
        for x, y in zip(va, vb):
            if ka == "num":
                if not ((x != x and y != y) or x == y):
                    return False
            elif x != y:
                return False
    return True


def check_roundtrip(out, case, t, text, what, spec=None):
    """spec: the generator's own description of the table (names / units in column order); when given, the expected
    header fields come from it, not from the table"""
    from pdtable.io.json import json_data_to_table
    try:
        from pdtable import ParseFixer
        kw = [{}, {}, {"fixer": ParseFixer}, {"fixer": ParseFixer()}][len(text) % 4]      # a default fixer changes nothing
        with warnings.catch_warnings():
            warnings.simplefilter("ignore")
            t2 = json_data_to_table(json.loads(text), **kw)
    except Exception as e:  # noqa: BLE001
        out.fail(f"{what}: json_data_to_table rejects the JSON of a well-formed table", case, type(e).__name__ + ": " + str(e)[:120],
                 "a table", key="roundtrip_exc:" + type(e).__name__)
        return None
    fields = {"name": (t2.name, t.name), "destinations": (sorted(t2.metadata.destinations), sorted(t.metadata.destinations)),
              "columns": (list(t2.column_names), list(t.column_names)), "units": (list(t2.units), list(t.units))}
    if spec is not None:
        fields["name"] = (t2.name, spec["name"])
        fields["destinations"] = (sorted(t2.metadata.destinations), sorted(spec["dests"]))
        fields["columns"] = (list(t2.column_names), [c[0] for c in spec["cols"]])
        fields["units"] = (list(t2.units), [c[1] for c in spec["cols"]])
    for k, (got, exp) in fields.items():
        if got != exp:
            out.fail(f"{what}: round trip through JSON changed the {k}", case, got, exp, key="roundtrip:" + k)
            return None
    if not same_values(col_values(t2), col_values(t)):
        out.fail(f"{what}: round trip through JSON changed the values", case, str(col_values(t2))[:300], str(col_values(t))[:300],
                 key="roundtrip:values")
        return None
    default_labels = spec is None or spec.get("index", "default") == "default"
    if len(t2.df) != len(t.df):
        out.fail(f"{what}: round trip through JSON changed the number of rows", case, len(t2.df), len(t.df), key="roundtrip:rows")
        return None
    if default_labels and not (t2.equals(t) and t.equals(t2)):
        out.fail(f"{what}: Table.equals says the round-tripped table differs", case, False, True, key="roundtrip:equals")
        return None
    return t2


# --------------------------------------------------------------------------- generators

NAME_ALPHA = ["a", "b", "Z", "é", " ", "-", "1", "*", ":", "_", "x", "µ", ";", ",", "\n", "\t", '"', "\\", "'", "漢", "😀",
              # not in Unicode normal form C / compatibility characters: a header cell is taken code point for code point
              "e\u0301", "\u2126", "\u212b", "\ufb01", "a\u030a"]
TEXT_ALPHA = NAME_ALPHA + ["n", "N", "0", ".", "{", "}", "[", " ", " "]
TEXT_SPELL = ["", "a", " a ", "-", "nan", "NaN", "None", "null", "**x", ":a", "k:", "1.5", "é µ", "a;b", "*", " ", "true", "NaT",
              "2020-01-01", "é́", "\"q\"", "line\nbreak", "tab\there", "\\u0041"]
NUM_UNITS = ["-", "m", "kg", "mm", "°C", "m/s", "%", "N m", "", "1/s", "Text", "ONOFF", "€/kWh", "m;s",
             "k\u2126", "\u212b", "e\u0301V", "\ufb01t", "\u00b5m", "\u03bcm"]
SPACES = "".join(chr(c) for c in rc.SPACE_CPS)


CASE_PAIRS = [("t", "T"), ("Maß", "MASS"), ("straße", "STRASSE"), ("é", "É"), ("µ", "Μ"), ("ǆ", "ǅ"), ("x y", "X Y"),
              ("ﬁ", "fi"), ("K", "K"), ("name", "Name"),
              # names that differ only in Unicode normal form are different names too
              ("re\u0301sistance", "r\u00e9sistance"), ("k\u2126", "k\u03a9"), ("\u212b", "\u00c5"), ("\ufb01x", "fix"),
              ("a\u030a", "\u00e5"), ("\u00b5", "\u03bc")]


def case_variant(nm):
    """another spelling of the same letters: swapped / upper / lower case, whichever differs"""
    for v in (nm.swapcase(), nm.upper(), nm.lower(), nm.title()):
        if v != nm and v.strip(SPACES) == v:
            return v
    return nm


def rand_str(rng, alpha, lo, hi):
    return "".join(rng.choice(alpha) for _ in range(rng.randint(lo, hi)))


# years at and beyond the edges of datetime64[ns] (1677-09-21 .. 2262-04-11): pandas 3 keeps [s] / [us] columns there
YEAR_EDGES = [1, 2, 99, 100, 999, 1000, 1582, 1676, 1677, 1678, 1899, 1969, 1970, 2038, 2261, 2262, 2263, 2999, 9998, 9999]
# row counts at and around sizes where chunked / bulk code paths switch
ROW_LADDER_QUICK = [64, 255, 256, 257, 1024, 1025, 2048, 3072, 4097, 8193]
ROW_LADDER_FULL = [60, 63, 64, 65, 127, 128, 129, 255, 256, 257, 1000, 1023, 1024, 1025, 2047, 2048, 2049, 3072, 4095, 4096,
                   4097, 5120, 8191, 8192, 8193, 30005]


def ladder_spec(rng, n_row):
    """a narrow well-formed table with a given number of rows: numbers with missing values, and one or two more
    columns of other kinds"""
    def num(i):
        r = rng.random()
        return float("nan") if r < 0.05 or i in (0, n_row - 1, 255, 256, 1023, 1024) and r < 0.5 else \
            rng.choice([float(rng.randint(-1000, 1000)), rng.random() * 10 ** rng.randint(-3, 6), 1e16, -0.0])
    cols = [("n", rng.choice(["m", "kg", "-"]), "num", [num(i) for i in range(n_row)])]
    for nm in rng.sample(["s", "o", "i", "d"], rng.randint(1, 2)):
        if nm == "s":
            cols.append(("s", "text", "text", [rng.choice(["a", "", "é", "x y", "-", "nan"]) for _ in range(n_row)]))
        elif nm == "o":
            cols.append(("o", "onoff", "onoff", [rng.random() < 0.5 for _ in range(n_row)]))
        elif nm == "i":
            cols.append(("i", "-", "int", [rng.randint(-10 ** 6, 10 ** 6) for _ in range(n_row)]))
        else:
            base = datetime.datetime(rng.choice([1700, 1999, 2020, 2200]), 1, 1)
            cols.append(("d", "datetime", "datetime", [base + datetime.timedelta(seconds=37 * i, microseconds=i % 7) for i in range(n_row)]))
    rng.shuffle(cols)
    return {"name": "ladder%d" % n_row, "dests": ["all"], "cols": cols, "transposed": False,
            "index": rng.choice(["default", "default", "permuted", "concat"])}


def gen_spec(rng, allow_nat=True):
    """a well-formed table as plain Python data: name, dests, [(colname, unit, kind, values)]"""
    n_col = rng.choice([0, 1, 1, 2, 2, 3, 4, 6, 9, 14] + ([25, 40] if rng.random() < 0.08 else []))
    n_row = rng.choice([0, 1, 1, 2, 3, 7, 23, 40] if n_col <= 14 else [0, 1, 2, 3])
    big = rng.random() < 0.08                      # larger rungs: names of 40 / 100 characters, texts of 300 / 2000
    while True:
        name = rand_str(rng, NAME_ALPHA, 0, 6) if not big else rand_str(rng, NAME_ALPHA, 40, 100)
        if not name.endswith("*"):
            break
    dests = []
    for _ in range(rng.choice([1, 1, 2, 3, 6, 9] if rng.random() < 0.3 else [1, 1, 2, 3])):
        while True:
            d = rand_str(rng, ["a", "b", "all", "é", "_", "1", "-", "*", "x", ":", ";", "漢"], 1, 3)
            if d and d not in dests and not any(c in SPACES for c in d):
                dests.append(d)
                break
    names = []
    while len(names) < n_col:
        nm = (rand_str(rng, NAME_ALPHA, 1, 5) if not (big and rng.random() < 0.4) else
              rand_str(rng, NAME_ALPHA, 40, 100)).strip(SPACES)
        if nm and nm not in names:
            names.append(nm)
    # column names that differ only in letter case / only after Unicode case folding are different names
    if len(names) >= 2 and rng.random() < 0.3:
        pair = rng.choice(CASE_PAIRS + [(names[0], case_variant(names[0]))] * 3)
        if pair[0] != pair[1] and pair[1] and len({pair[0], pair[1], *names[2:]}) == len(names):
            names[0], names[1] = pair
    cols = []
    for nm in names:
        kind = rng.choice(["text", "onoff", "datetime", "num", "num", "int", "xint", "xfloat", "xbool", "xstr", "cat"])
        if kind == "cat":       # a text column held as a pandas categorical: its values are the categories' texts
            unit, vals = "text", [rng.choice(["x", "y", "é", "", "a b"]) for _ in range(n_row)]
            cols.append((nm, unit, kind, vals))
            continue
        if kind in ("xint", "xfloat", "xbool", "xstr"):
            # pandas nullable / string extension dtypes, with and without pd.NA (None here)
            na = rng.random() < 0.5
            def maybe(v):
                return None if na and rng.random() < 0.3 else v
            if kind == "xint":
                unit, vals = rng.choice(NUM_UNITS).strip(SPACES), [maybe(rng.choice([0, 1, -7, 10 ** 6, 2 ** 53 - 1])) for _ in range(n_row)]
            elif kind == "xfloat":
                unit, vals = rng.choice(NUM_UNITS).strip(SPACES), [maybe(rng.choice([0.5, -2.25, 1e16, 3.0, 1 / 3])) for _ in range(n_row)]
            elif kind == "xbool":
                unit, vals = "onoff", [maybe(rng.random() < 0.5) for _ in range(n_row)]
            else:
                unit, vals = "text", [maybe(rng.choice(TEXT_SPELL)) for _ in range(n_row)]
        elif kind == "text":
            unit, vals = "text", [rng.choice(TEXT_SPELL) if rng.random() < 0.5 else
                                  rand_str(rng, TEXT_ALPHA, 0, 6 if rng.random() < 0.9 else (rng.choice([80, 80, 300, 2000]) if n_row <= 7 else 80))
                                  for _ in range(n_row)]
        elif kind == "onoff":
            unit, vals = "onoff", [rng.random() < 0.5 for _ in range(n_row)]
        elif kind == "datetime":
            unit, vals = "datetime", []
            fine = rng.random() < 0.3
            for _ in range(n_row):
                if allow_nat and rng.random() < 0.15:
                    vals.append(None)
                else:
                    year = rng.choice(YEAR_EDGES) if rng.random() < 0.3 and not fine else rng.randint(1900, 2200)
                    v = datetime.datetime(year, rng.randint(1, 12), rng.randint(1, 28),
                                          rng.randint(0, 23), rng.randint(0, 59), rng.randint(0, 59),
                                          rng.choice([0, 0, 1, 999999, 123000, 500]))
                    if fine:       # finer than a microsecond: the column is held as datetime64[ns]
                        import pandas as pd
                        v = pd.Timestamp(v) + pd.Timedelta(nanoseconds=rng.choice([1, 789, 700, 999, 0]))
                    vals.append(v)
        elif kind == "int":
            unit = rng.choice(NUM_UNITS).strip(SPACES)
            vals = [rng.choice([0, 1, -1, 7, 10 ** 6, -2 ** 40, 2 ** 53 - 1, -(2 ** 53) + 1, 10 ** 15, 9 * 10 ** 15]) for _ in range(n_row)]
        else:
            unit, vals = rng.choice(NUM_UNITS).strip(SPACES), []
            for _ in range(n_row):
                r = rng.random()
                if r < 0.2:
                    vals.append(float("nan"))
                elif r < 0.27:
                    vals.append(rng.choice([float("inf"), float("-inf")]))
                elif r < 0.4:
                    vals.append(rng.choice([0.0, -0.0, 1e300, 5e-324, 1e22, 1e16, 1e15, 123456789.123456789, 0.1, 1 / 3,
                                            2.0 ** 53, -1e-7, 1.7976931348623157e308]))
                elif r < 0.7:
                    vals.append(float(rng.randint(-1000, 1000)))
                else:
                    vals.append(rng.choice([rng.random() * 10 ** rng.randint(-8, 15), -rng.random()]))
        cols.append((nm, unit, kind, vals))
    # row labels of the backing frame: not part of a StarTable table, must not matter
    index = rng.choice(["default", "default", "permuted", "strings", "duplicates", "concat", "datetime"])
    return {"name": name, "dests": dests, "cols": cols, "transposed": rng.random() < 0.3, "index": index}


def build_table(rng, spec):
    import numpy as np
    import pandas as pd
    from pdtable import Table
    data = {}
    for nm, unit, kind, vals in spec["cols"]:
        if kind == "text":
            data[nm] = np.array(vals, dtype=object) if rng.random() < 0.5 else pd.Series(vals, dtype="str")
        elif kind == "onoff":
            data[nm] = np.array(vals, dtype=bool)
        elif kind == "int":
            data[nm] = np.array(vals, dtype="int64")
        elif kind == "cat":
            data[nm] = pd.Categorical(vals)
        elif kind in ("xint", "xfloat", "xbool", "xstr"):
            data[nm] = pd.array(vals, dtype={"xint": "Int64", "xfloat": "Float64", "xbool": "boolean", "xstr": "string"}[kind])
        elif kind == "datetime":
            res = rng.choice(["us", "us", "ns", "ms" if all(v is None or v.microsecond % 1000 == 0 for v in vals) else "us"])
            if any(getattr(v, "nanosecond", 0) for v in vals):
                res = "ns"
            elif res == "ns" and any(v is not None and not (1678 <= v.year <= 2261) for v in vals):
                res = "us"          # outside the ns range: the column can only be held at a coarser resolution
            data[nm] = pd.Series([pd.NaT if v is None else pd.Timestamp(v) for v in vals], dtype=f"datetime64[{res}]")
        else:
            data[nm] = np.array(vals, dtype="float64")
    df = pd.DataFrame(data)
    n, how = len(df), spec.get("index", "default")
    if n and data:
        # (the labels are a function of the kind and the row count only: a replay rebuilds exactly the same frame)
        if how == "permuted":
            df.index = [(i * 7 + 3) % n if math.gcd(7, n) == 1 else n - 1 - i for i in range(n)]
        elif how == "strings":
            df.index = ["r%d" % (i % 3) if i % 4 == 1 else "row %d" % i for i in range(n)]
        elif how == "duplicates":
            df.index = [(i // 2) % 2 for i in range(n)]
        elif how == "concat" and n >= 2:
            k = max(1, n // 2)
            df = pd.concat([df.iloc[:k].reset_index(drop=True), df.iloc[k:].reset_index(drop=True)])   # no ignore_index
        elif how == "datetime":
            df.index = pd.to_datetime(["2020-01-%02d" % (1 + (i * 7) % 28) for i in range(n)])
    with warnings.catch_warnings():
        warnings.simplefilter("ignore")
        return Table(df, name=spec["name"], destinations=set(spec["dests"]), units=[c[1] for c in spec["cols"]],
                     transposed=spec["transposed"])


def spec_case(spec):
    def val(kind, v):
        if kind == "datetime":
            return None if v is None else v.isoformat()
        if kind == "num":
            return float_tok(v)
        return v
    return {"name": spec["name"], "destinations": spec["dests"], "transposed": spec["transposed"],
            "index": spec.get("index", "default"),
            "columns": [[nm, unit, kind, [val(kind, v) for v in vals]] for nm, unit, kind, vals in spec["cols"]]}


def spec_from_case(c):
    cols = []
    for nm, unit, kind, vals in c["columns"]:
        if kind == "datetime":
            import pandas as pd
            vals = [None if v is None else pd.Timestamp(v) for v in vals]
        elif kind == "num":
            vals = [float(v) for v in vals]
        cols.append((nm, unit, kind, vals))
    return {"name": c["name"], "dests": c["destinations"], "cols": cols, "transposed": c.get("transposed", False),
            "index": c.get("index", "default")}


NS_SPELL = ["2020-01-02 03:04:05.123456789", "2020-01-02T03:04:05.1234567", "1999-12-31 23:59:59.999999999",
            " 2020-01-02 03:04:05.000000001 ", "2031-07-08 09:10:11.12345678"]


def _fine(c):
    import re
    if isinstance(c, str):
        return re.search(r"\.\d{7,9}\s*([Zz]|[+-]\d{2}:\d{2})?\s*$", c) is not None
    return bool(getattr(c, "nanosecond", 0))


_OFFSET = None


def one_zone_per_column(grid, info):
    """a datetime column whose text cells carry different UTC offsets (or some with, some without) is not a well-formed
    table (pandas keeps an object column, the reader reports ColumnUnitException): such a column is made offset-free"""
    import re
    global _OFFSET
    _OFFSET = _OFFSET or re.compile(r"^(\s*\d{4}-\d{1,2}-\d{1,2}[T ][\d:.]+?)\s*(Z|z|UTC|[+-]\d{2}(?::?\d{2})?)(\s*)$")
    for j, k in enumerate(info["kinds"]):
        if k != "datetime":
            continue
        cells = []
        for r in range(info["n_row"]):
            ri, ci = (2 + j, 2 + r) if info["transposed"] else (4 + r, j)
            if ri < len(grid) and ci < len(grid[ri]) and isinstance(grid[ri][ci], str):
                cells.append((ri, ci))
        zones = set()
        for ri, ci in cells:
            m = _OFFSET.match(grid[ri][ci])
            c = grid[ri][ci].strip().lower()
            if m:
                zones.add(m.group(2).upper().replace(":", ""))
            elif c not in ("-", "nan"):
                zones.add(None)
        if len(zones) > 1:
            for ri, ci in cells:
                grid[ri][ci] = _OFFSET.sub(r"\1\3", grid[ri][ci])
    return grid


def keep_ns_in_range(grid, info):
    """a datetime column with a finer-than-microsecond value is held as datetime64[ns], which cannot hold dates outside
    1677-09-21 .. 2262-04-11: pandas then keeps an object column and the reader rejects the table (ColumnUnitException,
    an input error) — not a well-formed table.  Such columns are kept inside the ns range."""
    for j, k in enumerate(info["kinds"]):
        if k != "datetime":
            continue
        cells = []
        for r in range(info["n_row"]):
            ri, ci = (2 + j, 2 + r) if info["transposed"] else (4 + r, j)
            if ri < len(grid) and ci < len(grid[ri]):
                cells.append((ri, ci))
        if any(_fine(grid[ri][ci]) for ri, ci in cells):
            for ri, ci in cells:
                c = grid[ri][ci]
                if isinstance(c, str) and c.strip()[:4] in ("1677", "2262"):
                    grid[ri][ci] = "2020-01-02"
    return grid


def inject_ns(rng, grid, info, native=False, p=0.35):
    """with probability p per datetime column, one value cell gets a finer-than-microsecond timestamp (text, or a
    pd.Timestamp for native grids): pandas then holds the whole column as datetime64[ns]"""
    import pandas as pd
    if not info["n_row"]:
        return grid
    for j, k in enumerate(info["kinds"]):
        if k != "datetime" or rng.random() >= p:
            continue
        if (2 + j >= len(grid)) if info["transposed"] else (len(grid) < 4 + info["n_row"]):
            continue
        i = rng.randrange(info["n_row"])
        cell = pd.Timestamp(rng.choice(NS_SPELL).strip()) if native and rng.random() < 0.5 else rng.choice(NS_SPELL)
        # a datetime64[ns] column cannot hold dates outside 1677-09-21 .. 2262-04-11: pandas rejects the column
        # (OutOfBoundsDatetime, an input error) — not a well-formed table; keep the column inside the ns range
        for r in range(info["n_row"]):
            ri, ci = (2 + j, 2 + r) if info["transposed"] else (4 + r, j)
            if ci < len(grid[ri]) and isinstance(grid[ri][ci], str) and grid[ri][ci].strip()[:4] in ("1677", "2262"):
                grid[ri][ci] = "2020-01-02"
        if info["transposed"]:
            grid[2 + j][2 + i] = cell
        else:
            grid[4 + i][j] = cell
    return keep_ns_in_range(grid, info)


# --------------------------------------------------------------------------- the JSON text trip (Model/JsonText.lean)

_NUM_RUN = None


def numeral_tables(text):
    """values of every maximal run of numeral characters in the text, computed with int() / float() themselves (the
    model decides the JSON number *grammar*; the tables only say what a numeral is worth)"""
    import re
    global _NUM_RUN
    _NUM_RUN = _NUM_RUN or re.compile(r"[-+0-9.eE]+")
    ints, floats = {}, {}
    for tok in set(_NUM_RUN.findall(text)):
        if not tok.isascii():
            continue
        try:
            ints[tok] = int(tok)
        except ValueError:
            pass
        try:
            floats[tok] = float_tok(float(tok))
        except (ValueError, OverflowError):
            pass
    return ints, floats


def loads_op(text):
    ints, floats = numeral_tables(text)
    return {"op": "json_loads", "text": text, "ints": ints, "floats": floats}


def has_surrogate(j):
    if isinstance(j, str):
        return any(0xD800 <= ord(ch) <= 0xDFFF for ch in j)
    if isinstance(j, list):
        return any(has_surrogate(e) for e in j)
    if isinstance(j, dict):
        return any(has_surrogate(k) or has_surrogate(v) for k, v in j.items())
    return False


def impl_loads(text):
    """-> {"ok": jv} | {"reject": True} | {"skip": <named class CPython accepts and JVal cannot express>}"""
    constants = []

    def const(c):                      # called by the decoder exactly for the literals NaN, Infinity, -Infinity
        constants.append(c)
        return float(c)
    try:
        v = json.loads(text, parse_constant=const)
    except RecursionError:
        return {"skip": "recursion limit"}
    except ValueError:
        return {"reject": True}
    if constants:
        return {"skip": "NaN / Infinity literal"}
    if has_surrogate(v):
        return {"skip": "lone surrogate escape"}
    return {"ok": jv(v)}


TEXT_PALETTE = list('"\\{}[],: \n\t0123456789.eE+-truefalsnNaIy/ubx') + ["\u00e9", "\U0001f600", "\x01", "\x0b", "\u00a0"]
BAD_TEXTS = [
    "", " ", "nul", "null", " null ", "true false", "tru", "True", "None", "NaN", "Infinity", "-Infinity", "[NaN]", "-NaN",
    '{"a": Infinity}', "01", "-01", "00", "0", "-0", "-0.0", "1.", ".5", "1e", "1e+", "1e+5", "1E-5", "+1", "-", "- 1", "1.5E+3",
    "0e0", "0.0e-0", "1E400", "-1e400", "1e-400", "123456789012345678901234567890", "1_000", "\uff11\uff12", "0x10", "1,5",
    "[]", "[ ]", "{}", "{ }", "[1,]", "[,1]", "[1 2]", "[1,,2]", "[", "]", "{", "}", '{"a"}', '{"a":}', '{"a" 1}', '{"a": 1,}',
    "{1: 2}", "{'a': 1}", '{"a": 1, "a": 2, "b": 3}', '{"a": 1, "b": 2, "a": {"a": 3, "a": 4}}', '{"": 0, "": null}',
    '{"a" : 1 ,"b":[ ] ,\n"c"\t:\r{ } }', "[[[[[[[[[[1]]]]]]]]]]", "[[[[[[[[[[1]]]]]]]]]", '"', '""', '"a', '"\\"', '"\\\\"',
    '"\\x41"', '"\\u12"', '"\\u12G4"', '"\\u00e9\\u00E9"', '"\\ud800"', '"\\ud800\\u0041"', '"\\udc00"', '"\\ud83d\\ude00"',
    '"\\ud83d\\ud83d\\ude00"', '"\\ud83d x"', '"\\uD83D\\uDE00"', '"\\/"', '"/"', '"\\b\\f\\n\\r\\t"', '"\\a"', '"\\u0000"', '"a\x01b"',
    '"a\tb"', '"a\nb"', '"\x7f"', '"\u00e9"', '"\U0001f600"', "\ufeff1", "1\x0b", "\x0c1", "\u00a01", "1 \n\t\r", '["a", 1.5, true, null, {"k": []}]',
    "[1.5e3, -2E-2, 0.1, 1e+16, 5e-324, 1.7976931348623157e+308]", "[1a]", "1a", "[1-2]", "1-2", "1.e5", "1.5e", "[1.5e, 2]", "tnull",
    '{"a": 1}{"b": 2}', '"a" "b"', "[1] 2", "nullnull", "[-]", "[+1]", "[.1]", "[1.]", "[0.]", "[-.5]", "2e", "E5", "e5", "-e5",
]


def mutate_text(rng, text):
    """one random defect in a valid JSON text"""
    how = rng.choice(["truncate", "delete", "insert", "replace", "double", "swap"])
    if not text:
        return rng.choice(TEXT_PALETTE), "insert"
    i = rng.randrange(len(text))
    if how == "truncate":
        return text[:i], how
    if how == "delete":
        return text[:i] + text[i + 1:], how
    if how == "insert":
        return text[:i] + rng.choice(TEXT_PALETTE) + text[i:], how
    if how == "replace":
        return text[:i] + rng.choice(TEXT_PALETTE) + text[i + 1:], how
    if how == "double":
        return text[:i] + text[i] + text[i:], how
    j = rng.randrange(len(text))
    t = list(text)
    t[i], t[j] = t[j], t[i]
    return "".join(t), how


def text_trip_case(out, case, j, model):
    """model `dumps` vs json.dumps(allow_nan=False) char for char; model `loads` vs json.loads on that text"""
    try:
        text = json.dumps(j, allow_nan=False)
    except ValueError:
        return None
    model({"op": "json_dumps", "j": jv(j)}, case, {"text": text}, "json.dumps(allow_nan=False)")
    model(loads_op(text), case, impl_loads(text), "json.loads")
    return text


def zoo():
    """inputs of to_json_serializable: every branch of the dispatch, the fallbacks and the failures"""
    import numpy as np
    import pandas as pd
    ts = pd.Timestamp("2020-01-02T03:04:05.000006")
    base = [
        None, True, False, 0, 1, -7, 10 ** 20, 1.5, -0.0, float("nan"), float("inf"), float("-inf"), "", "é\n", "NaT", "nan",
        [], {}, [1, [2.5, [None, "x", float("nan")]]], {"a": {"b": [float("nan"), True]}, "c": None},
        np.array([1.0, float("nan"), float("inf"), -0.0]), np.array([]), np.array([1.5, float("nan")], dtype="float32"),
        np.array([1, 2, 3]), np.array([True, False]), np.array(["a", "", "é"]), np.array(["x", None, 1.5, float("nan")], dtype=object),
        np.array([ts, pd.NaT]), np.array([datetime.datetime(2020, 1, 2, 3, 4, 5, 6), datetime.datetime(2020, 1, 1)]),
        np.array(["2020-01-01", "NaT"], dtype="datetime64[ns]"), np.array(["2020-01-01T01:02:03.000004", "NaT"], dtype="datetime64[us]"),
        np.array([], dtype=object), np.array([], dtype=bool),
        ts, pd.NaT, datetime.datetime(2020, 1, 2), datetime.datetime(2020, 1, 2, 3, 4, 5, 6), pd.Timestamp("2020-01-01T00:00:00.000000001"),
        pd.Timestamp("2020-01-02 00:00:00+01:00"),
        pd.NA, decimal.Decimal("NaN"), decimal.Decimal("1.5"),
        np.float64(1.0), np.float64("nan"), np.bool_(True), np.int64(3), np.datetime64("NaT"), np.float32(2.5), np.str_("s"),
        (1, 2), {1}, b"ab", datetime.date(2020, 1, 1), datetime.time(1, 2), object(), 1 + 2j, range(3),
        {"k": np.array([1.0, float("nan")]), "l": [np.float64(1.0)]}, [pd.NaT, ts, None], {"x": (1,)}, [{1}, np.float64(1.0)],
        [np.float64(1.0), {1}], {"a": [1.0, float("nan")], "b": np.array([ts, pd.NaT])},
    ]
    return base


# --------------------------------------------------------------------------- run

def run(tier, seed, model_ok, translator, search=False):
    import numpy as np
    import pandas as pd
    from pdtable.io._json import to_json_serializable
    from pdtable.io.json import table_to_json_data, json_data_to_table
    from pdtable.io.parsers.blocks import make_table_json_data, parse_blocks
    from harness.props import c02

    out = Outcome()
    out.rule = ("(a) to_json_serializable on a zoo of Python / numpy / pandas objects (every dispatch branch, fallbacks, "
                "failures); (b) well-formed tables of all column kinds (NaN, +-inf, integral and fractional numbers, int64, "
                "microsecond and nanosecond datetimes, NaT, zero rows / columns, unicode and JSON-hostile text, names and destinations; column names differing only in letter case or only after "
                "Unicode case folding ('t'/'T', 'Maß'/'MASS'); datetimes of the years 1..9999; a row-count ladder (64 … 8193 rows "
                "in every quick run, 60 … 20000 in thorough, always with missing numbers); row labels of the backing "
                "frame default / permuted / strings / duplicates / concat without ignore_index / DatetimeIndex) "
                "-> table_to_json_data -> json.dumps(allow_nan=False) -> json.loads -> json_data_to_table; (c) reader-produced "
                "JsonData (make_table_json_data and parse_blocks(to='jsondata')) of well-formed grids, text and native cells, "
                "both orientations; (d) malformed JsonData into json_data_to_table (model vs code on the exception class); "
                "(e) edit-then-convert histories: a table is consulted, its columns are reordered in place on t.df (pop / "
                "insert / sort_index, same names and dtypes, differing units), then the whole trip, expected units per "
                "column name from the generator. "
                "Non-trivial: a table with at least one column and one row; distinct by content.")
    rng = make_rng(seed, "C08")
    thorough = tier == "thorough" or search
    ops, pend = [], []

    def model(op, case, impl, what):
        if model_ok:
            ops.append(op)
            pend.append((what, case, impl))

    # (a) function level
    for i, obj in enumerate(zoo()):
        pv = classify(obj)
        case = {"stream": "a", "index": i, "v": pv, "repr": repr(obj)[:80]}
        try:
            with warnings.catch_warnings():
                warnings.simplefilter("ignore")
                r = to_json_serializable(obj)
            impl = {"ok": jv(r)}
            bad = impure_leaves(r)
            if bad:
                out.fail("to_json_serializable returned a value that is not plain JSON", case, bad[:5], None,
                         key="impure:" + bad[0].split(": ")[-1])
        except Exception as e:  # noqa: BLE001
            impl = {"exc": type(e).__name__}
        add_case(out, case, case["v"], True)
        out.count("a:" + ("exc:" + impl["exc"] if "exc" in impl else "ok"))
        if "unmodelled" not in json.dumps(pv):
            model({"op": "to_json", "v": pv}, case, impl, "to_json_serializable")

    # (b) well-formed tables
    n_b = 4000 if thorough else 500
    for i in range(n_b):
        spec = gen_spec(rng)
        case = {"seed": seed, "stream": "b", "index": i, "table": spec_case(spec)}
        run_table_case(out, rng, spec, case, model)

    # (b') negative WF case: an int64 of magnitude >= 2^53 that is not a float64 does not come back as the same number
    from pdtable.io.json import table_to_json_data as _t2j, json_data_to_table as _j2t
    for big in (2 ** 53 + 1, -(2 ** 53) - 1, 2 ** 60 + 1):
        spec = {"name": "big", "dests": ["a"], "transposed": False, "cols": [("n", "-", "int", [big, 1])]}
        t = build_table(rng, spec)
        case = {"seed": seed, "stream": "b-neg", "table": spec_case(spec)}
        try:
            with warnings.catch_warnings():
                warnings.simplefilter("ignore")
                j = _t2j(t)
                t2 = _j2t(json.loads(json.dumps(j, allow_nan=False)))
            same = t2.equals(t)
            back = t2.df["n"].tolist()[0]
        except Exception as e:  # noqa: BLE001
            same, back = None, type(e).__name__
        add_case(out, case, case["table"], False)
        out.count("negative (|i| >= 2^53, not a float64): " + ("comes back as a different number" if same is False
                  else "unexpectedly round-trips" if same else "raises " + str(back)))
        if type(j["columns"]["n"]["values"][0]) is not int or j["columns"]["n"]["values"][0] != big:
            out.fail("table_to_json_data does not carry a large integer exactly", case, j["columns"]["n"]["values"][0], big, key="bigint")
        model({"op": "json_of_table", "table": table_val(t)}, case, {"ok": jv(j)}, "table_to_json_data (large int)")

    spec = {"name": "nul", "dests": ["a"], "transposed": False, "cols": [("s", "text", "text", ["a\x00", "b"])]}
    t = build_table(rng, spec)
    try:
        with warnings.catch_warnings():
            warnings.simplefilter("ignore")
            back = _j2t(json.loads(json.dumps(_t2j(t)))).df["s"].tolist()[0]
    except Exception as e:  # noqa: BLE001
        back = type(e).__name__
    out.evaluations += 1
    out.count("negative (text ending in NUL): " + ("comes back without the NUL" if back == "a" else "comes back as " + repr(back)))

    # (L) row-count ladder: sizes at and around the powers of two where bulk / chunked code paths switch, always
    #     with missing numbers; every size of the quick ladder in every run, the full ladder in thorough
    for n_row in (ROW_LADDER_FULL if thorough else ROW_LADDER_QUICK):
        spec = ladder_spec(rng, n_row)
        case = {"seed": seed, "stream": "L", "rows": n_row, "table": spec_case(spec)}
        out.count("L:rows:%d" % n_row)
        run_table_case(out, rng, spec, case, model)

    # (e) edit then convert: consult the table, reorder its columns in place, then the whole JSON trip; the expected
    #     unit of every column (by name) and the column order come from the generator, never from the table
    n_e = 1000 if thorough else 160
    done = 0
    while done < n_e:
        spec = gen_spec(rng)
        if len(spec["cols"]) < 2 or len({c[1] for c in spec["cols"]}) < 2:
            continue
        done += 1
        case = {"seed": seed, "stream": "e", "index": done, "table": spec_case(spec)}
        run_table_case(out, rng, spec, case, model, edit=True)

    # (c) reader-produced JsonData
    n_c = 3000 if thorough else 450
    for i in range(n_c):
        native = rng.random() < 0.4
        grid, info = c02.wf_grid(rng, native)
        grid = one_zone_per_column(inject_ns(rng, [list(r) for r in grid], info, native), info)
        case = {"seed": seed, "stream": "c", "index": i, "cells": grid_to_json(grid)}
        run_grid_case(out, grid, info, case, model, via_blocks=(i % 2 == 1))

    # (d) malformed JsonData
    n_d = 1500 if thorough else 250
    for i in range(n_d):
        spec = gen_spec(rng)
        t = build_table(rng, spec)
        try:
            with warnings.catch_warnings():
                warnings.simplefilter("ignore")
                j = table_to_json_data(t)
            if impure_leaves(j):
                raise TypeError("impure JsonData")
        except Exception:  # noqa: BLE001 — judged by stream (b); here a clean JsonData is rebuilt from the generator
            j = {"name": spec["name"], "destinations": {d: None for d in spec["dests"]},
                 "columns": {nm: {"unit": unit, "values": expected_leaves(kind, vals)} for nm, unit, kind, vals in spec["cols"]}}
        j2, how = mutate_json(rng, j)
        case = {"seed": seed, "stream": "d", "index": i, "how": how, "j": jv(j2)}
        try:
            with warnings.catch_warnings():
                warnings.simplefilter("ignore")
                t2 = json_data_to_table(j2)
            impl = {"ok": rc.canon_table(t2)}
        except Exception as e:  # noqa: BLE001
            impl = {"exc": type(e).__name__}
        add_case(out, case, case["j"], how != "none")
        out.count("d:" + how + ":" + ("exc:" + impl["exc"] if "exc" in impl else "ok"))
        model(to_table_op(j2), case, impl, "json_data_to_table(malformed)")

    # (t) JSON texts: the fixed list of edge cases, random defects in real dumps output, nested random values
    texts = [(x, "listed") for x in BAD_TEXTS]
    n_t = 2000 if thorough else 280
    for i in range(n_t):
        if i % 3 == 0:
            base = json.dumps(rand_json(rng, 3))
        else:
            t = build_table(rng, gen_spec(rng))
            try:
                with warnings.catch_warnings():
                    warnings.simplefilter("ignore")
                    base = json.dumps(table_to_json_data(t))
            except Exception:  # noqa: BLE001
                continue
        if i % 4 == 0:
            texts.append((base, "valid"))
            # the same value with other (legal) whitespace and upper-case escapes
            texts.append((base.replace(", ", rng.choice([",", " ,\n", ",\t"])).replace(": ", rng.choice([":", " : "])), "valid ws"))
        texts.append(mutate_text(rng, base))
    for text, how in texts:
        if has_surrogate(text):
            continue
        case = {"seed": seed, "stream": "t", "how": how, "text": text}
        impl = impl_loads(text)
        out.evaluations += 1
        out.nontrivial.add(hash(text))
        if len([x for x in out.samples if x.get("stream") == "t"]) < 1:
            out.samples.append(case)
        if "skip" in impl:
            out.count("t:skipped (CPython accepts, JVal cannot express): " + impl["skip"])
            impl = {"reject": True}            # the model must answer `none` for the named classes
        else:
            out.count("t:" + how + ":" + ("accepted" if "ok" in impl else "rejected"))
        model(loads_op(text), case, impl, "json.loads(text)")
        if "ok" in impl:
            # re-encoding the accepted value: dumps of the model vs CPython
            try:
                v = json.loads(text)
                if not has_nan_or_inf(v):
                    model({"op": "json_dumps", "j": jv(v)}, case, {"text": json.dumps(v, allow_nan=False)}, "json.dumps(loads(text))")
            except Exception:  # noqa: BLE001
                pass

    if model_ok and ops:
        for (what, case, impl), ans in zip(pend, common.run_model(ops)):
            if isinstance(ans, dict) and "error" in ans:
                out.mismatch("driver error", case, impl, ans)
                continue
            if what.startswith("json_data_to_table"):
                ans = rc.model_table_canon(ans)
                if "ok" in ans:
                    ans["ok"].pop("fixer", None)
            if what.startswith(("table_to_json_data", "make_table_json_data")):
                # the destinations of a table are a set: the member order of "destinations" is promised by nothing
                ans, impl = canon_destinations(ans), canon_destinations(impl)
            if ans != impl:
                if what == "json_data_to_table(malformed)" and case.get("how") != "none" and \
                        (not isinstance(ans, dict) or not isinstance(impl, dict) or "exc" in ans or "exc" in impl):
                    # a malformed JsonData is outside the statement's domain: where model and code disagree on whether /
                    # how it is refused, that is counted, not reported (both accepting with different tables is reported)
                    out.count("d:out of domain, model and code disagree (%s): model %s / code %s" % (
                        case.get("how"), ans.get("exc", "accepts") if isinstance(ans, dict) else "?",
                        impl.get("exc", "accepts") if isinstance(impl, dict) else "?"))
                    continue
                if what == "to_json_serializable" and isinstance(ans, dict) and ans.get("exc") == "NotImplementedError" \
                        and isinstance(impl, dict) and "ok" in impl:
                    # a value of a type outside JsonData's precursor types (tuple, date, path, …): today refused
                    # with NotImplementedError; a library that converts it instead is outside the statement
                    out.count("a:value type outside the precursor types is converted, not refused")
                    continue
                out.mismatch(f"{what}: pdtable vs Lean model", case, impl, ans)
    return out


def add_case(out, case, key, nontrivial):
    """count a case; distinct non-trivial cases are keyed by content (never by seed / index)"""
    import hashlib
    out.evaluations += 1
    if nontrivial:
        out.nontrivial.add(hashlib.sha1(json.dumps(key, sort_keys=True, default=str).encode()).hexdigest())
    if len(out.samples) < 4:
        out.samples.append(case)


def reorder_in_place(rng, t, spec, how=None):
    """consult the table once through the facade, then reorder the columns of its backing frame IN PLACE (same names,
    same dtypes); -> (how, the generator's spec in the new column order)"""
    _ = (list(t.units), list(t.column_names), str(t))          # the table has been looked at: frame state is cached
    names = [c[0] for c in spec["cols"]]
    how = how or rng.choice(["pop to end", "pop to front", "sort_index", "reversed"])
    if how == "pop to end":
        nm = names[rng.randrange(len(names) - 1)]      # any column but the last moves to the end
        col = t.df.pop(nm)
        t.df[nm] = col
    elif how == "pop to front":
        nm = names[-1]
        col = t.df.pop(nm)
        t.df.insert(0, nm, col)
    elif how == "sort_index":
        t.df.sort_index(axis=1, inplace=True)
    else:
        for nm in reversed(names[:-1]):
            col = t.df.pop(nm)
            t.df[nm] = col
    order = [str(c) for c in t.df.columns]
    by_name = {c[0]: c for c in spec["cols"]}
    return how, dict(spec, cols=[by_name[n] for n in order])


def run_table_case(out, rng, spec, case, model, edit=None):
    from pdtable.io.json import table_to_json_data, json_data_to_table
    t = build_table(rng, spec)
    if edit is not None:
        try:
            with warnings.catch_warnings():
                warnings.simplefilter("ignore")
                how, spec = reorder_in_place(rng, t, spec, None if edit is True else edit)
        except Exception as e:  # noqa: BLE001
            out.fail("reordering the columns of a table's frame in place raises", case, type(e).__name__ + ": " + str(e)[:100],
                     None, key="reorder_exc:" + type(e).__name__)
            return
        case["edit"] = how
        case["after"] = spec_case(spec)
        out.count("e:" + how)
    nontrivial = bool(spec["cols"]) and bool(spec["cols"][0][3])
    add_case(out, case, case.get("table"), nontrivial)
    kinds = [c[2] for c in spec["cols"]]
    for k in kinds:
        out.count("b:kind:" + k)
    out.count("b:rows:" + str(len(spec["cols"][0][3]) if spec["cols"] else "no columns"))
    out.count("b:row labels:" + spec.get("index", "default"))
    infinite = any(k == "num" and any(math.isinf(v) for v in vals) for _, _, k, vals in spec["cols"])
    has_nat = any(k == "datetime" and any(v is None for v in vals) for _, _, k, vals in spec["cols"])
    has_nan = any(k == "num" and any(v != v for v in vals) for _, _, k, vals in spec["cols"])
    out.count("b:infinite" if infinite else "b:finite")
    missing_bool = any(k == "xbool" and any(v is None for v in vals) for _, _, k, vals in spec["cols"])
    missing_text = any(k == "xstr" and any(v is None for v in vals) for _, _, k, vals in spec["cols"])
    if any(k.startswith("x") for k in kinds):
        out.count("b:nullable / string extension dtypes")
    if has_nat:
        out.count("b:has NaT (round trip not claimed)")
    if missing_bool:
        out.count("b:has a missing boolean (round trip not claimed: null in an onoff column is rejected)")
    if missing_text:
        out.count("b:has a missing text (round trip not claimed: null comes back as the text 'None')")
    if has_nan:
        out.count("b:has NaN")
    try:
        with warnings.catch_warnings():
            warnings.simplefilter("ignore")
            j = table_to_json_data(t)
    except Exception as e:  # noqa: BLE001
        out.fail("table_to_json_data raises on a well-formed table", case, type(e).__name__ + ": " + str(e)[:100], "JsonData",
                 key="to_json_exc:" + type(e).__name__)
        return
    tv, tobs = table_val(t), table_obs(t)
    model({"op": "json_of_table_obs", "table": tobs}, case, {"ok": jv(j)}, "table_to_json_data (observed element types)")
    if tv is not None:       # (a table with nullable columns has no dtype-typed TableVal: pd.NA in an int / bool column)
        model({"op": "json_of_table", "table": tv}, case, {"ok": jv(j)}, "table_to_json_data")
    for cv, co in zip(tv["columns"] if tv else [], tobs["columns"]):
        want = [assumed_element(v) for v in cv["values"]]
        if want != co["values"]:
            out.mismatch("list(df[col]) yields other element types than the model assumes (Json.valPVal)",
                         dict(case, column=cv["name"]), co["values"][:6], want[:6])
            break
    if not impure_leaves(j):
        try:
            json.dumps(j, allow_nan=False)
            accepted = True
        except ValueError:
            accepted = False
        model({"op": "dumps_ok", "j": jv(j)}, case, accepted, "json.dumps(allow_nan=False)")
    text = check_json_of_table(out, case, j, [c[0] for c in spec["cols"]], infinite, "table_to_json_data")
    # expected leaves, from the generator's own values (not from the table)
    for nm, unit, kind, vals in spec["cols"]:
        got = j["columns"].get(nm, {}).get("values")
        exp = expected_leaves(kind, vals)
        if got is None or not same_typed(got, exp) or j["columns"][nm].get("unit") != unit:
            out.fail("table_to_json_data: a column's JSON is not its unit and values", dict(case, column=nm),
                     str(j["columns"].get(nm))[:300], str({"unit": unit, "values": exp})[:300], key="leaves:" + kind)
            return
    if j.get("name") != spec["name"] or list(j.get("destinations", {}).values()) != [None] * len(spec["dests"]) or \
            set(j.get("destinations", {})) != set(spec["dests"]) or not {"name", "destinations", "columns"} <= set(j):
        out.fail("table_to_json_data: header members wrong", case, {k: j.get(k) for k in ("name", "destinations")}, None, key="header")
        return
    if text is None:
        if infinite:
            # the text trip is impossible in strict mode; the JsonData itself still converts back
            text_loose = json.dumps(j)
            j_back = json.loads(text_loose)
        else:
            return
    else:
        j_back = json.loads(text)
    text_trip_case(out, case, j, model)
    if not same_typed(j_back, j):
        out.fail("json.loads(json.dumps(j)) differs from j (law of the json module, proved of the model: loads_dumps)", case, str(j_back)[:200],
                 str(j)[:200], key="json_module")
        return
    try:
        with warnings.catch_warnings():
            warnings.simplefilter("ignore")
            t2 = json_data_to_table(j_back)
        impl = {"ok": rc.canon_table(t2)}
    except Exception as e:  # noqa: BLE001
        impl = {"exc": type(e).__name__}
    model(to_table_op(j_back), case, impl, "json_data_to_table")
    if has_nat and not (missing_bool or missing_text):
        check_lenient_fixer(out, case, t, j_back)
    if has_nat or missing_bool or missing_text:
        return
    check_roundtrip(out, case, t, json.dumps(j_back), "table_to_json_data", spec=spec)
    # missing numbers travel as null
    for nm, unit, kind, vals in spec["cols"]:
        if kind in ("num", "xint", "xfloat"):
            for v, leaf in zip(vals, j["columns"][nm]["values"]):
                if (v is None or v != v) != (leaf is None):
                    out.fail("a missing number is not a JSON null (or a null is not a missing number)", dict(case, column=nm),
                             leaf, "null" if v != v else v, key="null")
                    return


def check_lenient_fixer(out, case, t, j):
    """json_data_to_table(j, fixer=…) hands its keyword arguments on to the reader: with a fixer that does not stop on
    errors the null of a missing datetime is repaired to NaT instead of being refused"""
    from pdtable import ParseFixer
    from pdtable.io.json import json_data_to_table

    class Lenient(ParseFixer):
        def __init__(self):
            super().__init__()
            self.stop_on_errors = 0
            self._dbg = False
            self._called_from_test = True          # keeps report() from printing
    for arg in (Lenient, Lenient()):
        try:
            with warnings.catch_warnings():
                warnings.simplefilter("ignore")
                t2 = json_data_to_table(j, fixer=arg)
        except Exception as e:  # noqa: BLE001
            out.fail("json_data_to_table(j, fixer=<does not stop on errors>) still refuses a missing datetime", case,
                     type(e).__name__ + ": " + str(e)[:100], "a table with NaT", key="fixer_kwarg")
            return
        if not same_values(col_values(t2), col_values(t)):
            out.fail("json_data_to_table(j, fixer=…): values differ from the table's", case, str(col_values(t2))[:300],
                     str(col_values(t))[:300], key="fixer_kwarg:values")
            return
    out.count("b:lenient fixer through json_data_to_table(**kwargs)")


def expected_leaves(kind, vals):
    if kind == "datetime":
        return [None if v is None else str(v) for v in vals]
    if kind == "num":
        return [None if v != v else float(v) for v in vals]
    if kind == "xfloat":
        return [None if v is None else float(v) for v in vals]
    return list(vals)            # text, onoff, int and the nullable kinds: the value itself, pd.NA as null


def run_grid_case(out, grid, info, case, model, via_blocks):
    """reader-produced JsonData of a well-formed grid"""
    from pdtable.io.json import json_data_to_table
    from pdtable.io.parsers.blocks import make_table_json_data, make_table, parse_blocks
    from pdtable import Table
    from pdtable.table_metadata import ColumnUnitException
    from pdtable.table_origin import InputError
    f = rc.make_fixer("strict")
    # 1. the pdtable read of the same grid decides whether the grid is well formed: an *input error* there means it is
    #    not (out-of-range timestamps &c.: C02 / C12 territory) and the case is skipped; any other exception class is
    #    a failure
    try:
        with warnings.catch_warnings():
            warnings.simplefilter("ignore")
            if via_blocks:
                t = [v for bt, v in parse_blocks(iter([list(r) for r in grid]), to="pdtable") if bt.name == "TABLE"][0]
            else:
                t = make_table([list(r) for r in grid])
    except (ValueError, ColumnUnitException, InputError) as e:
        out.count("c:not well formed (the pdtable read reports an input error):" + type(e).__name__)
        return
    except Exception as e:  # noqa: BLE001
        add_case(out, case, [case.get("cells"), via_blocks], False)
        out.fail("reading a generated grid as pdtable raises something other than an input error", case,
                 type(e).__name__ + ": " + str(e)[:100], "a Table or an input error", key="reader_exc:" + type(e).__name__)
        return
    # 2. the pdtable read succeeded: producing the JsonData of the same grid must succeed too
    try:
        with warnings.catch_warnings():
            warnings.simplefilter("ignore")
            if via_blocks:
                j = [v for bt, v in parse_blocks(iter([list(r) for r in grid]), to="jsondata") if bt.name == "TABLE"][0]
            else:
                j = make_table_json_data([list(r) for r in grid], origin="x", fixer=f)
    except Exception as e:  # noqa: BLE001
        add_case(out, case, [case.get("cells"), via_blocks], False)
        out.fail("the readers produce a Table for a grid but no JsonData", case, type(e).__name__ + ": " + str(e)[:100],
                 "JsonData", key="reader_json_exc:" + type(e).__name__)
        if not via_blocks:
            model(dict(rc.model_op("json_of_precursor", grid, "strict")), case, {"exc": type(e).__name__}, "make_table_json_data")
        return
    nontrivial = bool(info["kinds"]) and info["n_row"] > 0
    add_case(out, case, [case.get("cells"), via_blocks], nontrivial)
    out.count("c:" + ("parse_blocks" if via_blocks else "make_table_json_data"))
    out.count("c:orientation:" + ("transposed" if info["transposed"] else "rowwise"))
    if not via_blocks:
        model(dict(rc.model_op("json_of_precursor", grid, "strict")), case, {"ok": jv(j)}, "make_table_json_data")
        # the arrays of the real precursor as observed (dtype float64 or not, exact type of every tolist() element)
        try:
            from pdtable.io.parsers.blocks import make_table_json_precursor
            with warnings.catch_warnings():
                warnings.simplefilter("ignore")
                pre, _tr = make_table_json_precursor([list(r) for r in grid], origin="x", fixer=rc.make_fixer("strict"))
            obs = [classify(v) for v in pre["columns"].values()]
            model({"op": "json_of_precursor_obs", "precursor": {
                "name": pre["name"], "destinations": list(pre["destinations"].keys()), "names": list(pre["columns"].keys()),
                "units": list(pre["units"]), "columns": obs}}, case, {"ok": jv(j)}, "make_table_json_data (observed arrays)")
            for nm, v, o in zip(pre["columns"].keys(), pre["columns"].values(), obs):
                want = assumed_array(rc.canon_values(v))
                if want != o:
                    out.mismatch("a parsed column is held as another array type than the model assumes (Json.colPVal)",
                                 dict(case, column=nm), str(o)[:200], str(want)[:200])
                    break
        except Exception as e:  # noqa: BLE001
            out.mismatch("make_table_json_precursor raises where make_table_json_data did not", case, type(e).__name__, None)
    try:
        cv = col_values(t)
    except Exception as e:  # noqa: BLE001
        out.fail("reader table cannot be inspected", case, type(e).__name__, None, key="inspect:" + type(e).__name__)
        return
    infinite = any(k == "num" and any(math.isinf(x) for x in v) for k, v in cv)
    has_nat = any(k == "dt" and "NaT" in v for k, v in cv)
    tz = any(k == "dt" and any(len(x) > 19 and ("+" in x[19:] or "-" in x[19:]) for x in v) for k, v in cv)
    text = check_json_of_table(out, case, j, t.column_names, infinite, "reader JsonData")
    if text is None or has_nat:
        if has_nat:
            out.count("c:has NaT (round trip not claimed)")
        return
    if tz:
        out.count("c:timezone-aware datetimes")
    text_trip_case(out, case, j, model)
    t2 = check_roundtrip(out, case, t, text, "reader JsonData")
    if t2 is not None:
        j_back = json.loads(text)
        model(to_table_op(j_back), case, {"ok": rc.canon_table(t2)}, "json_data_to_table(reader)")


def rand_json(rng, depth):
    """an arbitrary NaN-free JSON value: nested dicts / lists, astral and control characters, escapes, numbers"""
    r = rng.random()
    if depth == 0 or r < 0.35:
        k = rng.randrange(7)
        if k == 0:
            return None
        if k == 1:
            return rng.random() < 0.5
        if k == 2:
            return rng.choice([0, -1, 7, 10 ** 20, -(2 ** 63), 123456789])
        if k == 3:
            return rng.choice([0.0, -0.0, 1.5, 1e16, 1e-7, 5e-324, 1.7976931348623157e308, -2.5e-10, 1 / 3, 100.0, 1e22])
        return "".join(rng.choice(["a", "é", "\"", "\\", "/", "\n", "\t", "\r", "\b", "\f", "\x00", "\x1f", "\x7f", " ", "漢",
                                   "\U0001f600", "\U0010ffff", "\ufffd", "\ud7ff", "\ue000", "u", "\\u", "{", "]", ":", ","])
                       for _ in range(rng.randint(0, 5)))
    if r < 0.7:
        return [rand_json(rng, depth - 1) for _ in range(rng.randint(0, 4))]
    return {rand_json(rng, 0) if False else "".join(rng.choice(["k", "é", "\"", " ", "\U0001f600", "\n"]) for _ in range(rng.randint(0, 3))):
            rand_json(rng, depth - 1) for _ in range(rng.randint(0, 4))}


def mutate_json(rng, j):
    """one defect in an otherwise valid JsonData"""
    j = json.loads(json.dumps(j)) if not has_nan_or_inf(j) else _copy(j)
    cols = list(j["columns"])
    how = rng.choice(["drop name", "drop destinations", "drop columns", "drop unit", "drop values", "name null", "name int",
                      "dest list", "dest str", "dest null", "dest int list", "columns list", "col not dict", "values str",
                      "values null", "ragged", "null in datetime", "null in onoff", "str in number", "unit int", "bool in number",
                      "int in text", "unit padded", "name star", "none", "values dict", "float in onoff", "empty dests", "top list"])
    c = rng.choice(cols) if cols else None
    need_col = {"drop unit", "drop values", "col not dict", "values str", "values null", "ragged", "unit int", "unit padded",
                "values dict"}
    if how in need_col and c is None:
        how = "none"
    if how == "drop name":
        del j["name"]
    elif how == "drop destinations":
        del j["destinations"]
    elif how == "drop columns":
        del j["columns"]
    elif how == "drop unit":
        del j["columns"][c]["unit"]
    elif how == "drop values":
        del j["columns"][c]["values"]
    elif how == "name null":
        j["name"] = None
    elif how == "name int":
        j["name"] = 7
    elif how == "dest list":
        j["destinations"] = list(j["destinations"])
    elif how == "dest str":
        j["destinations"] = "ab c"
    elif how == "dest null":
        j["destinations"] = None
    elif how == "dest int list":
        j["destinations"] = ["a", 1]
    elif how == "columns list":
        j["columns"] = [[k, v] for k, v in j["columns"].items()]
    elif how == "col not dict":
        j["columns"][c] = rng.choice(["text", None, 5, [1, 2]])
    elif how == "values str":
        j["columns"][c]["values"] = "ab"
    elif how == "values null":
        j["columns"][c]["values"] = rng.choice([None, 5, True])
    elif how == "values dict":
        j["columns"][c]["values"] = {"p": 1, "q": 2}
    elif how == "ragged":
        j["columns"][c]["values"] = j["columns"][c]["values"][:-1] if j["columns"][c]["values"] else [None]
    elif how == "unit int":
        j["columns"][c]["unit"] = rng.choice([5, None, True, 1.5])
    elif how == "unit padded":
        j["columns"][c]["unit"] = " " + j["columns"][c]["unit"] + "\t"
    elif how == "name star":
        j["name"] = str(j["name"]) + "*"
    elif how == "empty dests":
        j["destinations"] = {}
    elif how == "top list":
        j = [j]
    else:
        target = {"null in datetime": ("datetime", None), "null in onoff": ("onoff", None), "str in number": (None, "1.5"),
                  "bool in number": (None, True), "int in text": ("text", 5), "float in onoff": ("onoff", 1.0)}.get(how)
        if target is not None:
            unit, val = target
            cands = [k for k in cols if (j["columns"][k]["unit"] == unit if unit else
                                         j["columns"][k]["unit"] not in ("text", "onoff", "datetime")) and j["columns"][k]["values"]]
            if cands:
                k = rng.choice(cands)
                if how == "str in number":
                    val = rng.choice(["1.5", "nan", "-", "abc", " 2 ", ""])
                j["columns"][k]["values"][rng.randrange(len(j["columns"][k]["values"]))] = val
            else:
                how = "none"
    return j, how


def has_nan_or_inf(j):
    if type(j) is float:
        return j != j or math.isinf(j)
    if isinstance(j, list):
        return any(has_nan_or_inf(e) for e in j)
    if isinstance(j, dict):
        return any(has_nan_or_inf(v) for v in j.values())
    return False


def _copy(j):
    if isinstance(j, dict):
        return {k: _copy(v) for k, v in j.items()}
    if isinstance(j, list):
        return [_copy(v) for v in j]
    return j


# --------------------------------------------------------------------------- replay

def replay(rep):
    inp = rep.get("input") or {}
    out = Outcome()
    noop = lambda *a, **k: None  # noqa: E731
    # histories: a conversion that was refused earlier in the same process must not matter (a shared fixer would
    # remember it): every replay starts with one refused json_data_to_table call
    try:
        from pdtable.io.json import json_data_to_table as _j2t
        with warnings.catch_warnings():
            warnings.simplefilter("ignore")
            _j2t({"name": "refused", "destinations": {"a": None}, "columns": {"d": {"unit": "datetime", "values": [None]}}})
    except Exception:  # noqa: BLE001
        pass
    if "table" in inp:
        spec = spec_from_case(inp["table"])
        rng = make_rng(int(inp.get("seed", 0)), "C08-replay")
        for _ in range(4):           # the dtype choices of build_table are random: try a few
            run_table_case(out, rng, spec, dict(inp), noop, edit=inp.get("edit"))
    elif "cells" in inp:
        from harness.props.c02 import common_rows_from_json
        grid = common_rows_from_json(inp["cells"])
        info = {"kinds": ["?"], "n_row": 1, "transposed": str(grid[0][0]).endswith("*")}
        run_grid_case(out, grid, info, dict(inp), noop, via_blocks=False)
        run_grid_case(out, grid, info, dict(inp), noop, via_blocks=True)
    elif inp.get("stream") == "a":
        z = zoo()
        from pdtable.io._json import to_json_serializable
        try:
            r = to_json_serializable(z[inp["index"]])
            bad = impure_leaves(r)
            if bad:
                return False, "to_json_serializable returned a value that is not plain JSON: " + str(bad[:3])
        except Exception:  # noqa: BLE001
            pass
        return True, "property holds on this input"
    else:
        return False, "replay file has no input (no-failing-input-found): " + str(rep.get("broken"))[:300]
    if out.failures:
        return False, out.failures[0]["what"] + " — observed " + str(out.failures[0]["observed"])[:200]
    return True, "property holds on this input"
